// Package gen contains the seeded generators: pipeline configurations, task graphs, payloads.
package gen

import (
	"fmt"
	"math/rand"
	"sort"
	"time"

	"github.com/Flowpack/prunner/definition"

	"pxverif/model"
)

// LongDelay is a start delay that never expires within a history; the driver fires it logically through the exported
// StartDelayedJob (exactly what the timer callback calls)
const LongDelay = time.Hour

// Graph is a task graph with names
type Graph struct {
	Names  []string
	Deps   map[string][]string
	Cyclic bool
}

var taskNamePool = []string{"build", "alpha", "zeta", "deploy", "lint", "a", "b", "test", "x-1", "pack", "ship", "m", "omega", "prep", "k9", "unit", "Lint", "A", "BUILD"} // (names that differ only in case are different tasks)

// RandNames returns n distinct task names in random order (so that name order is unrelated to dependency order)
func RandNames(r *rand.Rand, n int) []string {
	idx := r.Perm(len(taskNamePool))
	out := make([]string, n)
	for i := 0; i < n; i++ {
		out[i] = taskNamePool[idx[i]]
	}
	return out
}

// RandDAG builds a random DAG with n nodes: edges only from earlier to later nodes of a random order
func RandDAG(r *rand.Rand, n int, edgeProb float64) Graph {
	names := RandNames(r, n)
	g := Graph{Names: names, Deps: map[string][]string{}}
	for i := 0; i < n; i++ {
		for j := 0; j < i; j++ {
			if r.Float64() < edgeProb {
				g.Deps[names[i]] = append(g.Deps[names[i]], names[j])
			}
		}
		// randomize the order of depends_on
		d := g.Deps[names[i]]
		r.Shuffle(len(d), func(a, b int) { d[a], d[b] = d[b], d[a] })
	}
	return g
}

// Shapes returns hand-picked shapes that matter: chain, diamond, nested diamond, fan-in, fan-out, isolated nodes
func Shape(r *rand.Rand, kind int) Graph {
	switch kind % 7 {
	case 0: // chain of 3
		n := RandNames(r, 3)
		return Graph{Names: n, Deps: map[string][]string{n[1]: {n[0]}, n[2]: {n[1]}}}
	case 1: // diamond
		n := RandNames(r, 4)
		return Graph{Names: n, Deps: map[string][]string{n[1]: {n[0]}, n[2]: {n[0]}, n[3]: {n[2], n[1]}}}
	case 2: // nested diamond
		n := RandNames(r, 6)
		return Graph{Names: n, Deps: map[string][]string{n[1]: {n[0]}, n[2]: {n[0]}, n[3]: {n[1], n[2]}, n[4]: {n[3], n[0]}, n[5]: {n[4], n[3], n[1]}}}
	case 3: // fan-in
		n := RandNames(r, 4)
		return Graph{Names: n, Deps: map[string][]string{n[3]: {n[0], n[1], n[2]}}}
	case 4: // fan-out
		n := RandNames(r, 4)
		return Graph{Names: n, Deps: map[string][]string{n[1]: {n[0]}, n[2]: {n[0]}, n[3]: {n[0]}}}
	case 5: // isolated + chain
		n := RandNames(r, 4)
		return Graph{Names: n, Deps: map[string][]string{n[2]: {n[1]}}}
	default: // single
		n := RandNames(r, 1)
		return Graph{Names: n, Deps: map[string][]string{}}
	}
}

// MakeCyclic adds a back edge (self loop, 2-cycle or longer cycle) to the graph
func MakeCyclic(r *rand.Rand, g Graph) Graph {
	out := Graph{Names: append([]string(nil), g.Names...), Deps: map[string][]string{}, Cyclic: true}
	for k, v := range g.Deps {
		out.Deps[k] = append([]string(nil), v...)
	}
	n := len(out.Names)
	switch {
	case n == 1 || r.Intn(4) == 0: // self loop
		t := out.Names[r.Intn(n)]
		out.Deps[t] = append(out.Deps[t], t)
	default:
		// find an edge path and close it: pick a node with a dependency (or create one) and add the reverse edge
		var cand [][2]string
		for t, ds := range out.Deps {
			for _, d := range ds {
				cand = append(cand, [2]string{t, d})
			}
		}
		sort.Slice(cand, func(a, b int) bool { return cand[a][0]+"|"+cand[a][1] < cand[b][0]+"|"+cand[b][1] })
		if len(cand) == 0 {
			a, b := out.Names[0], out.Names[1]
			out.Deps[a] = append(out.Deps[a], b)
			out.Deps[b] = append(out.Deps[b], a)
		} else {
			e := cand[r.Intn(len(cand))]
			// close the longest chain ending in e[0]: walk up from e[1] to a root, make the root depend on e[0]
			root := e[1]
			for steps := 0; steps < n; steps++ {
				ds := out.Deps[root]
				if len(ds) == 0 {
					break
				}
				root = ds[r.Intn(len(ds))]
				if root == e[0] {
					break
				}
			}
			if root == e[0] {
				root = e[1]
			}
			out.Deps[root] = append(out.Deps[root], e[0])
		}
	}
	return out
}

// IsCyclic checks the graph with an independent DFS
func IsCyclic(g Graph) bool {
	color := map[string]int{}
	var visit func(n string) bool
	visit = func(n string) bool {
		color[n] = 1
		for _, d := range g.Deps[n] {
			if color[d] == 1 {
				return true
			}
			if color[d] == 0 && visit(d) {
				return true
			}
		}
		color[n] = 2
		return false
	}
	for _, n := range g.Names {
		if color[n] == 0 && visit(n) {
			return true
		}
	}
	return false
}

// PipeSpec is a generated pipeline with everything the oracles need
type PipeSpec struct {
	Name  string
	Def   definition.PipelineDef
	Graph Graph
}

// Cfg converts to the admission model configuration
func (p PipeSpec) Cfg() model.PipeCfg {
	return model.PipeCfg{Defined: true, Concurrency: p.Def.Concurrency, QueueLimit: p.Def.QueueLimit, Replace: p.Def.QueueStrategy == definition.QueueStrategyReplace,
		Delay: p.Def.StartDelay > 0, FailFast: !p.Def.ContinueRunningTasksAfterFailure}
}

// SimTasks builds the task list for the job simulation
func (p PipeSpec) SimTasks() []model.SimTask {
	var out []model.SimTask
	for _, n := range p.Graph.Names {
		td := p.Def.Tasks[n]
		out = append(out, model.SimTask{Name: n, Deps: append([]string(nil), td.DependsOn...), AllowFailure: td.AllowFailure})
	}
	return out
}

// PipeOpts biases the pipeline generator
type PipeOpts struct {
	MaxTasks         int
	CyclicProb       float64
	DelayProb        float64
	AllowFailureProb float64
	ForceClass       *ConfigClass
	EnvProb          float64
	// GraphFn, if set, supplies the task graph
	GraphFn func(r *rand.Rand) Graph
}

// ConfigClass is one of the admission configuration classes (C05)
type ConfigClass struct {
	Concurrency int
	Limit       int // -1 = nil
	Replace     bool
	Delay       bool
}

func (c ConfigClass) String() string {
	l := "nil"
	if c.Limit >= 0 {
		l = fmt.Sprint(c.Limit)
	}
	s := "append"
	if c.Replace {
		s = "replace"
	}
	d := "nodelay"
	if c.Delay {
		d = "delay"
	}
	return fmt.Sprintf("c%d/l%s/%s/%s", c.Concurrency, l, s, d)
}

// AllClasses enumerates every valid admission configuration class
func AllClasses() []ConfigClass {
	var out []ConfigClass
	for c := 1; c <= 3; c++ {
		for l := -1; l <= 3; l++ {
			for _, rep := range []bool{false, true} {
				for _, d := range []bool{false, true} {
					if d && l == 0 {
						continue
					}
					out = append(out, ConfigClass{c, l, rep, d})
				}
			}
		}
	}
	return out
}

func intPtr(i int) *int { return &i }

// RandPipe generates one pipeline
func RandPipe(r *rand.Rand, name string, o PipeOpts) PipeSpec {
	if o.MaxTasks == 0 {
		o.MaxTasks = 4
	}
	var cls ConfigClass
	if o.ForceClass != nil {
		cls = *o.ForceClass
	} else {
		cls = ConfigClass{Concurrency: 1 + r.Intn(3), Limit: r.Intn(5) - 1, Replace: r.Intn(3) == 0, Delay: r.Float64() < o.DelayProb}
		if cls.Delay && cls.Limit == 0 {
			cls.Limit = -1
		}
	}
	var g Graph
	if o.GraphFn != nil {
		g = o.GraphFn(r)
	} else if r.Intn(3) == 0 {
		g = Shape(r, r.Intn(7))
		if len(g.Names) > o.MaxTasks {
			g = RandDAG(r, o.MaxTasks, 0.4)
		}
	} else {
		g = RandDAG(r, 1+r.Intn(o.MaxTasks), 0.4)
	}
	if o.GraphFn == nil && r.Float64() < o.CyclicProb {
		g = MakeCyclic(r, g)
	}
	def := definition.PipelineDef{
		Concurrency:                      cls.Concurrency,
		ContinueRunningTasksAfterFailure: r.Intn(2) == 0,
		Tasks:                            map[string]definition.TaskDef{},
		SourcePath:                       "gen/" + name + ".yml",
	}
	if cls.Limit >= 0 {
		def.QueueLimit = intPtr(cls.Limit)
	}
	if cls.Replace {
		def.QueueStrategy = definition.QueueStrategyReplace
	}
	if cls.Delay {
		def.StartDelay = LongDelay
	}
	if r.Float64() < o.EnvProb {
		def.Env = map[string]string{"PIPE_" + name: fmt.Sprint(r.Intn(1000)), "SHARED": "pipe-" + name}
	}
	for _, n := range g.Names {
		k := r.Intn(100000)
		td := definition.TaskDef{
			Script:       []string{fmt.Sprintf("echo %s-%d", n, k)},
			DependsOn:    append([]string(nil), g.Deps[n]...),
			AllowFailure: r.Float64() < o.AllowFailureProb,
		}
		if k%6 == 0 && len(td.DependsOn) > 0 && !g.Cyclic {
			// a dependency may be named twice (`depends_on: [build, build]` is accepted by the loader): the graph is the same
			// (seed C02-n: a sort that counts entries instead of distinct dependencies). Decided by a number that is drawn
			// anyway, so the random stream of the other choices is unchanged.
			td.DependsOn = append(td.DependsOn, td.DependsOn[k%len(td.DependsOn)])
		}
		if r.Intn(8) == 0 {
			td.Script = nil // empty-script task
		}
		if r.Intn(5) == 0 {
			td.Script = append(td.Script, fmt.Sprintf("echo second-%d", r.Intn(1000)))
		}
		if r.Float64() < o.EnvProb {
			td.Env = map[string]string{"TASK_" + n: fmt.Sprint(r.Intn(1000)), "SHARED": "task-" + n}
		}
		def.Tasks[n] = td
	}
	return PipeSpec{Name: name, Def: def, Graph: g}
}

// BuildDefs assembles a PipelinesDef (fresh deep copy: maps are not shared with the specs)
func BuildDefs(specs []PipeSpec) *definition.PipelinesDef {
	d := &definition.PipelinesDef{Pipelines: map[string]definition.PipelineDef{}}
	for _, s := range specs {
		d.Pipelines[s.Name] = CopyPipeDef(s.Def)
	}
	return d
}

// CopyPipeDef makes a deep copy of a pipeline definition
func CopyPipeDef(in definition.PipelineDef) definition.PipelineDef {
	out := in
	if in.QueueLimit != nil {
		out.QueueLimit = intPtr(*in.QueueLimit)
	}
	if in.Env != nil {
		out.Env = map[string]string{}
		for k, v := range in.Env {
			out.Env[k] = v
		}
	}
	out.Tasks = map[string]definition.TaskDef{}
	for n, t := range in.Tasks {
		c := t
		c.Script = append([]string(nil), t.Script...)
		c.DependsOn = append([]string(nil), t.DependsOn...)
		if t.Env != nil {
			c.Env = map[string]string{}
			for k, v := range t.Env {
				c.Env[k] = v
			}
		}
		out.Tasks[n] = c
	}
	return out
}

// ModelCfg builds the admission model configuration of a set of specs
func ModelCfg(specs []PipeSpec) map[string]model.PipeCfg {
	m := map[string]model.PipeCfg{}
	for _, s := range specs {
		m[s.Name] = s.Cfg()
	}
	return m
}

// AllDAGs enumerates every labelled DAG on n nodes (n <= 4): every acyclic subset of the n*(n-1) possible edges
func AllDAGs(n int) [][][2]int {
	var edges [][2]int
	for a := 0; a < n; a++ {
		for b := 0; b < n; b++ {
			if a != b {
				edges = append(edges, [2]int{a, b}) // b depends on a
			}
		}
	}
	var out [][][2]int
	for mask := 0; mask < 1<<len(edges); mask++ {
		var sel [][2]int
		g := Graph{Deps: map[string][]string{}}
		for i := 0; i < n; i++ {
			g.Names = append(g.Names, fmt.Sprint(i))
		}
		for i, e := range edges {
			if mask&(1<<i) != 0 {
				sel = append(sel, e)
				g.Deps[fmt.Sprint(e[1])] = append(g.Deps[fmt.Sprint(e[1])], fmt.Sprint(e[0]))
			}
		}
		if !IsCyclic(g) {
			out = append(out, sel)
		}
	}
	return out
}

// GraphFromEdges builds a graph over the given names
func GraphFromEdges(names []string, edges [][2]int) Graph {
	g := Graph{Names: append([]string(nil), names...), Deps: map[string][]string{}}
	for _, e := range edges {
		g.Deps[names[e[1]]] = append(g.Deps[names[e[1]]], names[e[0]])
	}
	return g
}

// CopySpec makes a deep copy of a pipeline spec
func CopySpec(s PipeSpec) PipeSpec {
	g := Graph{Names: append([]string(nil), s.Graph.Names...), Deps: map[string][]string{}, Cyclic: s.Graph.Cyclic}
	for k, v := range s.Graph.Deps {
		g.Deps[k] = append([]string(nil), v...)
	}
	return PipeSpec{Name: s.Name, Def: CopyPipeDef(s.Def), Graph: g}
}

func syncGraph(s *PipeSpec) {
	g := Graph{Deps: map[string][]string{}}
	for n := range s.Def.Tasks {
		g.Names = append(g.Names, n)
	}
	sort.Strings(g.Names)
	for n, t := range s.Def.Tasks {
		if len(t.DependsOn) > 0 {
			g.Deps[n] = append([]string(nil), t.DependsOn...)
		}
	}
	g.Cyclic = IsCyclic(g)
	s.Graph = g
}

// MutateSpec applies one random mutation operator to a copy of the spec (used for definition reloads)
func MutateSpec(r *rand.Rand, in PipeSpec) (PipeSpec, string) {
	s := CopySpec(in)
	names := append([]string(nil), s.Graph.Names...)
	sort.Strings(names)
	pick := func() string { return names[r.Intn(len(names))] }
	desc := ""
	switch r.Intn(13) {
	case 0: // add a task depending on an existing one
		n := fmt.Sprintf("added%d", r.Intn(1000))
		td := definition.TaskDef{Script: []string{"echo " + n}}
		if r.Intn(2) == 0 {
			td.DependsOn = []string{pick()}
		}
		s.Def.Tasks[n] = td
		desc = "add task " + n
	case 1: // remove a task (and references to it)
		if len(names) > 1 {
			n := pick()
			delete(s.Def.Tasks, n)
			for k, t := range s.Def.Tasks {
				var d []string
				for _, x := range t.DependsOn {
					if x != n {
						d = append(d, x)
					}
				}
				t.DependsOn = d
				s.Def.Tasks[k] = t
			}
			desc = "remove task " + n
		} else {
			desc = "noop"
		}
	case 2: // rename a task
		n := pick()
		nn := n + "_r"
		t := s.Def.Tasks[n]
		delete(s.Def.Tasks, n)
		s.Def.Tasks[nn] = t
		for k, t := range s.Def.Tasks {
			for i, x := range t.DependsOn {
				if x == n {
					t.DependsOn[i] = nn
				}
			}
			s.Def.Tasks[k] = t
		}
		desc = "rename task " + n
	case 3: // rewire: drop all dependencies of one task / add one
		n := pick()
		t := s.Def.Tasks[n]
		if len(t.DependsOn) > 0 {
			t.DependsOn = nil
			desc = "drop deps of " + n
		} else if len(names) > 1 {
			o := pick()
			if o != n {
				t.DependsOn = []string{o}
			}
			desc = "add dep to " + n
		}
		s.Def.Tasks[n] = t
	case 4: // change a script line
		n := pick()
		t := s.Def.Tasks[n]
		t.Script = []string{fmt.Sprintf("echo changed-%d", r.Intn(100000))}
		s.Def.Tasks[n] = t
		desc = "change script of " + n
	case 5: // task env
		n := pick()
		t := s.Def.Tasks[n]
		t.Env = map[string]string{"TASK_" + n: fmt.Sprint(r.Intn(1000)), "NEWVAR": "x"}
		s.Def.Tasks[n] = t
		desc = "change env of " + n
	case 6: // pipeline env
		s.Def.Env = map[string]string{"PIPE_" + s.Name: fmt.Sprint(r.Intn(1000)), "NEWPIPE": "y"}
		desc = "change pipeline env"
	case 7:
		n := pick()
		t := s.Def.Tasks[n]
		t.AllowFailure = !t.AllowFailure
		s.Def.Tasks[n] = t
		desc = "toggle allow_failure of " + n
	case 8: // delay 0 <-> long
		if s.Def.StartDelay > 0 {
			s.Def.StartDelay = 0
			desc = "remove start_delay"
		} else {
			s.Def.StartDelay = LongDelay
			if s.Def.QueueLimit != nil && *s.Def.QueueLimit == 0 {
				s.Def.QueueLimit = nil
			}
			desc = "introduce start_delay"
		}
	case 9:
		if s.Def.Concurrency > 1 && r.Intn(2) == 0 {
			s.Def.Concurrency--
		} else {
			s.Def.Concurrency++
		}
		desc = fmt.Sprintf("concurrency -> %d", s.Def.Concurrency)
	case 10:
		l := r.Intn(4)
		if l == 0 && s.Def.StartDelay > 0 {
			l = 1
		}
		if r.Intn(4) == 0 {
			s.Def.QueueLimit = nil
			desc = "queue_limit -> nil"
		} else {
			s.Def.QueueLimit = intPtr(l)
			desc = fmt.Sprintf("queue_limit -> %d", l)
		}
	case 11:
		s.Def.QueueStrategy = 1 - s.Def.QueueStrategy
		desc = "toggle queue_strategy"
	default:
		s.Def.RetentionCount = r.Intn(5)
		desc = "retention_count"
	}
	syncGraph(&s)
	if s.Graph.Cyclic && !in.Graph.Cyclic {
		// keep reload mutations acyclic (cycles are C02's subject)
		return CopySpec(in), "noop"
	}
	return s, desc
}

var jsonStrings = []string{"", "plain", "with space", "quote\"q", "back\\slash", "line\nbreak\ttab", "\u0001ctrl\u001f", "äöü€", "𝄞 non-BMP 😀", "\\u0041", "</script>&<>", "null", "1e400", " lead/trail "}

// RandJSON generates an arbitrary JSON value as the HTTP API would deliver it (float64 numbers, strings, bools, nil, arrays, objects)
func RandJSON(r *rand.Rand, depth int) interface{} {
	k := r.Intn(10)
	if depth <= 0 && k >= 8 {
		k = r.Intn(8)
	}
	switch k {
	case 0:
		return nil
	case 1:
		return r.Intn(2) == 0
	case 2: // floats with 1-17 significant digits over many magnitudes
		exps := []float64{1e-9, 1e-7, 1e-3, 1, 1e3, 1e9, 1e15, 1e21}
		f := r.Float64() * exps[r.Intn(len(exps))]
		if r.Intn(2) == 0 {
			f = -f
		}
		if r.Intn(3) == 0 {
			// few significant digits
			digits := []float64{10, 1000, 1e6}[r.Intn(3)]
			f = float64(int64(f*digits)) / digits
		}
		return f
	case 3: // integers as float64 up to 2^53
		vals := []float64{0, 1, -1, 42, 65535, 4294967296, 9007199254740992, -9007199254740992, 1e21}
		return vals[r.Intn(len(vals))]
	case 4:
		return []float64{0.1, 0.2 + 0.1, 1e-9, 0.1234567891, -1.234e-7, 5e-324, 1.7976931348623157e308, 123456.789012345}[r.Intn(8)]
	case 5, 6, 7:
		return jsonStrings[r.Intn(len(jsonStrings))]
	case 8:
		n := r.Intn(4)
		a := make([]interface{}, n)
		for i := range a {
			a[i] = RandJSON(r, depth-1)
		}
		return a
	default:
		n := r.Intn(4)
		m := make(map[string]interface{}, n)
		for i := 0; i < n; i++ {
			m[jsonStrings[r.Intn(len(jsonStrings))]+fmt.Sprint(i)] = RandJSON(r, depth-1)
		}
		return m
	}
}

// RandVars generates job variables
func RandVars(r *rand.Rand) map[string]interface{} {
	if r.Intn(10) == 0 {
		return nil
	}
	n := r.Intn(5)
	m := make(map[string]interface{}, n)
	for i := 0; i < n; i++ {
		m[fmt.Sprintf("v%d%s", i, jsonStrings[r.Intn(len(jsonStrings))])] = RandJSON(r, 3)
	}
	return m
}
