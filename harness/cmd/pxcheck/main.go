// pxcheck: entry point of the runtime-monitoring harness for Flowpack/prunner
//
//	pxcheck run <Cxx> <quick|thorough>            plan, spawn workers, judge, write evidence
//	pxcheck worker <Cxx> <tier> <seed> <shard> <of> <out>   (child mode)
//	pxcheck replay <Cxx> <tier> <seed> <case>     re-run one case in this process and print what the oracles found
package main

import (
	"encoding/json"
	"fmt"
	"os"
	"strconv"

	"pxverif/checks"
)

func seedFromEnv() int64 {
	if s := os.Getenv("VERIF_SEED"); s != "" {
		if v, err := strconv.ParseInt(s, 10, 64); err == nil {
			return v
		}
	}
	return 1
}

func main() {
	if len(os.Args) < 2 {
		fmt.Fprintln(os.Stderr, "usage: pxcheck run|worker|replay|list ...")
		os.Exit(2)
	}
	if code, ok := checks.Aux(os.Args[1:]); ok {
		os.Exit(code)
	}
	switch os.Args[1] {
	case "list":
		for _, id := range checks.IDs() {
			fmt.Println(id)
		}
	case "run":
		if len(os.Args) < 4 {
			fmt.Fprintln(os.Stderr, "usage: pxcheck run <Cxx> <quick|thorough>")
			os.Exit(2)
		}
		os.Exit(checks.RunCheck(os.Args[2], os.Args[3], seedFromEnv()))
	case "worker":
		if len(os.Args) < 8 {
			os.Exit(2)
		}
		seed, _ := strconv.ParseInt(os.Args[4], 10, 64)
		shard, _ := strconv.Atoi(os.Args[5])
		of, _ := strconv.Atoi(os.Args[6])
		os.Exit(checks.RunWorker(os.Args[2], os.Args[3], seed, shard, of, os.Args[7]))
	case "replay":
		if len(os.Args) < 6 {
			fmt.Fprintln(os.Stderr, "usage: pxcheck replay <Cxx> <tier> <seed> <case>")
			os.Exit(2)
		}
		seed, _ := strconv.ParseInt(os.Args[4], 10, 64)
		idx, _ := strconv.Atoi(os.Args[5])
		c := checks.Get(os.Args[2])
		if c == nil || c.RunCase == nil {
			fmt.Fprintln(os.Stderr, "no replayable case machinery for", os.Args[2])
			os.Exit(2)
		}
		tmp, _ := os.MkdirTemp("", "pxreplay-")
		defer os.RemoveAll(tmp)
		res := c.RunCase(&checks.CaseCtx{Prop: c.ID, Idx: idx, Seed: checks.CaseSeed(seed, c.ID, idx), Base: seed, Tier: os.Args[3], TmpDir: tmp})
		b, _ := json.MarshalIndent(res, "", " ")
		fmt.Println(string(b))
		if len(res.Findings) > 0 {
			os.Exit(1)
		}
	default:
		fmt.Fprintln(os.Stderr, "unknown command", os.Args[1])
		os.Exit(2)
	}
}
