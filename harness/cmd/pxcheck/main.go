package main

import (
	"fmt"

	_ "github.com/Flowpack/prunner"
	_ "github.com/anishathalye/porcupine"
)

func main() { fmt.Println("ok") }
