// Package model is the executable reference model of job admission, queueing and of the task-level execution of one
// job. It is the property text (C01-C08, C15, C16) made executable; it is never explored on its own, only run next to
// the real code as an oracle.
package model

import (
	"fmt"
	"sort"
)

// PipeCfg is the part of a pipeline definition that governs admission
type PipeCfg struct {
	Defined     bool
	Concurrency int
	QueueLimit  *int
	Replace     bool
	Delay       bool // start_delay > 0
	FailFast    bool // !continue_running_tasks_after_failure
}

type JobState int

const (
	JWaiting JobState = iota
	JRunning
	JFinished // completed (success, failure or canceled while running)
	JCanceled // canceled without ever starting (canceled while waiting, replaced, or failed to start)
)

func (s JobState) String() string {
	return [...]string{"waiting", "running", "finished", "canceled"}[s]
}

// Job is the model's record of an accepted job
type Job struct {
	ID           string
	Pipe         string
	State        JobState
	TimerPending bool // start delay armed and not yet expired
	HadDelay     bool
	Unstartable  bool // graph cannot be built (reserved variable / cyclic): becomes canceled-with-error when it would start
	StartErr     bool // became canceled because it could not be started
	Replaced     bool
	Seq          int // acceptance order
	StartSeq     int // start order (0 = never)
	Sim          *JobSim
	CancelAsked  bool // a cancel was acknowledged while running
}

// Result classes of a schedule request
const (
	ResStarted   = "started"
	ResQueued    = "queued"
	ResReplaced  = "replaced"
	ResNoQueue   = "no-queue"
	ResQueueFull = "queue-full"
	ResUndefined = "undefined"
	ResShutdown  = "shutting-down"
)

// Model is the state of all pipelines
type Model struct {
	Cfg      map[string]PipeCfg
	Jobs     map[string]*Job
	Running  map[string][]string // per pipeline, in start order
	Waiting  map[string][]string // per pipeline, in queue order
	seq      int
	startSeq int
	// Started is filled by operations with the ids of jobs started during the operation (in order)
	Started []string
	// Shutdown: no request is accepted
	ShuttingDown bool
}

func New(cfg map[string]PipeCfg) *Model {
	m := &Model{Jobs: map[string]*Job{}, Running: map[string][]string{}, Waiting: map[string][]string{}}
	m.SetCfg(cfg)
	return m
}

// SetCfg replaces all definitions (reload)
func (m *Model) SetCfg(cfg map[string]PipeCfg) {
	m.Cfg = map[string]PipeCfg{}
	for k, v := range cfg {
		m.Cfg[k] = v
	}
}

func (m *Model) cfg(p string) PipeCfg {
	c, ok := m.Cfg[p]
	if !ok {
		return PipeCfg{}
	}
	c.Defined = true
	return c
}

// Decide predicts the result of a schedule request for pipeline p without changing the state
func (m *Model) Decide(p string) string {
	if m.ShuttingDown {
		return ResShutdown
	}
	c := m.cfg(p)
	if !c.Defined {
		return ResUndefined
	}
	if len(m.Running[p]) < c.Concurrency && !c.Delay {
		return ResStarted
	}
	if c.QueueLimit != nil && *c.QueueLimit == 0 {
		return ResNoQueue
	}
	if c.Replace && len(m.Waiting[p]) > 0 {
		return ResReplaced
	}
	if c.QueueLimit != nil && len(m.Waiting[p]) >= *c.QueueLimit {
		return ResQueueFull
	}
	return ResQueued
}

// Accepted tells whether a result class means the request was accepted
func Accepted(res string) bool {
	return res == ResStarted || res == ResQueued || res == ResReplaced
}

// Schedule applies an accepted schedule request (the id is the one the real system assigned). It returns the predicted
// result class and the id of the replaced job (if any).
func (m *Model) Schedule(p, id string, unstartable bool, sim *JobSim) (string, string) {
	m.Started = nil
	res := m.Decide(p)
	if !Accepted(res) {
		return res, ""
	}
	c := m.cfg(p)
	m.seq++
	j := &Job{ID: id, Pipe: p, Seq: m.seq, Unstartable: unstartable, HadDelay: c.Delay, TimerPending: c.Delay, Sim: sim}
	m.Jobs[id] = j
	victim := ""
	switch res {
	case ResStarted:
		m.start(j)
	case ResQueued:
		j.State = JWaiting
		m.Waiting[p] = append(m.Waiting[p], id)
	case ResReplaced:
		w := m.Waiting[p]
		victim = w[len(w)-1]
		vj := m.Jobs[victim]
		vj.State = JCanceled
		vj.Replaced = true
		vj.TimerPending = false
		j.State = JWaiting
		w[len(w)-1] = id
	}
	return res, victim
}

// start starts the job or turns it into canceled-with-error if it cannot be started; then applies the dequeue rule
func (m *Model) start(j *Job) {
	if j.Unstartable {
		j.State = JCanceled
		j.StartErr = true
		m.dequeue(j.Pipe)
		return
	}
	j.State = JRunning
	m.startSeq++
	j.StartSeq = m.startSeq
	m.Running[j.Pipe] = append(m.Running[j.Pipe], j.ID)
	m.Started = append(m.Started, j.ID)
	if j.Sim != nil {
		j.Sim.Start()
	}
}

func (m *Model) dequeue(p string) {
	c := m.cfg(p)
	for len(m.Running[p]) < c.Concurrency && len(m.Waiting[p]) > 0 {
		head := m.Jobs[m.Waiting[p][0]]
		if head.TimerPending {
			break
		}
		m.Waiting[p] = m.Waiting[p][1:]
		m.start(head)
	}
}

func remove(list []string, id string) []string {
	out := list[:0:0]
	for _, x := range list {
		if x != id {
			out = append(out, x)
		}
	}
	return out
}

// Complete: the running job has finished (all its tasks stopped and it is reported completed)
func (m *Model) Complete(id string) {
	m.Started = nil
	j := m.Jobs[id]
	if j == nil || j.State != JRunning {
		return
	}
	j.State = JFinished
	m.Running[j.Pipe] = remove(m.Running[j.Pipe], id)
	m.dequeue(j.Pipe)
}

// Cancel predicts the result class of a cancel request and applies it. For a running job the job stays running in the
// model until Complete is called (the driver calls it when the job's simulation says that it ended).
func (m *Model) Cancel(id string) string { return m.CancelSlow(id, nil) }

// CancelSlow is Cancel with a set of tasks that are slow to stop (they keep running until the driver releases them)
func (m *Model) CancelSlow(id string, slow map[string]bool) string {
	m.Started = nil
	j := m.Jobs[id]
	if j == nil {
		return "not-found"
	}
	switch j.State {
	case JCanceled:
		return "ok"
	case JFinished:
		if j.Sim != nil && j.Sim.ReportedCanceled() {
			return "ok" // canceling an already canceled job is a no-op without error
		}
		return "already-completed"
	case JWaiting:
		j.State = JCanceled
		j.TimerPending = false
		m.Waiting[j.Pipe] = remove(m.Waiting[j.Pipe], id)
		m.dequeue(j.Pipe)
		return "ok"
	case JRunning:
		j.CancelAsked = true
		if j.Sim != nil {
			j.Sim.CancelSlow(slow)
		}
		return "ok"
	}
	return "?"
}

// FireDelay: the start delay handler of the job runs (timer expiry, possibly spurious or late). It is a no-op for a
// canceled job; otherwise the job's delay counts as expired and the wait list of its pipeline is processed.
func (m *Model) FireDelay(id string) {
	m.Started = nil
	j := m.Jobs[id]
	if j == nil || j.State == JCanceled {
		return
	}
	if j.State == JFinished && j.Sim != nil && j.Sim.Verdict().Canceled != No {
		return
	}
	if j.State == JWaiting {
		j.TimerPending = false
	}
	m.dequeue(j.Pipe)
}

// Shutdown: all waiting jobs are canceled, nothing is accepted any more
func (m *Model) Shutdown() {
	m.ShuttingDown = true
	for p, w := range m.Waiting {
		for _, id := range w {
			m.Jobs[id].State = JCanceled
			m.Jobs[id].TimerPending = false
		}
		m.Waiting[p] = nil
	}
}

// Schedulable predicts ListPipelines.Schedulable
func (m *Model) Schedulable(p string) bool { return Accepted(m.Decide(p)) }

// IsRunning predicts ListPipelines.Running
func (m *Model) IsRunning(p string) bool { return len(m.Running[p]) > 0 }

// WaitingIDs returns the waiting job ids of a pipeline in queue order
func (m *Model) WaitingIDs(p string) []string { return append([]string(nil), m.Waiting[p]...) }

// RunningIDs returns the running job ids of a pipeline, sorted
func (m *Model) RunningIDs(p string) []string {
	out := append([]string(nil), m.Running[p]...)
	sort.Strings(out)
	return out
}

// String renders the admission state for reports
func (m *Model) String() string {
	ps := make([]string, 0, len(m.Cfg))
	for p := range m.Cfg {
		ps = append(ps, p)
	}
	sort.Strings(ps)
	s := ""
	for _, p := range ps {
		s += fmt.Sprintf("[%s R=%v W=%v]", p, m.Running[p], m.Waiting[p])
	}
	return s
}
