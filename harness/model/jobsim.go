package model

import "sort"

// TaskState in the task-level simulation of one job
type TaskState int

const (
	TWaiting       TaskState = iota // not launched yet
	TRunning                        // launched, inside the runner (blocked at its gate)
	TStopping                       // told to stop, has not returned yet (slow to stop)
	TDone                           // ran to success
	TFailedAllowed                  // failed with an exit status, allow_failure
	TErrAllowed                     // failed with a non-exit error, allow_failure (stage ends done, task is errored)
	TFailed                         // failed, not allowed
	TCanceled                       // was running and was stopped by a cancel
	TBlocked                        // never runs: a dependency failed / was canceled / is blocked
)

func (s TaskState) String() string {
	return [...]string{"waiting", "running", "stopping", "done", "failed-allowed", "err-allowed", "failed", "canceled", "blocked"}[s]
}

// SimTask is one task of the simulated job
type SimTask struct {
	Name         string
	Deps         []string
	AllowFailure bool
	State        TaskState
	Launched     bool
}

// Outcome kinds (mirror core.OutcomeKind without importing it)
const (
	OK       = 0
	ExitFail = 1
	ErrFail  = 2
)

// JobSim predicts which tasks of a job run and when the job ends, given the driver's choices
type JobSim struct {
	Tasks    map[string]*SimTask
	Names    []string
	FailFast bool
	started  bool
	canceled bool // no further launches (user cancel or fail-fast)
	userCanc bool
	// Ambiguous is set when the outcome depends on a race the sequential driver does not control
	Ambiguous bool
}

func NewJobSim(tasks []SimTask, failFast bool) *JobSim {
	s := &JobSim{Tasks: map[string]*SimTask{}, FailFast: failFast}
	for i := range tasks {
		t := tasks[i]
		t.State = TWaiting
		s.Tasks[t.Name] = &t
		s.Names = append(s.Names, t.Name)
	}
	sort.Strings(s.Names)
	return s
}

// Start launches the root tasks
func (s *JobSim) Start() {
	s.started = true
	s.relaunch()
}

func final(st TaskState) bool {
	return st != TWaiting && st != TRunning && st != TStopping
}

func (s *JobSim) relaunch() {
	changed := true
	for changed {
		changed = false
		for _, n := range s.Names {
			t := s.Tasks[n]
			if t.State != TWaiting {
				continue
			}
			ready := true
			blocked := false
			for _, d := range t.Deps {
				switch s.Tasks[d].State {
				case TDone, TFailedAllowed, TErrAllowed:
				case TFailed, TBlocked:
					blocked = true
				case TCanceled:
					// a canceled task is an error for the scheduler also if it allows failure
					blocked = true
				default:
					ready = false
				}
			}
			if blocked {
				t.State = TBlocked
				changed = true
				continue
			}
			if ready && !s.canceled {
				t.State = TRunning
				t.Launched = true
				changed = true
			}
		}
	}
}

// Finish applies the driver's outcome to a running task
func (s *JobSim) Finish(name string, kind int) {
	t := s.Tasks[name]
	if t == nil || t.State != TRunning {
		return
	}
	switch kind {
	case OK:
		t.State = TDone
	case ExitFail:
		if t.AllowFailure {
			t.State = TFailedAllowed
		} else {
			t.State = TFailed
			if s.FailFast {
				s.cancelRunning(nil)
			}
		}
	case ErrFail:
		if t.AllowFailure {
			// failed while marked allow_failure (the task is reported errored, its stage ends "done"): this neither fails
			// the job nor stops its other tasks, whatever the fail-fast setting (D18)
			t.State = TErrAllowed
		} else {
			t.State = TFailed
			if s.FailFast {
				s.cancelRunning(nil)
			}
		}
	}
	s.relaunch()
}

func (s *JobSim) cancelRunning(slow map[string]bool) {
	s.canceled = true
	for _, n := range s.Names {
		t := s.Tasks[n]
		if t.State == TRunning {
			if slow[n] {
				t.State = TStopping
			} else {
				t.State = TCanceled
			}
		}
	}
}

// Cancel: an acknowledged cancel of the running job; slow tasks keep running until StopRelease
func (s *JobSim) Cancel() { s.CancelSlow(nil) }

func (s *JobSim) CancelSlow(slow map[string]bool) {
	if s.Ended() {
		return
	}
	s.userCanc = true
	s.cancelRunning(slow)
	s.relaunch()
}

// StopRelease: a slow task finally stops
func (s *JobSim) StopRelease(name string) {
	t := s.Tasks[name]
	if t != nil && t.State == TStopping {
		t.State = TCanceled
	}
	s.relaunch()
}

// Ended: no task is inside the runner and none will be launched
func (s *JobSim) Ended() bool {
	if !s.started {
		return false
	}
	for _, t := range s.Tasks {
		switch t.State {
		case TRunning, TStopping:
			return false
		case TWaiting:
			if !s.canceled {
				return false
			}
		}
	}
	return true
}

// RunningTasks returns the tasks expected to be inside the runner (blocked at their gate), sorted
func (s *JobSim) RunningTasks() []string {
	var out []string
	for _, n := range s.Names {
		if s.Tasks[n].State == TRunning {
			out = append(out, n)
		}
	}
	return out
}

// StoppingTasks returns the tasks that were told to stop and have not returned
func (s *JobSim) StoppingTasks() []string {
	var out []string
	for _, n := range s.Names {
		if s.Tasks[n].State == TStopping {
			out = append(out, n)
		}
	}
	return out
}

// LaunchedTasks returns all tasks that were ever launched, sorted
func (s *JobSim) LaunchedTasks() []string {
	var out []string
	for _, n := range s.Names {
		if s.Tasks[n].Launched {
			out = append(out, n)
		}
	}
	return out
}

// Tri is a three-valued prediction
type Tri int

const (
	No Tri = iota
	Yes
	Either
)

// Verdict is the predicted terminal report of a started job
type Verdict struct {
	Canceled   Tri
	HasError   Tri
	PlainOK    bool // predicted: completed, not canceled, no error
	AllRanOK   bool // every task ran to success or failed with allow_failure
	TaskStatus map[string][]string
}

// ReportedCanceled: true if the ended job is predicted to be reported canceled
func (s *JobSim) ReportedCanceled() bool {
	return s.Ended() && s.Verdict().Canceled == Yes
}

// Verdict predicts the terminal report (only meaningful once Ended)
func (s *JobSim) Verdict() Verdict {
	v := Verdict{TaskStatus: map[string][]string{}}
	anyCanceledTask := false
	anyCanceledErr := false // a canceled task whose error is returned by the scheduler
	anyFailed := false
	anyUnlaunched := false
	allOK := true
	for _, n := range s.Names {
		t := s.Tasks[n]
		switch t.State {
		case TDone:
			v.TaskStatus[n] = []string{"done"}
		case TFailedAllowed:
			v.TaskStatus[n] = []string{"done"}
		case TErrAllowed:
			// failed (with a non-exit error) while marked allow_failure: does not fail the job
			v.TaskStatus[n] = []string{"done"}
		case TFailed:
			anyFailed = true
			allOK = false
			v.TaskStatus[n] = []string{"error"}
		case TCanceled:
			anyCanceledTask = true
			allOK = false
			anyCanceledErr = true // the scheduler returns the error of a canceled task also if the task allows failure
			v.TaskStatus[n] = []string{"canceled"}
		case TBlocked:
			allOK = false
			v.TaskStatus[n] = []string{"waiting", "canceled"}
			if s.canceled {
				// a pass of the scheduler loop that is in flight while the job is being canceled may still hand a dependent
				// of a canceled allow_failure task to the runner, which refuses it: reported "error", never run
				v.TaskStatus[n] = []string{"waiting", "canceled", "error"}
			}
		case TWaiting:
			anyUnlaunched = true
			allOK = false
			v.TaskStatus[n] = []string{"waiting", "canceled", "error"}
		default:
			allOK = false
		}
	}
	v.AllRanOK = allOK
	errNonNil := anyFailed || anyCanceledErr
	switch {
	case anyCanceledTask:
		v.Canceled = Yes
	case !errNonNil && (anyUnlaunched):
		v.Canceled = Yes
	default:
		v.Canceled = No
	}
	if s.Ambiguous {
		v.Canceled = Either
	}
	if errNonNil {
		v.HasError = Yes
	} else {
		v.HasError = No
	}
	if s.Ambiguous {
		v.HasError = Either
	}
	v.PlainOK = v.Canceled == No && v.HasError == No
	return v
}
