// Package report writes evidence files, replay files, VIOLATION / KNOWN-FINDING lines and matches known findings.
package report

import (
	"encoding/json"
	"fmt"
	"os"
	"path/filepath"
	"sort"
	"strings"
)

// VerifDir returns /verif (or $VERIF_DIR)
func VerifDir() string {
	if d := os.Getenv("VERIF_DIR"); d != "" {
		return d
	}
	return "/verif"
}

// OutDir is where evidence and replay files are written: $VERIF_OUT_DIR if set (used by the self test, which runs the
// checks on a patched tree and must not touch the committed evidence), else VerifDir()
func OutDir() string {
	if d := os.Getenv("VERIF_OUT_DIR"); d != "" {
		return d
	}
	return VerifDir()
}

// Coverage is the coverage section of an evidence file
type Coverage struct {
	Evaluations        int            `json:"evaluations"`
	DistinctNontrivial int            `json:"distinct_nontrivial"`
	Rule               string         `json:"rule"`
	Samples            []any          `json:"samples"`
	Exhaustive         bool           `json:"exhaustive,omitempty"`
	Cases              int            `json:"cases"`
	EventsObserved     int            `json:"events_observed,omitempty"`
	Extra              map[string]any `json:"extra,omitempty"`
	Inconclusive       []string       `json:"inconclusive,omitempty"`
	KnownFindings      []string       `json:"known_findings_seen,omitempty"`
	ViolationSigs      []string       `json:"violation_signatures,omitempty"`
}

// Evidence is the evidence file
type Evidence struct {
	PropertyID  string   `json:"property_id"`
	Tier        string   `json:"tier"`
	Seed        int64    `json:"seed"`
	Level       string   `json:"level"`
	Coverage    Coverage `json:"coverage"`
	Assumptions []string `json:"assumptions"`
	WallS       float64  `json:"wall_s"`
	Violations  int      `json:"violations"`
}

// WriteEvidence writes /verif/evidence/<id>.json
func WriteEvidence(e Evidence) error {
	dir := filepath.Join(OutDir(), "evidence")
	if err := os.MkdirAll(dir, 0o755); err != nil {
		return err
	}
	if e.Coverage.Samples == nil {
		e.Coverage.Samples = []any{}
	}
	if e.Assumptions == nil {
		e.Assumptions = []string{}
	}
	b, err := json.MarshalIndent(e, "", " ")
	if err != nil {
		return err
	}
	tmp := filepath.Join(dir, e.PropertyID+".json.tmp")
	if err := os.WriteFile(tmp, b, 0o644); err != nil {
		return err
	}
	return os.Rename(tmp, filepath.Join(dir, e.PropertyID+".json"))
}

// KnownFinding is one entry of known_findings.json
type KnownFinding struct {
	Property  string `json:"property"`
	Status    string `json:"status"` // known | fixed
	Commit    string `json:"commit,omitempty"`
	Signature string `json:"signature"`
	What      string `json:"what"`
}

// LoadKnown reads known_findings.json (read-only at run time)
func LoadKnown() []KnownFinding {
	b, err := os.ReadFile(filepath.Join(VerifDir(), "known_findings.json"))
	if err != nil {
		return nil
	}
	var f struct {
		Findings []KnownFinding `json:"findings"`
	}
	if json.Unmarshal(b, &f) != nil {
		return nil
	}
	return f.Findings
}

// MatchKnown returns the known (not fixed) finding that lists this signature for this property
func MatchKnown(known []KnownFinding, prop, sig string) *KnownFinding {
	for i := range known {
		k := &known[i]
		if k.Status == "known" && k.Property == prop && k.Signature == sig {
			return k
		}
	}
	return nil
}

// WriteReplay writes a replay file and returns its path
func WriteReplay(prop string, name string, content any) string {
	dir := filepath.Join(OutDir(), "replays")
	_ = os.MkdirAll(dir, 0o755)
	name = strings.Map(func(r rune) rune {
		if r == '/' || r == ' ' || r == ':' {
			return '_'
		}
		return r
	}, name)
	p := filepath.Join(dir, prop+"-"+name+".json")
	b, _ := json.MarshalIndent(content, "", " ")
	_ = os.WriteFile(p, b, 0o644)
	return p
}

// SortedKeys returns the sorted keys of a set
func SortedKeys(m map[string]struct{}) []string {
	out := make([]string, 0, len(m))
	for k := range m {
		out = append(out, k)
	}
	sort.Strings(out)
	return out
}

// PrintViolation prints the line the harness looks for
func PrintViolation(prop, replay string) {
	fmt.Printf("VIOLATION property=%s replay=%s\n", prop, replay)
}

// PrintKnown prints a known finding line
func PrintKnown(prop, what string) {
	fmt.Printf("KNOWN-FINDING: property=%s %s\n", prop, what)
}
