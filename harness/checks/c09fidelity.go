package checks

import (
	"bytes"
	"encoding/json"
	"fmt"
	"math/rand"
	"os"
	"path/filepath"
	"sync"

	"github.com/Flowpack/prunner/store"

	"pxverif/drv"
)

// saveFidelity: "a save that has returned successfully is what the next load returns", for SEQUENCES of saves on one
// store instance whose consecutive snapshots differ by small edits - in particular edits that keep the encoded length
// (status waiting->running, one digit, two jobs swapped), identical repeats and returns to an earlier content. After
// every acknowledged save a fresh store instance and an independent decoder must return exactly the snapshot handed in.
func saveFidelity(root string, seed int64, tier string) (res *CaseResult) {
	res = &CaseResult{}
	defer func() {
		if p := recover(); p != nil {
			res.Findings = append(res.Findings, drv.Finding{Props: []string{"C09"}, Sig: "C09:store-panicked", Detail: fmt.Sprintf("Save / Load panicked in a sequence of saves: %v", p), Step: -1})
		}
	}()
	n := 60
	seqs := 8
	if tier == "thorough" {
		seqs = 150
	}
	canon := func(d *store.PersistedData) []byte {
		if d == nil {
			return []byte("nil")
		}
		if len(d.Jobs) == 0 {
			return []byte(`{"Jobs":[]}`) // nil and empty job lists are the same snapshot
		}
		b, _ := json.Marshal(d)
		return b
	}
	clone := func(d *store.PersistedData) *store.PersistedData {
		var c store.PersistedData
		_ = json.Unmarshal(canon(d), &c)
		return &c
	}
	ops := []string{"identical", "status-same-length", "digit", "swap-jobs", "rename-same-length", "flip-bool", "add-job", "drop-job", "back-to-earlier", "exitcode", "drop-all", "reopen-store", "reopen-store-then-empty"}
	for sq := 0; sq < seqs; sq++ {
		r := rand.New(rand.NewSource(seed*31 + int64(sq)))
		dir := filepath.Join(root, fmt.Sprintf("fidelity-%d", sq))
		st, err := store.NewJSONDataStore(dir)
		if err != nil {
			res.Inconclusive = err.Error()
			return res
		}
		cur := clone(genSnapshot(seed+int64(sq), 11+sq%3, 6)) // clone: plain JSON values, no NaN generation among 11..13
		for i := range cur.Jobs {
			cur.Jobs[i].Variables["n"] = float64(1 + r.Intn(8))
			cur.Jobs[i].Tasks[0].Status = "waiting"
		}
		var history []*store.PersistedData
		prevLen := -1
		for step := 0; step < n; step++ {
			op := ops[r.Intn(len(ops))]
			if step == 0 {
				op = "first"
			}
			next := clone(cur)
			pick := func() *store.PersistedJob {
				if len(next.Jobs) == 0 {
					return nil
				}
				return &next.Jobs[r.Intn(len(next.Jobs))]
			}
			switch op {
			case "status-same-length":
				if j := pick(); j != nil {
					if j.Tasks[0].Status == "waiting" {
						j.Tasks[0].Status = "running"
					} else {
						j.Tasks[0].Status = "waiting"
					}
				}
			case "digit":
				if j := pick(); j != nil {
					cur, _ := j.Variables["n"].(float64)
					j.Variables["n"] = float64(1 + int(cur)%8)
				}
			case "swap-jobs":
				if len(next.Jobs) >= 2 {
					a, b := r.Intn(len(next.Jobs)), r.Intn(len(next.Jobs))
					next.Jobs[a], next.Jobs[b] = next.Jobs[b], next.Jobs[a]
				}
			case "rename-same-length":
				if j := pick(); j != nil && len(j.Pipeline) > 0 {
					b := []byte(j.Pipeline)
					b[0] = "ghij"[r.Intn(4)]
					j.Pipeline = string(b)
				}
			case "flip-bool":
				if j := pick(); j != nil {
					j.Canceled = !j.Canceled
				}
			case "add-job":
				extra := clone(genSnapshot(seed+int64(step), 12, 3))
				if len(extra.Jobs) > 0 {
					next.Jobs = append(next.Jobs, extra.Jobs[0])
				}
			case "drop-job":
				if len(next.Jobs) > 0 {
					k := r.Intn(len(next.Jobs))
					next.Jobs = append(next.Jobs[:k], next.Jobs[k+1:]...)
				}
			case "back-to-earlier":
				if len(history) > 1 {
					next = clone(history[r.Intn(len(history))])
				}
			case "drop-all":
				next.Jobs = []store.PersistedJob{}
			case "reopen-store", "reopen-store-then-empty":
				// a restart: a new store instance on the same directory continues the sequence
				ns, err := store.NewJSONDataStore(dir)
				if err != nil {
					res.Inconclusive = err.Error()
					return res
				}
				st = ns
				if op == "reopen-store-then-empty" {
					next.Jobs = []store.PersistedJob{}
				}
			case "exitcode":
				if j := pick(); j != nil {
					j.Tasks[1].ExitCode = int16(10 + r.Intn(89)) // two digits: same length
				}
			}
			want := canon(next)
			if err := st.Save(next); err != nil {
				res.Findings = append(res.Findings, drv.Finding{Props: []string{"C09"}, Sig: "C09:save-of-encodable-snapshot-failed", Detail: fmt.Sprintf("sequence %d step %d (%s): %v", sq, step, op, err), Step: step})
				break
			}
			res.Evaluations++
			sameLen := len(want) == prevLen
			res.Situations = append(res.Situations, fmt.Sprintf("fidelity %s sameEncodedLengthAsPrevious=%v", op, sameLen))
			prevLen = len(want)
			// fresh instance + independent decode of the raw file
			st2, oerr := store.NewJSONDataStore(dir)
			var got *store.PersistedData
			lerr := oerr
			if oerr == nil && st2 != nil {
				got, lerr = st2.Load()
			}
			raw, rerr := os.ReadFile(filepath.Join(dir, "data.json"))
			var ind store.PersistedData
			var ierr error
			if rerr == nil {
				ierr = json.Unmarshal(raw, &ind)
			}
			switch {
			case lerr != nil || rerr != nil || ierr != nil:
				res.Findings = append(res.Findings, drv.Finding{Props: []string{"C09"}, Sig: "C09:data-file-not-loadable", Detail: fmt.Sprintf("sequence %d step %d (%s): load %v read %v decode %v", sq, step, op, lerr, rerr, ierr), Step: step})
			case !bytes.Equal(canon(got), want) || !bytes.Equal(canon(&ind), want):
				which := "an unrelated snapshot"
				for h := len(history) - 1; h >= 0; h-- {
					if bytes.Equal(canon(got), canon(history[h])) {
						which = fmt.Sprintf("the snapshot of step %d", h)
						break
					}
				}
				res.Findings = append(res.Findings, drv.Finding{Props: []string{"C09"}, Sig: "C09:load-after-save-returns-another-snapshot", Detail: fmt.Sprintf("sequence %d step %d: Save returned nil for a snapshot that differs from the previous one by %q (encoded length %d, previous %v equal), but the next load returns %s", sq, step, op, len(want), sameLen, which), Step: step})
			}
			history = append(history, next)
			cur = next
			if len(res.Findings) > 5 {
				break
			}
		}
		_ = os.RemoveAll(dir)
		if len(res.Findings) > 5 {
			break
		}
	}
	return res
}

// multiStore: several store instances in ONE process (several embedded runners), each on its own directory, saving and
// loading at the same time. Every file must hold exactly the last snapshot that ITS store acknowledged: snapshots are
// self-describing (store index, generation, job count), so foreign or mixed content is recognisable.
func multiStore(root string, seed int64, tier string) (res *CaseResult) {
	res = &CaseResult{}
	defer func() {
		if p := recover(); p != nil {
			res.Findings = append(res.Findings, drv.Finding{Props: []string{"C09"}, Sig: "C09:store-panicked", Detail: fmt.Sprintf("Save / Load panicked with several stores in one process: %v", p), Step: -1})
		}
	}()
	nStores, gens := 8, 60
	if tier == "thorough" {
		gens = 1200
	}
	var mu sync.Mutex
	var wg sync.WaitGroup
	for si := 0; si < nStores; si++ {
		wg.Add(1)
		go func(si int) {
			defer wg.Done()
			dir := filepath.Join(root, fmt.Sprintf("multi-%d", si))
			st, err := store.NewJSONDataStore(dir)
			if err != nil {
				return
			}
			r := rand.New(rand.NewSource(seed*131 + int64(si)))
			for g := 1; g <= gens; g++ {
				n := 1 + r.Intn(40)
				d := genSnapshot(seed+int64(si), 10+g%3, n) // (generations 10..12 carry no unencodable value)
				for i := range d.Jobs {
					d.Jobs[i].Pipeline = fmt.Sprintf("store-%d-gen-%d-of-%d", si, g, len(d.Jobs))
				}
				if err := st.Save(d); err != nil {
					mu.Lock()
					res.Findings = append(res.Findings, drv.Finding{Props: []string{"C09"}, Sig: "C09:save-of-encodable-snapshot-failed", Detail: fmt.Sprintf("store %d generation %d: %v", si, g, err), Step: g})
					mu.Unlock()
					return
				}
				got, lerr := st.Load()
				mu.Lock()
				res.Evaluations++
				bad := ""
				switch {
				case lerr != nil:
					bad = "does not load: " + lerr.Error()
				case len(got.Jobs) != len(d.Jobs):
					bad = fmt.Sprintf("holds %d jobs, the acknowledged snapshot had %d", len(got.Jobs), len(d.Jobs))
				default:
					for i := range got.Jobs {
						if got.Jobs[i].Pipeline != d.Jobs[i].Pipeline {
							bad = fmt.Sprintf("job %d is %q, the acknowledged snapshot says %q", i, got.Jobs[i].Pipeline, d.Jobs[i].Pipeline)
							break
						}
					}
				}
				if bad != "" && len(res.Findings) < 10 {
					res.Findings = append(res.Findings, drv.Finding{Props: []string{"C09"}, Sig: "C09:load-after-save-returns-another-snapshot", Detail: fmt.Sprintf("%d stores save concurrently in one process, each in its own directory: after store %d acknowledged generation %d its file %s", nStores, si, g, bad), Step: g})
				}
				mu.Unlock()
				if bad != "" {
					return
				}
			}
		}(si)
	}
	wg.Wait()
	res.Situations = []string{fmt.Sprintf("%d stores in one process saving concurrently", nStores)}
	for si := 0; si < nStores; si++ {
		_ = os.RemoveAll(filepath.Join(root, fmt.Sprintf("multi-%d", si)))
	}
	return res
}
