package checks

import (
	"bytes"
	"context"
	"crypto/hmac"
	"crypto/sha256"
	"crypto/sha512"
	"encoding/base64"
	"encoding/json"
	"fmt"
	"hash"
	"io"
	"math/rand"
	"net/http"
	"net/http/httptest"
	"net/url"
	"os"
	"reflect"
	"sort"
	"strings"
	"sync"
	"time"

	"github.com/go-chi/chi/v5"
	"github.com/go-chi/jwtauth/v5"

	"github.com/Flowpack/prunner/definition"
	"github.com/Flowpack/prunner/server"

	"pxverif/core"
	"pxverif/drv"
	"pxverif/gen"
)

func b64(b []byte) string { return base64.RawURLEncoding.EncodeToString(b) }

func signToken(alg string, secret []byte, header map[string]any, claims map[string]any) string {
	hb, _ := json.Marshal(header)
	cb, _ := json.Marshal(claims)
	msg := b64(hb) + "." + b64(cb)
	var h func() hash.Hash
	switch alg {
	case "HS256":
		h = sha256.New
	case "HS384":
		h = sha512.New384
	case "HS512":
		h = sha512.New
	default:
		return msg + "."
	}
	m := hmac.New(h, secret)
	m.Write([]byte(msg))
	return msg + "." + b64(m.Sum(nil))
}

type credClass struct {
	name   string
	token  string // raw token ("" = none)
	raw    string // complete Authorization header value (overrides token for the header transport)
	judged bool   // invalid under every reading of the statement
}

func credentialClasses(secret string, r *rand.Rand) []credClass {
	now := time.Now()
	good := map[string]any{"sub": "attacker", "iat": now.Add(-time.Minute).Unix()}
	hs := map[string]any{"alg": "HS256", "typ": "JWT"}
	valid := signToken("HS256", []byte(secret), hs, good)
	parts := strings.Split(valid, ".")
	flip := []byte(parts[2])
	if flip[3] == 'A' {
		flip[3] = 'B'
	} else {
		flip[3] = 'A'
	}
	modPayload, _ := json.Marshal(map[string]any{"sub": "admin", "iat": now.Add(-time.Minute).Unix()})
	other := signToken("HS256", []byte("another-secret-of-sufficient-length"), hs, good)
	cls := []credClass{
		{name: "none", judged: true},
		{name: "empty-bearer", raw: "Bearer ", judged: true},
		{name: "garbage", token: "not-a-token-" + fmt.Sprint(r.Intn(1e6)), judged: true},
		{name: "two-segments", token: parts[0] + "." + parts[1], judged: true},
		{name: "four-segments", token: valid + ".AAAA", judged: true},
		{name: "signed-with-other-secret", token: other, judged: true},
		{name: "signature-truncated", token: parts[0] + "." + parts[1] + "." + parts[2][:len(parts[2])-4], judged: true},
		{name: "signature-bit-flipped", token: parts[0] + "." + parts[1] + "." + string(flip), judged: true},
		{name: "payload-modified-after-signing", token: parts[0] + "." + b64(modPayload) + "." + parts[2], judged: true},
		{name: "alg-none-empty-signature", token: signToken("none", nil, map[string]any{"alg": "none", "typ": "JWT"}, good), judged: true},
		{name: "alg-none-copied-signature", token: strings.TrimSuffix(signToken("none", nil, map[string]any{"alg": "none", "typ": "JWT"}, good), ".") + "." + parts[2], judged: true},
		{name: "alg-None-mixed-case", token: signToken("none", nil, map[string]any{"alg": "None", "typ": "JWT"}, good), judged: true},
		{name: "hs384-right-secret", token: signToken("HS384", []byte(secret), map[string]any{"alg": "HS384", "typ": "JWT"}, good), judged: true},
		{name: "hs512-right-secret", token: signToken("HS512", []byte(secret), map[string]any{"alg": "HS512", "typ": "JWT"}, good), judged: true},
		{name: "rs256-header-foreign-signature", token: strings.Join([]string{b64([]byte(`{"alg":"RS256","typ":"JWT"}`)), parts[1], strings.Split(other, ".")[2]}, "."), judged: true},
		{name: "es256-header-foreign-signature", token: strings.Join([]string{b64([]byte(`{"alg":"ES256","typ":"JWT"}`)), parts[1], strings.Split(other, ".")[2]}, "."), judged: true},
		{name: "expired-1h", token: signToken("HS256", []byte(secret), hs, map[string]any{"sub": "x", "exp": now.Add(-time.Hour).Unix()}), judged: true},
		{name: "expired-with-iat", token: signToken("HS256", []byte(secret), hs, map[string]any{"sub": "x", "iat": now.Add(-2 * time.Hour).Unix(), "exp": now.Add(-time.Hour).Unix()}), judged: true},
		// expired only a moment ago: expired is expired, there is no grace period
		{name: "expired-3s", token: signToken("HS256", []byte(secret), hs, map[string]any{"sub": "x", "exp": now.Add(-3 * time.Second).Unix()}), judged: true},
		{name: "expired-25s-with-iat", token: signToken("HS256", []byte(secret), hs, map[string]any{"sub": "x", "iat": now.Add(-time.Hour).Unix(), "exp": now.Add(-25 * time.Second).Unix()}), judged: true},
		{name: "not-yet-valid-1h", token: signToken("HS256", []byte(secret), hs, map[string]any{"sub": "x", "nbf": now.Add(time.Hour).Unix()}), judged: true},
		{name: "basic-auth", raw: "Basic " + base64.StdEncoding.EncodeToString([]byte("admin:"+secret)), judged: true},
		{name: "secret-as-bearer", token: secret, judged: true},
		// borderline classes: sent and recorded, never judged
		{name: "iat-in-future (not judged)", token: signToken("HS256", []byte(secret), hs, map[string]any{"sub": "x", "iat": now.Add(time.Hour).Unix()})},
		{name: "lowercase-bearer-valid (not judged)", raw: "bearer " + valid},
	}
	// random byte edits of a valid token (must not verify any more)
	for i := 0; i < 6; i++ {
		b := []byte(valid)
		pos := len(parts[0]) + 1 + r.Intn(len(b)-len(parts[0])-1)
		for {
			c := "ABCDEFGHIJKLMNOPQRSTUVWXYZabcdefghijklmnopqrstuvwxyz0123456789-_"[r.Intn(64)]
			if c != b[pos] && b[pos] != '.' {
				b[pos] = c
				break
			}
			pos = len(parts[0]) + 1 + r.Intn(len(b)-len(parts[0])-1)
		}
		// the last character of a base64url segment carries padding bits: an edit there may decode to the same bytes
		if pos == len(b)-1 || b[pos+1] == '.' {
			continue
		}
		cls = append(cls, credClass{name: fmt.Sprintf("mutated-token-%d", i), token: string(b), judged: true})
	}
	return cls
}

type c14env struct {
	sys     *core.Sys
	h       http.Handler
	routes  [][2]string // method, pattern
	running string
	waiting string
	done    string
	markers []string
	valid   string
	pipe    string
}

// handsOutCredential: a rejected request must not be answered with something that works as a credential - every cookie
// the response sets (and every bearer-looking header value) is tried on a read-only route; "" if none of them is accepted
func (env *c14env) handsOutCredential(rec *httptest.ResponseRecorder) string {
	try := func(tok, via string) bool {
		req := env.request("GET", "/pipelines/")
		if via == "cookie" {
			req.AddCookie(&http.Cookie{Name: "jwt", Value: tok})
		} else {
			req.Header.Set("Authorization", "Bearer "+tok)
		}
		r2 := httptest.NewRecorder()
		env.h.ServeHTTP(r2, req)
		return r2.Code != 401
	}
	for _, ck := range rec.Result().Cookies() {
		if ck.Value == "" {
			continue
		}
		if try(ck.Value, "cookie") || try(ck.Value, "header") {
			return fmt.Sprintf("the response sets cookie %q whose value is accepted as a token afterwards", ck.Name)
		}
	}
	for _, h := range []string{"Authorization", "X-Token", "Token", "Www-Authenticate"} {
		if v := strings.TrimPrefix(rec.Header().Get(h), "Bearer "); v != "" && strings.Count(v, ".") == 2 && try(v, "header") {
			return fmt.Sprintf("response header %s carries a value that is accepted as a token afterwards", h)
		}
	}
	return ""
}

func c14setup(seed int64, secret string, profiling bool) (*c14env, error) {
	r := rand.New(rand.NewSource(seed))
	mark := fmt.Sprintf("MARK%06d", r.Intn(1e6))
	pname := "pipe-" + mark
	def := definition.PipelineDef{Concurrency: 1, Tasks: map[string]definition.TaskDef{"build-" + mark: {Script: []string{"echo"}}}, SourcePath: "x"}
	spec := gen.PipeSpec{Name: pname, Def: def, Graph: gen.Graph{Names: []string{"build-" + mark}, Deps: map[string][]string{}}}
	idle := gen.PipeSpec{Name: "idle-" + mark, Def: gen.CopyPipeDef(def), Graph: spec.Graph}
	out := core.NewMemOutputStore()
	sys, err := core.NewSys(gen.BuildDefs([]gen.PipeSpec{spec, idle}), &core.RecStore{}, out)
	if err != nil {
		return nil, err
	}
	e := &c14env{sys: sys, pipe: idle.Name}
	// the variables make every job listing / job detail / log response larger than 64 KiB (responses of that size take
	// other paths through buffers and pools than small ones); the marker is repeated throughout
	vars := map[string]interface{}{"secretvar": "VAR-" + mark, "blob": strings.Repeat("BLOB-"+mark+"-", 6000)}
	id1, _ := sys.Schedule(0, pname, vars, "user-"+mark)
	if _, err := sys.Quiesce(core.QuiesceOpts{}); err != nil {
		return nil, err
	}
	sys.Release(id1, "build-"+mark, core.Outcome{Kind: core.OutOK})
	if _, err := sys.Quiesce(core.QuiesceOpts{}); err != nil {
		return nil, err
	}
	e.done = id1
	w, _ := out.Writer(id1, "build-"+mark, "stdout")
	fmt.Fprintf(w, "LOG-%s line\n", mark)
	for i := 0; i < 3000; i++ {
		fmt.Fprintf(w, "LOG-%s line %d of a long log\n", mark, i)
	}
	w.Close()
	e.running, _ = sys.Schedule(0, pname, vars, "user-"+mark)
	e.waiting, _ = sys.Schedule(0, pname, vars, "user-"+mark)
	if _, err := sys.Quiesce(core.QuiesceOpts{}); err != nil {
		return nil, err
	}
	e.markers = []string{mark, e.done, e.running, e.waiting}
	auth := jwtauth.New("HS256", []byte(secret), nil)
	noop := func(next http.Handler) http.Handler { return next }
	srv := server.NewServer(sys.R, out, noop, auth, profiling)
	e.h = srv
	rt := srv.VerifRoutes()
	if rt == nil {
		return nil, fmt.Errorf("router not discoverable")
	}
	_ = chi.Walk(rt, func(method, route string, handler http.Handler, mws ...func(http.Handler) http.Handler) error {
		e.routes = append(e.routes, [2]string{method, route})
		return nil
	})
	e.valid = signToken("HS256", []byte(secret), map[string]any{"alg": "HS256", "typ": "JWT"}, map[string]any{"sub": "legit", "iat": time.Now().Add(-time.Minute).Unix()})
	return e, nil
}

// request builds a request for the pattern that would be effective if it were accepted
func (e *c14env) request(method, pattern string) *http.Request {
	path := strings.ReplaceAll(pattern, "/*", "/")
	q := url.Values{}
	var body io.Reader = bytes.NewReader(nil)
	switch {
	case strings.Contains(pattern, "schedule"):
		b, _ := json.Marshal(map[string]any{"pipeline": e.pipe, "variables": map[string]any{"x": 1}})
		body = bytes.NewReader(b)
	case strings.Contains(pattern, "cancel"):
		q.Set("id", e.running)
	case strings.Contains(pattern, "logs"):
		q.Set("id", e.done)
		q.Set("task", "build-"+e.markers[0])
	case strings.Contains(pattern, "detail"):
		q.Set("id", e.done)
	}
	u := path
	if len(q) > 0 {
		u += "?" + q.Encode()
	}
	return httptest.NewRequest(method, u, body)
}

type stateDigest struct {
	Jobs  []string
	Saves int
	List  string
}

func (e *c14env) digest() stateDigest {
	v := e.sys.Snapshot(-1)
	d := stateDigest{}
	for i := range v.Jobs {
		j := &v.Jobs[i]
		d.Jobs = append(d.Jobs, fmt.Sprintf("%s c=%v x=%v s=%v", j.ID, j.Completed, j.Canceled, j.Start != nil))
	}
	sort.Strings(d.Jobs)
	d.List = fmt.Sprint(e.sys.ListPipelines(-1))
	return d
}

var allMethods = []string{"GET", "POST", "PUT", "PATCH", "DELETE", "HEAD", "OPTIONS"}

func runC14(tier string, seed int64) *Outcome {
	o := &Outcome{Exhaustive: true}
	secrets := []string{"0123456789abcdef", "a-32-characters-long-secret-0000!", strings.Repeat("ß∂ƒ©-secret-", 6)}
	idx := 0
	prevValid, prevSecret := "", ""
	reps := 1
	if tier == "thorough" {
		reps = 6
	}
	for rep := 0; rep < reps; rep++ {
		for si, secret := range secrets {
			for _, profiling := range []bool{false, true} {
				res := &CaseResult{Idx: idx}
				idx++
				o.Results = append(o.Results, res)
				env, err := c14setup(seed+int64(rep*100+si), secret, profiling)
				if err != nil {
					res.Inconclusive = err.Error()
					continue
				}
				find := func(sig, format string, args ...any) {
					if len(res.Findings) < 40 {
						res.Findings = append(res.Findings, drv.Finding{Props: []string{"C14"}, Sig: sig, Detail: fmt.Sprintf(format, args...), Step: -1})
					}
				}
				patterns := map[string]bool{}
				registered := map[[2]string]bool{}
				for _, rt := range env.routes {
					patterns[rt[1]] = true
					registered[rt] = true
				}
				nonDebug := 0
				for p := range patterns {
					if !strings.HasPrefix(p, "/debug") {
						nonDebug++
					}
				}
				if nonDebug < 6 {
					res.Inconclusive = fmt.Sprintf("route discovery found only %d API routes: %v", nonDebug, env.routes)
					env.sys.Close()
					continue
				}
				r := rand.New(rand.NewSource(seed + int64(idx)))
				classes := credentialClasses(secret, r)
				if prevValid != "" && prevSecret != secret {
					// a token that another server instance of this process (other secret) has accepted before: verification
					// state must not be shared between instances
					classes = append(classes, credClass{name: "token-accepted-by-another-instance", token: prevValid, judged: true})
				}
				var plist []string
				for p := range patterns {
					plist = append(plist, p)
				}
				sort.Strings(plist)
				base := env.digest()
				notJudged := map[string]int{}
				for _, p := range plist {
					if strings.HasPrefix(p, "/debug") {
						// profiling routes exist only when profiling is enabled and are exempt then (some of them block for
						// 30 s by design); their absence with profiling off is checked below
						continue
					}
					isDebug := false
					for _, m := range allMethods {
						for _, cl := range classes {
							for _, transport := range []string{"header", "cookie", "query"} {
								if cl.raw != "" && transport != "header" {
									continue
								}
								if cl.token == "" && cl.raw == "" && transport != "header" {
									continue
								}
								if !cl.judged && !(m == "GET" && p == "/pipelines/") {
									continue // borderline credentials may be accepted: they are only sent to a read-only route
								}
								req := env.request(m, p)
								switch transport {
								case "header":
									if cl.raw != "" {
										req.Header.Set("Authorization", cl.raw)
									} else if cl.token != "" {
										req.Header.Set("Authorization", "Bearer "+cl.token)
									}
								case "cookie":
									req.AddCookie(&http.Cookie{Name: "jwt", Value: cl.token})
								case "query":
									q := req.URL.Query()
									q.Set("jwt", cl.token)
									req.URL.RawQuery = q.Encode()
								}
								rec := httptest.NewRecorder()
								env.h.ServeHTTP(rec, req)
								res.Evaluations++
								body := rec.Body.String()
								if isDebug {
									// profiling routes: exist only when profiling is enabled (then they are exempt)
									continue
								}
								if !cl.judged {
									notJudged[fmt.Sprintf("%s -> %d", cl.name, rec.Code)]++
									continue
								}
								res.Situations = append(res.Situations, fmt.Sprintf("%s %s registered=%v %s/%s profiling=%v", m, p, registered[[2]string{m, p}], strings.Split(cl.name, "-")[0], transport, profiling))
								if rec.Code != 401 {
									find("C14:request-without-valid-token-not-401", "%s %s with credential %q via %s answered %d (profiling=%v)", m, p, cl.name, transport, rec.Code, profiling)
								}
								if why := env.handsOutCredential(rec); why != "" {
									find("C14:rejected-request-hands-out-a-credential", "%s %s with credential %q via %s answered %d and %s", m, p, cl.name, transport, rec.Code, why)
								}
								for _, mk := range env.markers {
									if mk != "" && strings.Contains(body, mk) {
										find("C14:rejected-request-reveals-data", "%s %s with credential %q via %s: the response body contains %q", m, p, cl.name, transport, mk)
										break
									}
								}
							}
						}
					}
					// state must be untouched by all of the above
					if d := env.digest(); !reflect.DeepEqual(d, base) {
						find("C14:rejected-request-had-an-effect", "after the unauthenticated requests to %s the runner state changed: %v -> %v", p, base.Jobs, d.Jobs)
						base = d
					}
				}
				// profiling routes do not exist when profiling is disabled; when enabled they must not open the API
				for _, dp := range []string{"/debug/pprof/", "/debug/pprof/cmdline", "/debug/vars", "/debug/pprof/goroutine?debug=1", "/debug", "/debug/pprof/profile", "/debug/pprof/heap"} {
					if profiling && strings.Contains(dp, "profile") {
						continue
					}
					req := httptest.NewRequest("GET", dp, nil)
					rec := httptest.NewRecorder()
					env.h.ServeHTTP(rec, req)
					res.Evaluations++
					res.Situations = append(res.Situations, fmt.Sprintf("GET %s profiling=%v", dp, profiling))
					if !profiling && rec.Code != 404 {
						find("C14:profiling-route-exists-although-disabled", "GET %s answered %d with profiling disabled", dp, rec.Code)
					}
				}
				// positive control: the same requests with a good token are not 401 and have their effect
				for _, transport := range []string{"header", "cookie"} {
					for _, rt := range env.routes {
						if strings.HasPrefix(rt[1], "/debug") || strings.Contains(rt[1], "cancel") || strings.Contains(rt[1], "schedule") {
							continue
						}
						req := env.request(rt[0], rt[1])
						if transport == "header" {
							req.Header.Set("Authorization", "Bearer "+env.valid)
						} else {
							req.AddCookie(&http.Cookie{Name: "jwt", Value: env.valid})
						}
						rec := httptest.NewRecorder()
						env.h.ServeHTTP(rec, req)
						res.Evaluations++
						if rec.Code == 401 || rec.Code >= 500 {
							res.Inconclusive = fmt.Sprintf("positive control failed: %s %s with a valid token via %s answered %d", rt[0], rt[1], transport, rec.Code)
						}
						if strings.Contains(rt[1], "logs") && !strings.Contains(rec.Body.String(), "LOG-"+env.markers[0]) {
							res.Inconclusive = "positive control failed: logs not returned with a valid token: " + rec.Body.String()
						}
					}
				}
				before := len(env.sys.Snapshot(-1).Jobs)
				req := env.request("POST", "/pipelines/schedule")
				req.Header.Set("Authorization", "Bearer "+env.valid)
				rec := httptest.NewRecorder()
				env.h.ServeHTTP(rec, req)
				if rec.Code != 202 || len(env.sys.Snapshot(-1).Jobs) != before+1 {
					res.Inconclusive = fmt.Sprintf("positive control failed: schedule with a valid token answered %d", rec.Code)
				}
				req = env.request("POST", "/job/cancel")
				req.AddCookie(&http.Cookie{Name: "jwt", Value: env.valid})
				rec = httptest.NewRecorder()
				env.h.ServeHTTP(rec, req)
				if rec.Code != 200 {
					res.Inconclusive = fmt.Sprintf("positive control failed: cancel with a valid token (cookie) answered %d", rec.Code)
				}
				// state kept by the server between requests must not open a route: every invalid request is repeated directly
				// after the SAME request was answered for a valid token (carried in the header or in the cookie).
				// (the asynchronous effects of the valid cancel above have to be over first: logical quiescence)
				if _, err := env.sys.Quiesce(core.QuiesceOpts{Watchdog: 20 * time.Second}); err != nil {
					res.Inconclusive = "no quiescence after the positive control: " + err.Error()
				}
				for _, rt := range env.routes {
					if strings.HasPrefix(rt[1], "/debug") || strings.Contains(rt[1], "cancel") {
						continue
					}
					for _, primer := range []string{"header", "cookie"} {
						for _, cl := range classes {
							if !cl.judged {
								continue
							}
							for _, transport := range []string{"header", "cookie", "query"} {
								if (cl.raw != "" || cl.token == "") && transport != "header" {
									continue
								}
								if strings.Contains(rt[1], "schedule") && (transport != "header" || len(cl.name)%3 != 0) {
									continue // every valid schedule request creates a job: a sample of the classes suffices here
								}
								preq := env.request(rt[0], rt[1])
								if primer == "header" {
									preq.Header.Set("Authorization", "Bearer "+env.valid)
								} else {
									preq.AddCookie(&http.Cookie{Name: "jwt", Value: env.valid})
								}
								prec := httptest.NewRecorder()
								env.h.ServeHTTP(prec, preq)
								if prec.Code == 401 {
									res.Inconclusive = fmt.Sprintf("positive control failed: %s %s with a valid token via %s answered 401", rt[0], rt[1], primer)
								}
								before := env.digest()
								req := env.request(rt[0], rt[1])
								switch transport {
								case "header":
									if cl.raw != "" {
										req.Header.Set("Authorization", cl.raw)
									} else if cl.token != "" {
										req.Header.Set("Authorization", "Bearer "+cl.token)
									}
								case "cookie":
									req.AddCookie(&http.Cookie{Name: "jwt", Value: cl.token})
								case "query":
									q := req.URL.Query()
									q.Set("jwt", cl.token)
									req.URL.RawQuery = q.Encode()
								}
								rec := httptest.NewRecorder()
								env.h.ServeHTTP(rec, req)
								res.Evaluations++
								res.Situations = append(res.Situations, fmt.Sprintf("after-valid(%s) %s %s %s/%s profiling=%v", primer, rt[0], rt[1], strings.Split(cl.name, "-")[0], transport, profiling))
								if rec.Code != 401 {
									find("C14:request-without-valid-token-not-401", "%s %s with credential %q via %s answered %d directly after the same request had been answered for a valid token carried in the %s", rt[0], rt[1], cl.name, transport, rec.Code, primer)
								}
								if why := env.handsOutCredential(rec); why != "" {
									find("C14:rejected-request-hands-out-a-credential", "%s %s with credential %q via %s answered %d and %s", rt[0], rt[1], cl.name, transport, rec.Code, why)
								}
								body := rec.Body.String()
								for _, mk := range env.markers {
									if mk != "" && strings.Contains(body, mk) {
										find("C14:rejected-request-reveals-data", "%s %s with credential %q via %s (directly after a valid request via %s): the response body contains %q", rt[0], rt[1], cl.name, transport, primer, mk)
										break
									}
								}
								if d := env.digest(); !reflect.DeepEqual(d, before) {
									find("C14:rejected-request-had-an-effect", "%s %s with credential %q via %s changed the runner state: %v -> %v", rt[0], rt[1], cl.name, transport, before.Jobs, d.Jobs)
								}
							}
						}
					}
				}
				// the decision about one request must not depend on requests that are in flight at the same time: valid
				// pollers run concurrently with clients that send effective requests with invalid credentials
				func() {
					var wg sync.WaitGroup
					stop := make(chan struct{})
					before := env.digest()
					var mu sync.Mutex
					var judgedClasses []credClass
					for _, cl := range classes {
						if cl.judged {
							judgedClasses = append(judgedClasses, cl)
						}
					}
					for g := 0; g < 6; g++ {
						wg.Add(1)
						go func(g int) {
							defer wg.Done()
							paths := []string{"/pipelines/", "/pipelines/jobs", "/job/detail"}
							for i := 0; ; i++ {
								select {
								case <-stop:
									return
								default:
								}
								req := env.request("GET", paths[(i+g)%len(paths)])
								if g%2 == 0 {
									req.Header.Set("Authorization", "Bearer "+env.valid)
								} else {
									req.AddCookie(&http.Cookie{Name: "jwt", Value: env.valid})
								}
								env.h.ServeHTTP(httptest.NewRecorder(), req)
							}
						}(g)
					}
					var iw sync.WaitGroup
					n := 0
					for g := 0; g < 6; g++ {
						iw.Add(1)
						go func(g int) {
							defer iw.Done()
							routes := [][2]string{{"POST", "/pipelines/schedule"}, {"POST", "/job/cancel"}, {"GET", "/job/logs"}, {"GET", "/pipelines/jobs"}}
							for i := 0; i < 700; i++ {
								cl := judgedClasses[(i*7+g)%len(judgedClasses)]
								rt := routes[(i+g)%len(routes)]
								req := env.request(rt[0], rt[1])
								via := "header"
								switch {
								case cl.raw != "":
									req.Header.Set("Authorization", cl.raw)
								case cl.token == "":
								case i%2 == 0:
									req.Header.Set("Authorization", "Bearer "+cl.token)
								default:
									via = "cookie"
									req.AddCookie(&http.Cookie{Name: "jwt", Value: cl.token})
								}
								rec := httptest.NewRecorder()
								env.h.ServeHTTP(rec, req)
								body := rec.Body.String()
								mu.Lock()
								n++
								if rec.Code != 401 {
									find("C14:request-without-valid-token-not-401", "%s %s with credential %q via %s answered %d while requests with a valid token were in flight", rt[0], rt[1], cl.name, via, rec.Code)
								}
								for _, mk := range env.markers {
									if mk != "" && strings.Contains(body, mk) {
										find("C14:rejected-request-reveals-data", "%s %s with credential %q via %s (valid requests in flight): the response body contains %q", rt[0], rt[1], cl.name, via, mk)
										break
									}
								}
								mu.Unlock()
							}
						}(g)
					}
					iw.Wait()
					close(stop)
					wg.Wait()
					res.Evaluations += n
					res.Situations = append(res.Situations, fmt.Sprintf("concurrent valid pollers and invalid clients profiling=%v", profiling))
					if d := env.digest(); !reflect.DeepEqual(d, before) {
						find("C14:rejected-request-had-an-effect", "requests with invalid credentials that ran concurrently with valid read-only requests changed the runner state: %v -> %v", before.Jobs, d.Jobs)
					}
				}()
				var nj []string
				for k, v := range notJudged {
					nj = append(nj, fmt.Sprintf("%s x%d", k, v))
				}
				sort.Strings(nj)
				res.Sample = map[string]any{"secretLen": len(secret), "profiling": profiling, "routes": env.routes, "credentialClasses": len(classes), "borderlineOutcomesNotJudged": nj}
				// the answer to a request without valid token does not depend on the state of the runner: while a graceful
				// shutdown waits for the running job and after the shutdown has returned it is 401 as before
				func() {
					sweep := func(phase string) {
						for _, rt := range env.routes {
							if strings.HasPrefix(rt[1], "/debug") {
								continue
							}
							k := 0
							for _, cl := range classes {
								if !cl.judged {
									continue
								}
								k++
								if k > 8 {
									break
								}
								for _, transport := range []string{"header", "cookie"} {
									req := env.request(rt[0], rt[1])
									switch {
									case transport == "header" && cl.raw != "":
										req.Header.Set("Authorization", cl.raw)
									case transport == "header" && cl.token != "":
										req.Header.Set("Authorization", "Bearer "+cl.token)
									case transport == "cookie":
										req.AddCookie(&http.Cookie{Name: "jwt", Value: cl.token})
									}
									rec := httptest.NewRecorder()
									env.h.ServeHTTP(rec, req)
									res.Evaluations++
									if rec.Code != 401 {
										find("C14:request-without-valid-token-not-401", "%s %s with credential %q via %s answered %d %s (before the shutdown such requests are answered 401)", rt[0], rt[1], cl.name, transport, rec.Code, phase)
									}
								}
							}
						}
						res.Situations = append(res.Situations, fmt.Sprintf("invalid credentials %s profiling=%v", phase, profiling))
					}
					sd := make(chan struct{})
					go func() { defer close(sd); _ = env.sys.Shutdown(9, context.Background(), "graceful (C14)") }()
					for i := 0; i < 4000; i++ {
						if _, cls := env.sys.Schedule(8, "no-such-pipeline-probe", nil, "probe"); cls == "shutting-down" {
							break
						}
						time.Sleep(100 * time.Microsecond)
					}
					before := env.digest()
					sweep("while a graceful shutdown is waiting for the running job")
					if d := env.digest(); !reflect.DeepEqual(d, before) {
						find("C14:rejected-request-had-an-effect", "requests with invalid credentials during a graceful shutdown changed the runner state: %v -> %v", before.Jobs, d.Jobs)
					}
					drv.DrainAll(env.sys)
					select {
					case <-sd:
						sweep("after Shutdown has returned")
					case <-time.After(30 * time.Second):
						res.Inconclusive = "watchdog: graceful shutdown of the C14 environment did not return"
					}
				}()
				// let the jobs end
				if profiling {
					prevValid, prevSecret = env.valid, secret // (the next instance has another secret)
				}
				drv.DrainAll(env.sys)
				env.sys.Close()
			}
		}
	}
	// the binary's own configuration of the profiling routes (flag / environment variable), if bin/check built it
	if bin := os.Getenv("PRUNNER_BIN"); bin != "" {
		tmp, _ := os.MkdirTemp(tmpRoot(), "pxc14-")
		h := drv.RunProfilingBinaryCase(seed, bin, tmp)
		os.RemoveAll(tmp)
		res := &CaseResult{Idx: idx, Findings: h.Findings, Inconclusive: h.Inconclusive, Evaluations: h.Evaluations["C14"]}
		for s := range h.Situations["C14"] {
			res.Situations = append(res.Situations, s)
		}
		o.Results = append(o.Results, res)
		// ... and where the binary takes the secret from (command line / environment over an old config file, config file,
		// generated): a token signed with a secret that is not the one in force is refused in every configuration
		for k := 0; k < 4; k++ {
			idx++
			tmp, _ := os.MkdirTemp(tmpRoot(), "pxc14-")
			h := drv.RunSecretSourceBinaryCase(int64(k), bin, tmp)
			os.RemoveAll(tmp)
			res := &CaseResult{Idx: idx, Findings: h.Findings, Inconclusive: h.Inconclusive, Evaluations: h.Evaluations["C14"]}
			for s := range h.Situations["C14"] {
				res.Situations = append(res.Situations, s)
			}
			o.Results = append(o.Results, res)
		}
	} else {
		o.Results = append(o.Results, &CaseResult{Idx: idx, Inconclusive: "PRUNNER_BIN not set (bin/check builds cmd/prunner from /repo)"})
	}
	return o
}

func init() {
	register(&Check{
		ID: "C14", Level: "exploration",
		Rule:        "exhaustive product over: every route pattern discovered with chi.Walk on the real router (hook H3; the run is invalid if fewer than the six known API routes are found) x methods {GET,POST,PUT,PATCH,DELETE,HEAD,OPTIONS} x ~27 invalid credential classes (none, empty bearer, garbage, 2 / 4 segments, other secret, truncated / bit-flipped signature, payload modified after signing, alg none (3 spellings / signatures), HS384 / HS512 with the right secret, RS256 / ES256 headers, expired (1 h, 25 s and 3 s ago), not yet valid, basic auth, the secret itself, random single-character edits of a valid token, a token that another server instance with another secret accepted earlier in this process) x transports {Authorization header, cookie jwt, query ?jwt=} x profiling on/off x 3 secrets (16, 33, 100+ bytes incl. non-ASCII), against the real http.Handler of server.NewServer on a runner that holds a running, a waiting and a finished job with log output (job variables and logs large enough that every authenticated listing / detail / log response exceeds 64 KiB). Requests are built to be effective if accepted (schedule an existing pipeline, cancel the running job, read real logs). Oracle: status 401, body free of planted markers (job ids, pipeline / task names, variable values, log lines), runner state (jobs, flags, pipeline list) unchanged; /debug/* answers 404 with profiling off (also for the real binary started without the flag, with --enable-profiling=false and with PRUNNER_ENABLE_PROFILING=false / 0); positive control with a valid token via header and cookie; every judged invalid request is also repeated directly after the same request was answered for a valid token (header / cookie), so that state kept between requests (caches, sessions) cannot open a route; finally 6 clients with invalid credentials send effective requests while 6 pollers with a valid token are in flight (the decision about one request must not depend on another). Borderline classes (iat in the future, lower-case 'bearer') are sent and their outcome recorded but never judged. A situation is (method, pattern, registered?, credential family, transport, profiling). Plus the real binary in four secret-source configurations (--jwt-secret / PRUNNER_JWT_SECRET over an old config file with another secret, config file only, generated): tokens signed with the secret that is NOT in force are tried on six routes by header and cookie (401, no effect), the secret in force is the positive control",
		Assumptions: []string{"the listener's bind address and TLS are outside the handler and not examined"},
		Custom:      runC14,
		MinDistinct: 200,
		Exhaustive:  func(string) bool { return true },
	})
}
