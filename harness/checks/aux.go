package checks

// auxCommands are helper sub-commands of the pxcheck binary used by checks that re-execute it (task commands, victims)
var auxCommands = map[string]func(args []string) int{}

// Aux dispatches helper sub-commands
func Aux(args []string) (int, bool) {
	if f, ok := auxCommands[args[0]]; ok {
		return f(args[1:]), true
	}
	return 0, false
}
