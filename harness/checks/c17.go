package checks

import (
	"fmt"
	"math/rand"
	"os"
	"path/filepath"
	"reflect"
	"sort"
	"strings"
	"time"

	"gopkg.in/yaml.v2"

	"github.com/Flowpack/prunner/definition"

	"pxverif/drv"
)

// ---- generator of definitions over all fields ----

var c17names = []string{"build", "deploy.prod", "release-it", "über", "a", "b", "test_1", "x.y-z", "Pipeline", "z"}
var c17envKeys = []string{"A", "B", "PATH_X", "EMPTY", "lower", "K1", "K2"}
var c17envVals = []string{"", "1", "two words", "ünï", "$HOME", "a=b", "'q'"}

func c17task(r *rand.Rand, names []string, self int) definition.TaskDef {
	t := definition.TaskDef{AllowFailure: r.Intn(3) == 0}
	for i := 0; i < r.Intn(3); i++ {
		t.Script = append(t.Script, []string{"echo hi", "make all", "exit 1", "true # comment", "echo {{.var}}", "cd build\nmake all", "echo a,b"}[r.Intn(7)])
	}
	for i := 0; i < self; i++ {
		if r.Intn(3) == 0 {
			t.DependsOn = append(t.DependsOn, names[i])
		}
	}
	if r.Intn(3) == 0 {
		t.Env = map[string]string{}
		for i := 0; i < 1+r.Intn(3); i++ {
			t.Env[c17envKeys[r.Intn(len(c17envKeys))]] = c17envVals[r.Intn(len(c17envVals))]
		}
	}
	return t
}

func c17pipeline(r *rand.Rand) definition.PipelineDef {
	p := definition.PipelineDef{
		Concurrency:                      []int{0, 1, 2, 5}[r.Intn(4)],
		ContinueRunningTasksAfterFailure: r.Intn(2) == 0,
		RetentionCount:                   []int{0, 1, 10}[r.Intn(3)],
		RetentionPeriod:                  []time.Duration{0, time.Hour, 36 * time.Hour, 90 * time.Second}[r.Intn(4)],
		Tasks:                            map[string]definition.TaskDef{},
	}
	if r.Intn(2) == 0 {
		l := r.Intn(4)
		p.QueueLimit = &l
	}
	if r.Intn(3) == 0 {
		p.QueueStrategy = definition.QueueStrategyReplace
	}
	if r.Intn(3) == 0 && (p.QueueLimit == nil || *p.QueueLimit > 0) {
		p.StartDelay = []time.Duration{150 * time.Millisecond, 2 * time.Second, time.Minute}[r.Intn(3)]
	}
	if r.Intn(3) == 0 {
		p.Env = map[string]string{}
		for i := 0; i < 1+r.Intn(3); i++ {
			p.Env[c17envKeys[r.Intn(len(c17envKeys))]] = c17envVals[r.Intn(len(c17envVals))]
		}
	}
	n := 1 + r.Intn(4)
	perm := r.Perm(len(c17names))
	var names []string
	for i := 0; i < n; i++ {
		names = append(names, "t-"+c17names[perm[i]])
	}
	for i, tn := range names {
		p.Tasks[tn] = c17task(r, names, i)
	}
	return p
}

// yamlTree renders a pipeline as the generic tree a user would write (strategy as string, durations as strings);
// zero values are sometimes written explicitly and sometimes omitted
func yamlTree(r *rand.Rand, p definition.PipelineDef) map[string]interface{} {
	m := map[string]interface{}{}
	put := func(key string, zero bool, v interface{}) {
		if !zero || r.Intn(2) == 0 {
			m[key] = v
		}
	}
	put("concurrency", p.Concurrency == 0, p.Concurrency)
	if p.QueueLimit != nil {
		m["queue_limit"] = *p.QueueLimit
	}
	if p.QueueStrategy == definition.QueueStrategyReplace {
		m["queue_strategy"] = "replace"
	} else if r.Intn(2) == 0 {
		m["queue_strategy"] = "append"
	}
	put("start_delay", p.StartDelay == 0, p.StartDelay.String())
	put("continue_running_tasks_after_failure", !p.ContinueRunningTasksAfterFailure, p.ContinueRunningTasksAfterFailure)
	put("retention_period", p.RetentionPeriod == 0, p.RetentionPeriod.String())
	put("retention_count", p.RetentionCount == 0, p.RetentionCount)
	if p.Env != nil {
		m["env"] = p.Env
	}
	tasks := map[string]interface{}{}
	for n, t := range p.Tasks {
		tm := map[string]interface{}{}
		if t.Script != nil || r.Intn(2) == 0 {
			if t.Script == nil {
				tm["script"] = []string{}
			} else {
				tm["script"] = t.Script
			}
		}
		if len(t.DependsOn) > 0 {
			tm["depends_on"] = t.DependsOn
		}
		if t.AllowFailure || r.Intn(2) == 0 {
			tm["allow_failure"] = t.AllowFailure
		}
		if t.Env != nil {
			tm["env"] = t.Env
		}
		tasks[n] = tm
	}
	m["tasks"] = tasks
	return m
}

func normStrs(s []string) []string {
	if len(s) == 0 {
		return nil
	}
	return s
}

func normMap(m map[string]string) map[string]string {
	if len(m) == 0 {
		return nil
	}
	return m
}

// samePipeline compares a loaded pipeline with the generating one (after defaults), nil and empty collections being the same
func samePipeline(exp, got definition.PipelineDef) string {
	if exp.Concurrency == 0 {
		exp.Concurrency = 1
	}
	var diffs []string
	chk := func(name string, a, b interface{}) {
		if !reflect.DeepEqual(a, b) {
			diffs = append(diffs, fmt.Sprintf("%s: file says %v, loaded %v", name, a, b))
		}
	}
	chk("concurrency", exp.Concurrency, got.Concurrency)
	chk("queue_limit set", exp.QueueLimit != nil, got.QueueLimit != nil)
	if exp.QueueLimit != nil && got.QueueLimit != nil {
		chk("queue_limit", *exp.QueueLimit, *got.QueueLimit)
	}
	chk("queue_strategy", exp.QueueStrategy, got.QueueStrategy)
	chk("start_delay", exp.StartDelay, got.StartDelay)
	chk("continue_running_tasks_after_failure", exp.ContinueRunningTasksAfterFailure, got.ContinueRunningTasksAfterFailure)
	chk("retention_period", exp.RetentionPeriod, got.RetentionPeriod)
	chk("retention_count", exp.RetentionCount, got.RetentionCount)
	chk("env", normMap(exp.Env), normMap(got.Env))
	chk("source path", exp.SourcePath, got.SourcePath)
	if len(exp.Tasks) != len(got.Tasks) {
		chk("task count", len(exp.Tasks), len(got.Tasks))
	}
	for n, et := range exp.Tasks {
		gt, ok := got.Tasks[n]
		if !ok {
			diffs = append(diffs, "task "+n+" missing")
			continue
		}
		chk("task "+n+" script", normStrs(et.Script), normStrs(gt.Script))
		chk("task "+n+" depends_on", normStrs(et.DependsOn), normStrs(gt.DependsOn))
		chk("task "+n+" allow_failure", et.AllowFailure, gt.AllowFailure)
		chk("task "+n+" env", normMap(et.Env), normMap(gt.Env))
	}
	return strings.Join(diffs, "; ")
}

// validityViolations restates the listed constraints independently
func validityViolations(d *definition.PipelinesDef) []string {
	var out []string
	for n, p := range d.Pipelines {
		if p.Concurrency < 1 {
			out = append(out, fmt.Sprintf("%s: concurrency %d", n, p.Concurrency))
		}
		if p.QueueLimit != nil && *p.QueueLimit < 0 {
			out = append(out, n+": negative queue_limit")
		}
		if p.StartDelay < 0 {
			out = append(out, n+": negative start_delay")
		}
		if p.StartDelay > 0 && p.QueueLimit != nil && *p.QueueLimit == 0 {
			out = append(out, n+": start_delay with queue_limit 0")
		}
		if p.QueueStrategy != definition.QueueStrategyAppend && p.QueueStrategy != definition.QueueStrategyReplace {
			out = append(out, n+": unknown strategy")
		}
		for tn, t := range p.Tasks {
			for _, dep := range t.DependsOn {
				if _, ok := p.Tasks[dep]; !ok {
					out = append(out, fmt.Sprintf("%s: task %s depends on foreign task %s", n, tn, dep))
				}
			}
		}
	}
	return out
}

func total1300(files []c17file) bool {
	for _, f := range files {
		if len(f.pipes) >= 1300 {
			return true
		}
	}
	return false
}

type c17file struct {
	rel   string
	pipes map[string]definition.PipelineDef
}

func writeTree(root string, files []c17file, r *rand.Rand, order []int, corrupt func(file int, tree map[string]interface{})) error {
	for _, i := range order {
		f := files[i]
		tree := map[string]interface{}{}
		for n, p := range f.pipes {
			if reflect.DeepEqual(p, definition.PipelineDef{}) {
				tree[n] = []interface{}{nil, map[string]interface{}{}, nil}[r.Intn(3)]
				continue
			}
			tree[n] = yamlTree(r, p)
		}
		if corrupt != nil {
			corrupt(i, tree)
		}
		b, err := yaml.Marshal(map[string]interface{}{"pipelines": tree})
		if err != nil {
			return err
		}
		full := filepath.Join(root, f.rel)
		if err := os.MkdirAll(filepath.Dir(full), 0o755); err != nil {
			return err
		}
		if err := os.WriteFile(full, b, 0o644); err != nil {
			return err
		}
	}
	return nil
}

// linkify replaces file i of the tree by a symbolic link to a file of another name kept beside the tree's root directory
// entries (a definition file deployed as a link into a release directory): what the link points to is the file's content
func linkify(root string, files []c17file, i int) error {
	full := filepath.Join(root, files[i].rel)
	target := filepath.Join(root, fmt.Sprintf("deployed-%d.src", i))
	if err := os.Rename(full, target); err != nil {
		return err
	}
	return os.Symlink(target, full)
}

func c17LoadCase(c *CaseCtx) *CaseResult {
	if c.Idx < tierN(c.Tier, 2, 16) {
		// "no edit is ever ignored by reload": the real reload path of the binary, driven with SIGUSR1
		bin := os.Getenv("PRUNNER_BIN")
		if bin == "" {
			return &CaseResult{Idx: c.Idx, Inconclusive: "PRUNNER_BIN not set (bin/check builds cmd/prunner from /repo)"}
		}
		return simpleCase(c, drv.RunReloadBinaryCase(c.Seed+1, bin, c.TmpDir), 1)
	}
	r := rand.New(rand.NewSource(c.Seed))
	res := &CaseResult{Idx: c.Idx}
	find := func(sig, format string, args ...any) {
		res.Findings = append(res.Findings, drv.Finding{Props: []string{"C17"}, Sig: sig, Detail: fmt.Sprintf(format, args...), Step: -1})
	}
	root, err := os.MkdirTemp(c.TmpDir, "defs-")
	if err != nil {
		res.Inconclusive = err.Error()
		return res
	}
	defer os.RemoveAll(root)
	dirs := []string{"", "a", "a/b", "z", "m/n/o", "Ä"}
	nFiles := 1 + r.Intn(4)
	perm := r.Perm(len(dirs))
	var files []c17file
	used := map[string]bool{}
	for i := 0; i < nFiles; i++ {
		ext := []string{"yml", "yaml"}[r.Intn(2)]
		f := c17file{rel: filepath.Join(dirs[perm[i]], "pipelines."+ext), pipes: map[string]definition.PipelineDef{}}
		for k := 0; k < 1+r.Intn(3); k++ {
			n := fmt.Sprintf("%s_%d", c17names[r.Intn(len(c17names))], r.Intn(50))
			if used[n] {
				continue
			}
			used[n] = true
			f.pipes[n] = c17pipeline(r)
		}
		if c.Idx%3 == 0 && r.Intn(4) == 0 {
			// a pipeline that says nothing at all - written as `name:` (YAML null), `name: ~` or `name: {}` - is a pipeline
			// with every default (concurrency 1) and no tasks (seed C17-n: defaults applied by a custom unmarshaller, which
			// yaml.v2 does not call for a null node)
			f.pipes[fmt.Sprintf("says_nothing_%d", i)] = definition.PipelineDef{}
		}
		files = append(files, f)
	}
	if c.Idx%3 == 0 && (c.Idx/3)%20 == 7 {
		// a very large (but valid) file: > 1 MiB, > 1000 pipelines, long scripts - all of it is loaded
		big := c17file{rel: filepath.Join("big", "pipelines.yml"), pipes: map[string]definition.PipelineDef{}}
		for k := 0; k < 1300; k++ {
			p := c17pipeline(r)
			for tn, td := range p.Tasks {
				td.Script = append(td.Script, "echo "+strings.Repeat("x", 600+r.Intn(300)))
				p.Tasks[tn] = td
				break
			}
			big.pipes[fmt.Sprintf("big_%04d", k)] = p
		}
		files = append(files, big)
		nFiles = len(files)
	}
	pattern := filepath.Join(root, "**/pipelines.{yml,yaml}")
	order := r.Perm(nFiles)
	mode := c.Idx % 3
	switch mode {
	case 0: // valid set: loads to exactly what it says, independent of creation order
		if err := writeTree(root, files, rand.New(rand.NewSource(c.Seed+1)), order, nil); err != nil {
			res.Inconclusive = err.Error()
			return res
		}
		linked := (c.Idx/3)%4 == 1
		if linked {
			if err := linkify(root, files, r.Intn(nFiles)); err != nil {
				res.Inconclusive = err.Error()
				return res
			}
		}
		got, err := definition.LoadRecursively(pattern)
		res.Evaluations++
		res.Situations = append(res.Situations, fmt.Sprintf("valid files=%d large=%v one file is a symbolic link=%v", min(nFiles, 4), total1300(files), linked))
		if err != nil {
			find("C17:valid-definitions-rejected", "a valid definition set does not load: %v", err)
			break
		}
		if v := validityViolations(got); len(v) > 0 {
			find("C17:loaded-definitions-violate-constraints", "loaded without error but: %v", v)
		}
		total := 0
		for _, f := range files {
			for n, p := range f.pipes {
				total++
				p.SourcePath = filepath.Join(root, f.rel)
				gp, ok := got.Pipelines[n]
				if !ok {
					find("C17:pipeline-missing-after-load", "pipeline %s of %s is missing after load", n, f.rel)
					continue
				}
				if d := samePipeline(p, gp); d != "" {
					find("C17:loaded-definition-differs-from-file", "pipeline %s: %s", n, d)
				}
			}
		}
		if total != len(got.Pipelines) {
			find("C17:loaded-definition-differs-from-file", "%d pipelines written, %d loaded", total, len(got.Pipelines))
		}
		// second tree: same files created in another order, same content => same result
		root2, _ := os.MkdirTemp(c.TmpDir, "defs2-")
		defer os.RemoveAll(root2)
		rev := append([]int(nil), order...)
		sort.Sort(sort.Reverse(sort.IntSlice(rev)))
		if err := writeTree(root2, files, rand.New(rand.NewSource(c.Seed+1)), rev, nil); err == nil {
			got2, err2 := definition.LoadRecursively(filepath.Join(root2, "**/pipelines.{yml,yaml}"))
			if err2 != nil {
				find("C17:load-depends-on-file-enumeration-order", "same files, other creation order: %v", err2)
			} else {
				for n, p := range got.Pipelines {
					p2 := got2.Pipelines[n]
					p.SourcePath, p2.SourcePath = "", ""
					if !p.Equals(p2) || !reflect.DeepEqual(normMap(p.Env), normMap(p2.Env)) {
						find("C17:load-depends-on-file-enumeration-order", "pipeline %s differs between two loads of the same files", n)
					}
				}
				if !got.Equals(*got) {
					find("C17:equals-not-reflexive", "a loaded definition set is not equal to itself")
				}
			}
		}
		// the same files loaded AGAIN in this process after an edit that keeps a file's size and modification time
		// (rsync -t, cp -p, a rollback by rename): the result is what the files say now
		func() {
			type stamp struct {
				size int64
				mod  time.Time
			}
			before := map[string]stamp{}
			for _, f := range files {
				if st, err := os.Stat(filepath.Join(root, f.rel)); err == nil {
					before[f.rel] = stamp{st.Size(), st.ModTime()}
				}
			}
			var editedPipe, editedTask, editedFile string
			var want definition.PipelineDef
		search:
			for _, f := range files {
				for n, p := range f.pipes {
					for tn, td := range p.Tasks {
						if len(td.Script) == 0 || len(td.Script[0]) == 0 {
							continue
						}
						line := td.Script[0]
						last := line[len(line)-1]
						if !(last >= 'a' && last <= 'y') {
							continue
						}
						td.Script = append([]string{line[:len(line)-1] + string(last+1)}, td.Script[1:]...)
						p.Tasks[tn] = td
						f.pipes[n] = p
						editedPipe, editedTask, editedFile, want = n, tn, f.rel, p
						break search
					}
				}
			}
			if editedPipe == "" {
				return
			}
			if err := writeTree(root, files, rand.New(rand.NewSource(c.Seed+1)), order, nil); err != nil {
				return
			}
			sameSize := true
			for _, f := range files {
				full := filepath.Join(root, f.rel)
				if st, err := os.Stat(full); err == nil {
					if b, ok := before[f.rel]; ok {
						if st.Size() != b.size {
							sameSize = false
						}
						_ = os.Chtimes(full, b.mod, b.mod)
					}
				}
			}
			again, err := definition.LoadRecursively(pattern)
			res.Evaluations++
			res.Situations = append(res.Situations, fmt.Sprintf("reload in the same process after an edit with preserved mtime (same size=%v)", sameSize))
			if err != nil {
				find("C17:valid-definitions-rejected", "second load in the same process after a one-character edit of %s: %v", editedFile, err)
				return
			}
			want.SourcePath = filepath.Join(root, editedFile)
			if d := samePipeline(want, again.Pipelines[editedPipe]); d != "" {
				find("C17:loaded-definition-differs-from-file", "a second load in the same process ignores an edit of task %s in pipeline %s (%s) that kept the file's size (%v) and modification time: %s", editedTask, editedPipe, editedFile, sameSize, d)
			}
			if got.Equals(*again) {
				find("C17:edit-not-detected-by-equals", "the definitions loaded before and after an edit of task %s in pipeline %s (%s, modification time preserved) compare equal", editedTask, editedPipe, editedFile)
			}
		}()
	case 1: // single-constraint corruption: must fail
		kinds := []string{"concurrency -1", "concurrency -7", "queue_limit -1", "start_delay -1s", "delay with queue_limit 0", "dependency on missing task", "dependency on another pipeline's task", "unknown strategy", "duplicate name in another file", "unparsable yaml", "dependency with empty name", "dependency that is a YAML null", "start_delay -1s with queue_limit", "dependency on missing task beside valid ones", "concurrency -1 in a later pipeline of the file", "verbatim duplicate in another file", "queue_strategy integer 2", "queue_strategy integer -1", "queue_strategy integer 1 quoted"}
		kind := kinds[(c.Idx/3)%len(kinds)]
		target := r.Intn(nFiles)
		var victim string
		for n := range files[target].pipes {
			victim = n
			break
		}
		if victim == "" {
			res.Situations = append(res.Situations, "corruption skipped (empty file)")
			res.Evaluations++
			return res
		}
		if (kind == "duplicate name in another file" || kind == "verbatim duplicate in another file") && nFiles < 2 {
			// a second file is needed: add one in a sibling directory
			files = append(files, c17file{rel: filepath.Join("zz-extra", "pipelines.yml"), pipes: map[string]definition.PipelineDef{}})
			order = append(order, len(files)-1)
			nFiles = len(files)
		}
		corrupt := func(file int, tree map[string]interface{}) {
			switch kind {
			case "duplicate name in another file":
				if file != target {
					other := c17pipeline(rand.New(rand.NewSource(c.Seed + 5)))
					if file == (target+1)%nFiles {
						tree[victim] = yamlTree(rand.New(rand.NewSource(1)), other)
					}
				}
				return
			case "verbatim duplicate in another file":
				// the same name declared twice is an error even when both declarations say the same
				if file == (target+1)%nFiles {
					tree[victim] = yamlTree(rand.New(rand.NewSource(c.Seed+9)), files[target].pipes[victim])
				}
				return
			}
			if file != target {
				return
			}
			pm := tree[victim].(map[string]interface{})
			switch kind {
			case "concurrency -1":
				pm["concurrency"] = -1
			case "concurrency -7":
				pm["concurrency"] = -7
			case "queue_limit -1":
				pm["queue_limit"] = -1
			case "start_delay -1s":
				pm["start_delay"] = "-1s"
				delete(pm, "queue_limit")
			case "delay with queue_limit 0":
				pm["start_delay"] = "5s"
				pm["queue_limit"] = 0
			case "dependency on missing task":
				for _, t := range pm["tasks"].(map[string]interface{}) {
					t.(map[string]interface{})["depends_on"] = []string{"no-such-task"}
					break
				}
			case "dependency on another pipeline's task":
				tree["other_pipe_zz"] = map[string]interface{}{"tasks": map[string]interface{}{"foreign-task": map[string]interface{}{"script": []string{"true"}}}}
				for _, t := range pm["tasks"].(map[string]interface{}) {
					t.(map[string]interface{})["depends_on"] = []string{"foreign-task"}
					break
				}
			case "unknown strategy":
				pm["queue_strategy"] = "newest"
			case "queue_strategy integer 2":
				pm["queue_strategy"] = 2 // an unquoted YAML integer that names no strategy
			case "queue_strategy integer -1":
				pm["queue_strategy"] = -1
			case "queue_strategy integer 1 quoted":
				pm["queue_strategy"] = "1"
			case "dependency with empty name":
				for _, t := range pm["tasks"].(map[string]interface{}) {
					t.(map[string]interface{})["depends_on"] = []string{""}
					break
				}
			case "dependency that is a YAML null":
				for _, t := range pm["tasks"].(map[string]interface{}) {
					t.(map[string]interface{})["depends_on"] = []interface{}{nil}
					break
				}
			case "start_delay -1s with queue_limit":
				pm["start_delay"] = "-1s"
				pm["queue_limit"] = 2
			case "dependency on missing task beside valid ones":
				var names []string
				for n := range pm["tasks"].(map[string]interface{}) {
					names = append(names, n)
				}
				sort.Strings(names)
				last := pm["tasks"].(map[string]interface{})[names[len(names)-1]].(map[string]interface{})
				deps := []string{}
				for _, n := range names[:len(names)-1] {
					deps = append(deps, n)
				}
				last["depends_on"] = append(deps, "no-such-task")
			case "concurrency -1 in a later pipeline of the file":
				tree["zzz_last_pipeline"] = map[string]interface{}{"concurrency": -1, "tasks": map[string]interface{}{"t": map[string]interface{}{"script": []string{"true"}}}}
			}
		}
		if err := writeTree(root, files, rand.New(rand.NewSource(c.Seed+1)), order, corrupt); err != nil {
			res.Inconclusive = err.Error()
			return res
		}
		if kind == "unparsable yaml" {
			_ = os.WriteFile(filepath.Join(root, files[target].rel), []byte("pipelines:\n  x:\n    tasks: [unclosed\n   bad indent: {"), 0o644)
		}
		linked := (c.Idx/3/len(kinds))%3 == 1
		if linked {
			// the file with the broken constraint (for duplicates: one of the two files) is a symbolic link
			if err := linkify(root, files, target); err != nil {
				res.Inconclusive = err.Error()
				return res
			}
		}
		got, err := definition.LoadRecursively(pattern)
		res.Evaluations++
		res.Situations = append(res.Situations, fmt.Sprintf("corruption: %s (file is a symbolic link: %v)", kind, linked))
		if err == nil {
			extra := ""
			if got != nil {
				extra = fmt.Sprintf(" (constraint check of the result: %v)", validityViolations(got))
			}
			find("C17:invalid-definitions-loaded", "a definition set with one broken constraint (%s in %s) loaded without error%s", kind, files[target].rel, extra)
		}
	case 2: // Equals over reflection-driven single-field mutations
		base := definition.PipelinesDef{Pipelines: map[string]definition.PipelineDef{}}
		for _, f := range files {
			for n, p := range f.pipes {
				if p.Concurrency == 0 {
					p.Concurrency = 1
				}
				p.SourcePath = f.rel
				base.Pipelines[n] = p
			}
		}
		cp := deepCopyDefs(base)
		res.Evaluations++
		if !base.Equals(cp) || !cp.Equals(base) {
			find("C17:equals-false-for-identical-definitions", "Equals(x, deepcopy(x)) is false")
		}
		muts, unsupported := mutateAll(r, base)
		if unsupported != "" {
			res.Inconclusive = "the reflection-driven mutator does not know how to perturb " + unsupported + " (new field?): extend checks/c17.go"
			return res
		}
		for _, m := range muts {
			res.Evaluations++
			res.Situations = append(res.Situations, "edit: "+m.kind)
			a, b := base.Equals(m.def), m.def.Equals(base)
			if a != b {
				find("C17:equals-not-symmetric", "Equals(x,y)=%v but Equals(y,x)=%v after %s", a, b, m.desc)
			}
			if a || b {
				find("C17:edit-not-detected-by-equals", "Equals reports no change after %s", m.desc)
			}
		}
	}
	return res
}

func deepCopyDefs(d definition.PipelinesDef) definition.PipelinesDef {
	out := definition.PipelinesDef{Pipelines: map[string]definition.PipelineDef{}}
	for n, p := range d.Pipelines {
		q := p
		if p.QueueLimit != nil {
			l := *p.QueueLimit
			q.QueueLimit = &l
		}
		if p.Env != nil {
			q.Env = map[string]string{}
			for k, v := range p.Env {
				q.Env[k] = v
			}
		}
		q.Tasks = map[string]definition.TaskDef{}
		for tn, t := range p.Tasks {
			u := t
			u.Script = append([]string(nil), t.Script...)
			u.DependsOn = append([]string(nil), t.DependsOn...)
			if t.Env != nil {
				u.Env = map[string]string{}
				for k, v := range t.Env {
					u.Env[k] = v
				}
			}
			q.Tasks[tn] = u
		}
		out.Pipelines[n] = q
	}
	return out
}

type c17mut struct {
	def  definition.PipelinesDef
	kind string
	desc string
}

// perturb returns mutated copies of a value of a field, by kind; ok=false if the kind is unknown
func perturb(r *rand.Rand, v reflect.Value) (out []reflect.Value, labels []string, ok bool) {
	t := v.Type()
	mk := func(x interface{}) reflect.Value { return reflect.ValueOf(x).Convert(t) }
	switch {
	case t == reflect.TypeOf(time.Duration(0)):
		return []reflect.Value{mk(v.Interface().(time.Duration) + time.Second), mk(v.Interface().(time.Duration) + 1)}, []string{"+1s", "+1ns"}, true
	case t.Kind() == reflect.Int:
		return []reflect.Value{mk(int(v.Int()) + 1)}, []string{"+1"}, true
	case t.Kind() == reflect.Bool:
		return []reflect.Value{mk(!v.Bool())}, []string{"toggle"}, true
	case t.Kind() == reflect.String:
		return []reflect.Value{mk(v.String() + "x")}, []string{"append char"}, true
	case t.Kind() == reflect.Ptr && t.Elem().Kind() == reflect.Int:
		if v.IsNil() {
			z, one := 0, 1
			return []reflect.Value{reflect.ValueOf(&z), reflect.ValueOf(&one)}, []string{"nil->0", "nil->1"}, true
		}
		n := int(v.Elem().Int()) + 1
		res := []reflect.Value{reflect.ValueOf(&n), reflect.Zero(t)}
		lab := []string{"+1", "->nil"}
		return res, lab, true
	case t.Kind() == reflect.Slice && t.Elem().Kind() == reflect.String:
		cur := v.Interface().([]string)
		var outs [][]string
		var labs []string
		outs = append(outs, append(append([]string(nil), cur...), "extra"))
		labs = append(labs, "append element")
		if len(cur) > 0 {
			outs = append(outs, append([]string(nil), cur[1:]...))
			labs = append(labs, "drop element")
			e := append([]string(nil), cur...)
			e[len(e)-1] += "!"
			outs = append(outs, e)
			labs = append(labs, "edit element")
		}
		if len(cur) > 1 && cur[0] != cur[1] {
			s := append([]string(nil), cur...)
			s[0], s[1] = s[1], s[0]
			outs = append(outs, s)
			labs = append(labs, "swap elements")
		}
		// the boundaries between the entries are part of the configuration (every script entry is a command of its own):
		// the same text distributed differently over the entries is another list (seed C17-m: lists compared after joining them)
		outs = append(outs, append(append([]string(nil), cur...), ""))
		labs = append(labs, "append empty element")
		outs = append(outs, append([]string{""}, cur...))
		labs = append(labs, "prepend empty element")
		if len(cur) > 1 {
			for _, sep := range []string{"\n", "", " ", ",", "; ", "\x00", "\r\n", "\t"} {
				m := append([]string{cur[0] + sep + cur[1]}, cur[2:]...)
				outs = append(outs, m)
				labs = append(labs, fmt.Sprintf("merge two elements with %q", sep))
			}
		}
		if len(cur) > 0 {
			for _, sep := range []string{"\n", " ", ","} {
				e := cur[r.Intn(len(cur))]
				if i := strings.Index(e, sep); i >= 0 {
					var s []string
					done := false
					for _, x := range cur {
						if x == e && !done {
							s = append(s, e[:i], e[i+len(sep):])
							done = true
						} else {
							s = append(s, x)
						}
					}
					outs = append(outs, s)
					labs = append(labs, fmt.Sprintf("split an element at %q", sep))
				}
			}
		}
		for _, o := range outs {
			out = append(out, reflect.ValueOf(o))
		}
		return out, labs, true
	case t.Kind() == reflect.Map && t.Elem().Kind() == reflect.String:
		cur := v.Interface().(map[string]string)
		cp := func() map[string]string {
			m := map[string]string{}
			for k, x := range cur {
				m[k] = x
			}
			return m
		}
		m1 := cp()
		m1["NEWKEY_EMPTY"] = ""
		outs := []map[string]string{m1}
		labs := []string{"add key with empty value"}
		m2 := cp()
		m2["NEWKEY"] = "v"
		outs = append(outs, m2)
		labs = append(labs, "add key")
		for k, x := range cur {
			m3 := cp()
			m3[k] = x + "!"
			outs = append(outs, m3)
			labs = append(labs, "change value")
			m4 := cp()
			delete(m4, k)
			m4[k+"_RENAMED"] = x
			outs = append(outs, m4)
			labs = append(labs, fmt.Sprintf("rename key (value empty=%v)", x == ""))
			m5 := cp()
			delete(m5, k)
			outs = append(outs, m5)
			labs = append(labs, "remove key")
			break
		}
		for _, o := range outs {
			out = append(out, reflect.ValueOf(o))
		}
		return out, labs, true
	}
	return nil, nil, false
}

func mutateAll(r *rand.Rand, base definition.PipelinesDef) ([]c17mut, string) {
	var muts []c17mut
	var names []string
	for n := range base.Pipelines {
		names = append(names, n)
	}
	sort.Strings(names)
	if len(names) == 0 {
		return nil, ""
	}
	// set-level edits
	{
		d := deepCopyDefs(base)
		delete(d.Pipelines, names[0])
		muts = append(muts, c17mut{d, "remove pipeline", "removing pipeline " + names[0]})
		d = deepCopyDefs(base)
		d.Pipelines["brand_new"] = c17pipeline(r)
		muts = append(muts, c17mut{d, "add pipeline", "adding a pipeline"})
		d = deepCopyDefs(base)
		p := d.Pipelines[names[0]]
		delete(d.Pipelines, names[0])
		d.Pipelines[names[0]+"_renamed"] = p
		muts = append(muts, c17mut{d, "rename pipeline", "renaming pipeline " + names[0]})
	}
	pn := names[r.Intn(len(names))]
	pt := reflect.TypeOf(definition.PipelineDef{})
	for i := 0; i < pt.NumField(); i++ {
		f := pt.Field(i)
		cur := reflect.ValueOf(base.Pipelines[pn]).Field(i)
		if f.Name == "Tasks" {
			// map of structs: add / remove / rename entry, recurse into one task
			var tns []string
			for tn := range base.Pipelines[pn].Tasks {
				tns = append(tns, tn)
			}
			sort.Strings(tns)
			d := deepCopyDefs(base)
			p := d.Pipelines[pn]
			p.Tasks["added-task"] = definition.TaskDef{Script: []string{"true"}}
			d.Pipelines[pn] = p
			muts = append(muts, c17mut{d, "PipelineDef.Tasks add entry", "adding a task to " + pn})
			if len(tns) > 0 {
				d = deepCopyDefs(base)
				p = d.Pipelines[pn]
				delete(p.Tasks, tns[0])
				d.Pipelines[pn] = p
				muts = append(muts, c17mut{d, "PipelineDef.Tasks remove entry", "removing task " + tns[0]})
				d = deepCopyDefs(base)
				p = d.Pipelines[pn]
				t := p.Tasks[tns[0]]
				delete(p.Tasks, tns[0])
				p.Tasks[tns[0]+"-renamed"] = t
				d.Pipelines[pn] = p
				muts = append(muts, c17mut{d, "PipelineDef.Tasks rename entry", "renaming task " + tns[0]})
				tn := tns[r.Intn(len(tns))]
				tt := reflect.TypeOf(definition.TaskDef{})
				for k := 0; k < tt.NumField(); k++ {
					tf := tt.Field(k)
					vals, labs, ok := perturb(r, reflect.ValueOf(base.Pipelines[pn].Tasks[tn]).Field(k))
					if !ok {
						return nil, "TaskDef." + tf.Name + " (" + tf.Type.String() + ")"
					}
					for vi, nv := range vals {
						d := deepCopyDefs(base)
						p := d.Pipelines[pn]
						t := p.Tasks[tn]
						reflect.ValueOf(&t).Elem().Field(k).Set(nv)
						p.Tasks[tn] = t
						d.Pipelines[pn] = p
						muts = append(muts, c17mut{d, "TaskDef." + tf.Name + " " + labs[vi], fmt.Sprintf("%s of TaskDef.%s of task %s in %s (%v -> %v)", labs[vi], tf.Name, tn, pn, reflect.ValueOf(base.Pipelines[pn].Tasks[tn]).Field(k).Interface(), nv.Interface())})
					}
				}
			}
			continue
		}
		vals, labs, ok := perturb(r, cur)
		if !ok {
			return nil, "PipelineDef." + f.Name + " (" + f.Type.String() + ")"
		}
		for vi, nv := range vals {
			d := deepCopyDefs(base)
			p := d.Pipelines[pn]
			reflect.ValueOf(&p).Elem().Field(i).Set(nv)
			d.Pipelines[pn] = p
			curStr := fmt.Sprint(cur.Interface())
			if cur.Kind() == reflect.Ptr && !cur.IsNil() {
				curStr = fmt.Sprint(cur.Elem().Interface())
			}
			muts = append(muts, c17mut{d, "PipelineDef." + f.Name + " " + labs[vi], fmt.Sprintf("%s of PipelineDef.%s of %s (was %s)", labs[vi], f.Name, pn, curStr)})
		}
	}
	return muts, ""
}

func init() {
	register(&Check{
		ID: "C17", Level: "exploration",
		Rule:        "three case kinds over generated definition sets (1-4 files pipelines.yml / pipelines.yaml in nested directories incl. non-ASCII names, 1-3 pipelines each over ALL fields, emitted through yaml.v2 from a generic tree; in a quarter of the valid sets and a third of the corrupted ones one file is a symbolic link to a file of another name: strategy as string, durations as strings, zero values sometimes explicit sometimes omitted): (a) valid set: LoadRecursively must succeed, satisfy an independent re-statement of every listed constraint, equal the generating definitions after defaults (SourcePath = file), and give the same result when the same files are created in another order; (b) one constraint broken in one place (19 corruption kinds incl. integer queue strategies, blank and null dependencies, duplicate name in a second file (different and verbatim content) and unparsable YAML): load must fail; (c) Equals: reflexive on a deep copy, symmetric, and false for every single-field edit produced by a REFLECTION-driven mutator over PipelinesDef -> PipelineDef -> TaskDef (int, *int incl. nil<->0, Duration, bool, string, []string append/drop/edit/swap, append/prepend an empty entry, merge two neighbouring entries with one of 8 separators (newline, nothing, blank, comma, ...), split an entry at a separator, map[string]string add key with empty value / rename key whose value is empty / change value / remove key, map of structs add / remove / rename entry); a field of a kind the mutator cannot perturb makes the run inconclusive (exit 2), so a new field cannot be silently skipped. A situation is the corruption kind resp. (field, operator). A quarter of the valid sets hold a pipeline that says nothing (written as YAML null or {}): it loads with every default",
		Assumptions: []string{"duplicate keys inside one YAML file are merged by yaml.v2 (last wins) and are not generated"},
		Cases:       func(t string) int { return tierN(t, 900, 24000) },
		RunCase:     c17LoadCase,
		MinDistinct: 40,
	})
}
