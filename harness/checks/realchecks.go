package checks

import (
	"os"
	"time"

	"pxverif/drv"
)

func init() {
	auxCommands["emit"] = drv.EmitMain
	auxCommands["dumpenv"] = drv.DumpEnvMain
}

func selfExe() string {
	e, _ := os.Executable()
	return e
}

func init() {
	register(&Check{
		ID: "C18", Level: "exploration",
		Rule:        "REAL processes through the real TaskRunner / PgidExecutor / shell interpreter: every command is `pxcheck dumpenv`, which writes its complete environment (NUL separated) and its arguments (rendered template values) to stdout; the harness reads it back through FileOutputStore.Reader and compares, for 10 tracked names, value and presence with task-level ?: pipeline-level ?: process-level ?: unset; names are drawn so that every subset of the three levels defines some name, incl. process-only names that START WITH a job-level name or with TASK_NAME; values with spaces, both quote kinds, $X, backticks, '=', newlines, tabs, UTF-8 beyond BMP, 64 KiB, empty strings shadowing lower levels; a shell-level read (printf \"$N\") covers the interpreter's view; 1-3 pipelines x 2-5 jobs running concurrently with per-job template variables; a variable that only other jobs have must be a rendering error; a job passing the reserved identity variable must run nothing. A situation is the set of levels defining a name (T/P/X)",
		Assumptions: []string{"template variables use a shell-safe alphabet (the renderer pastes text into shell source; quoting is not what the property is about)", "the process environment is global to the worker process: cases of one worker run one after the other"},
		Cases:       func(t string) int { return tierN(t, 96, 2400) },
		RunCase: func(c *CaseCtx) *CaseResult {
			if c.Idx < tierN(c.Tier, 1, 6) {
				// the pipeline-level environment of a definition that arrives through the REAL reload path of the binary
				bin := os.Getenv("PRUNNER_BIN")
				if bin == "" {
					return &CaseResult{Idx: c.Idx, Inconclusive: "PRUNNER_BIN not set (bin/check builds cmd/prunner from /repo)"}
				}
				return simpleCase(c, drv.RunReloadBinaryCase(c.Seed+int64(c.Idx), bin, c.TmpDir), 1)
			}
			return simpleCase(c, drv.RunEnvCase(c.Seed, selfExe(), c.TmpDir), 24)
		},
		MinDistinct: 6,
	})
	register(&Check{
		ID: "C19", Level: "exploration",
		Rule:        "REAL processes: every command is `pxcheck emit <plan>`, a deterministic generator that writes PRNG bytes (binary or line-structured UTF-8 text) to stdout and stderr in interleaved chunks of 1 B - 256 KiB, every chunk tagged with (job tag from a job variable, task, command, stream, offset) so that foreign bytes are recognisable wherever they land; sizes 0, 1, 2, 100, 4095, 4096, 65535-65537, 200000 (thorough: 1 MiB, 1 MiB+1, 8 MiB), with and without trailing newline, 1-4 commands per task, 1-5 tasks per job (some with dependencies), 1-6 jobs at once over 1-2 pipelines with concurrency 1-3, commands that fail midway (output complete up to the failure; later commands only with allow_failure), a slow task that is canceled (stored output must be a prefix of the written stream). Task names: plain, spaces, dots, unicode, names that are prefixes of each other, names with '/', '..', '%'. Oracle: bytes from FileOutputStore.Reader == recomputed stream (length, SHA-256, first differing offset), GET /job/logs equal for UTF-8 payloads, 404 for a task the job does not have (also one that another job has), no log file outside the job's directory. Every 16th case: the log file of ONE task cannot be created (name longer than a file name may be / path taken by a directory) after a sibling finished and while another still writes - what the siblings wrote is returned completely by the store and by GET /job/logs. A situation is (#commands, size class, lines?, canceled?, task-name class). Every 16th case: two task names related through the store's escaping (build/app and build%2Fapp, load 100% and load 100%25, ...), the second task never ran: store and API return nothing for it",
		Assumptions: []string{"stdout and stderr are compared separately; relative order between the two streams is not part of the statement"},
		Cases:       func(t string) int { return tierN(t, 64, 1600) },
		RunCase: func(c *CaseCtx) *CaseResult {
			if c.Idx%16 == 9 {
				// two task names related through the escaping of the file output store; the second task never ran
				return simpleCase(c, drv.RunLogNamePairCase(int64(c.Idx/16), c.TmpDir), 4)
			}
			if c.Idx%16 == 5 {
				// the log file of one task cannot be created: the output of its siblings is captured all the same
				return simpleCase(c, drv.RunLogCreationFaultCase(int64(c.Idx/16), c.TmpDir), 4)
			}
			o := drv.OutputOpts{Exe: selfExe(), WorkDir: c.TmpDir, MaxBytes: 200000}
			if c.Tier == "thorough" && c.Idx%8 == 0 {
				o.Big, o.MaxBytes = true, 8<<20
			}
			return simpleCase(c, drv.RunOutputCase(c.Seed, o), 16)
		},
		MinDistinct: 15,
	})
	nShapes := len(drv.ProcShapes())
	register(&Check{
		ID: "C20", Level: "exploration",
		Rule:        "REAL process trees from a grammar (16 shapes: plain, nested bash -c depth 2 and 4, shell-level background jobs with and without wait, interpreter-level `cmd &`, pipelines of 3 stages at interpreter and shell level, subshells, children that trap '' INT, INT-ignoring parent with forked grandchild, a leaf that exits 100 ms after INT, two commands in sequence, and two shapes with an INT-ignoring process that is detached from the task's output) x cancel instant (tree fully up, immediately after the schedule request, after a random part of the start-up) x CancelJob / forced Shutdown (of a runner that also holds 12 jobs that ended earlier) x 0-2 other jobs with their own trees; kill timeout 300 ms; plus cases with kill timeout 0 / negative / 150 ms / 700 ms on interrupt-ignoring trees next to a control job whose process dies on the interrupt (its cancel-to-report latency calibrates the allowance: finished within K + max(1.5 s, 10 x control)). plus forced shutdowns with a kill timeout of 5.5 s / 6.5 s (nothing of the job may be alive when Shutdown returns); plus two shapes whose leader prints a line when interrupted while an interrupt-ignoring descendant holds the merged output / both streams; plus forced shutdowns over 4-5 running jobs that ALL ignore the interrupt (kill timeout 0.9 / 1.2 s; every job finished within kill timeout + calibrated allowance, i.e. stopped side by side and not one after the other); plus jobs of two tasks canceled exactly in the gap between them (loop parked through hook H1) while a background command of the first task is alive. Every process carries a per-run, per-job marker in its environment; oracle = /proc scan (environ + state != Z) at the instant the job is first observed completed, and again after kill timeout + allowance; elapsed time is counted in heartbeats of the harness process (limit kill timeout + 5 s). Processes of uncanceled jobs must still be alive. A situation is (shape, cancel instant, via shutdown, #others, #processes up at cancel)",
		Assumptions: []string{"processes that leave the process group (setsid) are excluded by the statement", "the timed bound uses a 5 s allowance measured in heartbeats so that a stalled machine stalls the clock"},
		Cases: func(t string) int {
			return tierN(t, nShapes*3, nShapes*3*2*3*8) + tierN(t, 12, 240) + tierN(t, 6, 120) + tierN(t, 4, 80) + tierN(t, 2, 8) + tierN(t, 2, 16)
		},
		RunCase: func(c *CaseCtx) *CaseResult {
			if base := tierN(c.Tier, nShapes*3, nShapes*3*2*3*8) + tierN(c.Tier, 12, 240) + tierN(c.Tier, 6, 120) + tierN(c.Tier, 4, 80) + tierN(c.Tier, 2, 8); c.Idx >= base {
				// a forced shutdown over 4-5 running jobs that all ignore the interrupt: every one is finished within the kill timeout
				return simpleCase(c, drv.RunForcedShutdownManyIgnorersCase(int64(c.Idx-base), c.TmpDir), 1)
			}
			if base := tierN(c.Tier, nShapes*3, nShapes*3*2*3*8) + tierN(c.Tier, 12, 240) + tierN(c.Tier, 6, 120) + tierN(c.Tier, 4, 80); c.Idx >= base {
				// a kill timeout far longer than the default (5.5 s / 6.5 s): a forced Shutdown returns only when nothing is left
				return simpleCase(c, drv.RunLongKillTimeoutShutdownCase(int64(c.Idx-base), c.TmpDir), 1)
			}
			if base := tierN(c.Tier, nShapes*3, nShapes*3*2*3*8) + tierN(c.Tier, 12, 240) + tierN(c.Tier, 6, 120); c.Idx >= base && c.Idx < base+tierN(c.Tier, 4, 80) {
				// two tasks running at once, one of them ignores the interrupt
				return simpleCase(c, drv.RunProcTwoTaskCase(c.Seed, c.TmpDir, c.Idx-base), 2)
			}
			if base := tierN(c.Tier, nShapes*3, nShapes*3*2*3*8) + tierN(c.Tier, 12, 240); c.Idx >= base && c.Idx < base+tierN(c.Tier, 6, 120) {
				// canceled exactly between two tasks while a background command of the first task is alive
				return simpleCase(c, drv.RunProcGapCase(c.Seed, c.TmpDir, c.Idx-base), 3)
			}
			if base := tierN(c.Tier, nShapes*3, nShapes*3*2*3*8); c.Idx >= base {
				// the timing clause under other kill timeouts (0, negative, 150 ms, 700 ms), calibrated by a control job
				return simpleCase(c, drv.RunKillTimeoutCase(c.Seed, c.TmpDir, c.Idx-base), 4)
			}
			o := drv.ProcOpts{Shape: c.Idx % nShapes, CancelAt: (c.Idx / nShapes) % 3, ViaShutdown: (c.Idx/(nShapes*3))%2 == 1, Others: (c.Idx / (nShapes * 6)) % 3, WorkDir: c.TmpDir}
			if c.Tier != "thorough" && c.Idx%6 == 5 {
				// the quick tier has one round of shapes only: every 6th case ends the job by a forced shutdown instead
				o.ViaShutdown = true
				o.Others = c.Idx % 2
			}
			return simpleCase(c, drv.RunProcCase(c.Seed, o), 12)
		},
		MinDistinct:   20,
		WorkerTimeout: func(t string) time.Duration { return 40 * time.Minute },
	})
}
