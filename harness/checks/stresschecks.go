package checks

import (
	"fmt"
	"sort"
	"time"

	"pxverif/drv"
)

func stressCase(c *CaseCtx, o drv.StressOpts, props ...string) *CaseResult {
	sr := drv.RunStress(c.Seed, o)
	res := &CaseResult{Idx: c.Idx, Events: sr.Events, Inconclusive: sr.Inconclusive, Extra: map[string]int{"jobs": sr.Jobs}}
	for _, f := range sr.Findings {
		for _, p := range props {
			if f.Has(p) {
				res.Findings = append(res.Findings, f)
				break
			}
		}
	}
	for k, v := range sr.Overlap {
		res.Extra["ov:"+k] = v
	}
	seen := map[string]bool{}
	for _, p := range props {
		for s := range sr.Situations[p] {
			if !seen[s] {
				seen[s] = true
				res.Situations = append(res.Situations, s)
			}
		}
		res.Evaluations += sr.Evaluations[p]
	}
	// distinct interleavings: hash of the order of runner events per job would explode; use the set of overlapping op pairs
	var pairs []string
	for k := range sr.Overlap {
		pairs = append(pairs, k)
	}
	sort.Strings(pairs)
	for _, p := range pairs {
		res.Situations = append(res.Situations, "overlap "+p)
	}
	res.Evaluations += len(sr.Log)
	if len(res.Findings) > 0 {
		res.Inconclusive = ""
		res.Sample = sr.Sample
	} else if c.Idx%40 == 0 {
		res.Sample = map[string]any{"case": c.Idx, "opts": fmt.Sprintf("%+v", o), "events": len(sr.Log), "jobs": sr.Jobs, "overlap": sr.Overlap}
	}
	return res
}

func raceOpts(idx int) drv.StressOpts {
	o := drv.StressOpts{
		Schedulers: 3, Cancelers: 2, Readers: 3, Reloader: true, Saver: true, OpsPerClient: 120,
		Retention: 1 + idx%3, Shutdown: idx % 3, Parker: idx%4 == 0, HTTPReaders: true, FailProb: 0.15, MaxPauseUs: 150,
		BadVars: idx%2 == 1,
	}
	if idx%2 == 0 {
		o.RealDelay = 2 * time.Millisecond
	}
	if idx%6 == 5 {
		// the real task runner (shell builtins only): its own synchronisation is part of what runs concurrently
		o.RealRunner = true
		o.OpsPerClient = 60
	}
	return o
}

// pairs of operations that take the lock in conflicting modes and therefore must have been observed in flight together
var requiredOverlaps = []string{"save|snapshot", "list|save", "readjob|save", "save|schedule", "cancel|save", "reload|schedule", "cancel|schedule", "schedule|snapshot", "http-list|save", "reload|save"}

func init() {
	register(&Check{
		ID: "C13", Level: "exploration", Race: true,
		Rule:        "stress histories in a -race build (race detector implies checkptr): 3 schedulers, 2 cancelers, 3 readers (ReadJob, IterateJobs reading every field incl. task slices and variables, ListPipelines, the HTTP job list handler), 1 reloader, 1 saver with retention_count 1-3 so that saves delete jobs, the persist loop on a recording store, a real 2 ms start delay on one pipeline (timer callbacks), failing tasks (fail-fast cancel from the task callback), slow-to-stop tasks, optional random parking of scheduler loops, directed cases (forced shutdown against saves that remove jobs; the real FileOutputStore shared by the real task runners of concurrent jobs, saves that remove logs and a log reader, with a task whose log file cannot be created), and a graceful or forced Shutdown overlapping the traffic. GORACE=halt_on_error=0 with log_path; report blocks are counted in the log files and de-duplicated by the pair of innermost prunner frames. Coverage is measured: the run is inconclusive unless every lock-conflicting pair of operations was observed in flight together at least 20 times. distinct_nontrivial counts distinct overlapping operation pairs plus offline-oracle situations; evaluations counts recorded events",
		Assumptions: []string{"the race detector only sees races on paths the workload reaches and only with the synchronisation it intercepts (all of it is Go-native here)"},
		Cases:       func(t string) int { return tierN(t, 96, 1600) },
		RunCase: func(c *CaseCtx) *CaseResult {
			if c.Idx%6 == 2 {
				// directed overlap: a forced Shutdown walks over the jobs while saves keep removing finished ones (3 rounds)
				var last *CaseResult
				for round := 0; round < 3; round++ {
					r := simpleCase(c, drv.RunShutdownVsRemovingSaves(c.Seed+int64(round)), 0)
					if last != nil {
						r.Evaluations += last.Evaluations
						r.Events += last.Events
					}
					last = r
				}
				return last
			}
			if c.Idx%12 == 4 {
				// the real file output store under everything that uses it at once
				return simpleCase(c, drv.RunOutputStoreRace(c.Seed, c.TmpDir), 0)
			}
			return stressCase(c, raceOpts(c.Idx), "C13")
		},
		Post: func(tier string, counters map[string]int) []string {
			var out []string
			for _, p := range requiredOverlaps {
				if counters["ov:"+p] < 20 {
					out = append(out, fmt.Sprintf("operation pair %s overlapped only %d times (need 20)", p, counters["ov:"+p]))
				}
			}
			return out
		},
		MinDistinct: 10,
	})
}

// linCase: a short stress history whose recorded API history is checked for linearizability against the sequential
// admission model with porcupine (per pipeline), plus the offline log checkers
func linCase(c *CaseCtx, props ...string) *CaseResult {
	o := drv.StressOpts{Schedulers: 3, Cancelers: 2, Readers: 2, OpsPerClient: 7 + c.Idx%6, FailProb: 0.1, MaxPauseUs: 120, Parker: c.Idx%3 == 0}
	sr := drv.RunStress(c.Seed, o)
	res := &CaseResult{Idx: c.Idx, Events: sr.Events, Inconclusive: sr.Inconclusive, Extra: map[string]int{}}
	keep := func(f drv.Finding) {
		for _, p := range props {
			if f.Has(p) {
				res.Findings = append(res.Findings, f)
				return
			}
		}
	}
	for _, f := range sr.Findings {
		keep(f)
	}
	if sr.Inconclusive == "" {
		names := map[string]string{}
		for i := range sr.Final.Jobs {
			names[sr.Final.Jobs[i].ID] = fmt.Sprintf("J%d", i+1)
		}
		verdict, fs, nops := drv.CheckLinearizable(sr, func(id string) string {
			if n, ok := names[id]; ok {
				return n
			}
			if len(id) > 8 {
				return id[:8]
			}
			return id
		})
		res.Extra["lin_"+verdict]++
		res.Extra["lin_ops"] += nops
		res.Evaluations += nops
		for _, f := range fs {
			keep(f)
		}
		res.Situations = append(res.Situations, fmt.Sprintf("linearizability %s ops~%d", verdict, nops/10*10))
	}
	var pairs []string
	for k := range sr.Overlap {
		pairs = append(pairs, k)
	}
	sort.Strings(pairs)
	for _, p := range pairs {
		res.Situations = append(res.Situations, "overlap "+p)
	}
	if len(res.Findings) > 0 {
		res.Inconclusive = ""
		res.Sample = sr.Sample
		if res.Sample == nil {
			res.Sample = map[string]any{"seed": c.Seed, "finding": res.Findings[0].Detail}
		}
	}
	return res
}
