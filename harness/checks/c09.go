package checks

import (
	"encoding/json"
	"fmt"
	"math"
	"math/rand"
	"os"
	"os/exec"
	"path/filepath"
	"runtime"
	"sort"
	"strconv"
	"strings"
	"sync"
	"syscall"
	"time"

	"github.com/gofrs/uuid"

	"github.com/Flowpack/prunner/store"

	"pxverif/drv"
)

// ---- self-describing snapshots: generation g has n_g jobs, every job's Pipeline is "gen-<g>-of-<n_g>" ----

func genSize(seed int64, g int, scale int) int {
	r := rand.New(rand.NewSource(seed*1000 + int64(g)))
	switch g % 5 {
	case 0:
		return 0
	case 1:
		return 1 + r.Intn(3)
	}
	return 1 + r.Intn(scale)
}

var nastyStrings = []string{"plain", "quote\"inside", "back\\slash", "new\nline\ttab", "ctrl\x01\x1f", "unicode-äöü-€-𝄞", "<html>&amp;", "\\u0041 looks like an escape", "", " ", "{\"json\":[1,2]}", "  "}

func genSnapshot(seed int64, g int, scale int) *store.PersistedData {
	n := genSize(seed, g, scale)
	r := rand.New(rand.NewSource(seed*7919 + int64(g)))
	d := &store.PersistedData{Jobs: make([]store.PersistedJob, 0, n)}
	base := time.Date(2024, 5, 17, 10, 0, 0, 123456789, time.UTC)
	for i := 0; i < n; i++ {
		id, _ := uuid.NewV4()
		start := base.Add(time.Duration(i) * time.Second)
		end := start.Add(time.Minute)
		errText := nastyStrings[r.Intn(len(nastyStrings))]
		j := store.PersistedJob{
			ID: id, Pipeline: fmt.Sprintf("gen-%d-of-%d", g, n), Completed: i%2 == 0, Canceled: i%3 == 0, Created: base, Start: &start, End: &end,
			User: nastyStrings[r.Intn(len(nastyStrings))],
			Variables: map[string]interface{}{
				"s": nastyStrings[r.Intn(len(nastyStrings))], "f": r.Float64() * 1e-7, "big": strings.Repeat("x", r.Intn(600)),
				nastyStrings[r.Intn(len(nastyStrings))]: []interface{}{1.5, "a", nil, true, map[string]interface{}{"k": "v"}},
			},
			Tasks: []store.PersistedTask{
				{Name: "build", Script: []string{"make " + nastyStrings[r.Intn(len(nastyStrings))]}, Status: "done", Start: &start, End: &end},
				{Name: "test", Script: []string{"go test"}, DependsOn: []string{"build"}, Status: "error", Error: &errText, ExitCode: int16(r.Intn(255))},
			},
		}
		d.Jobs = append(d.Jobs, j)
	}
	if unencodable(g) && len(d.Jobs) > 0 {
		// a snapshot that cannot be encoded (NaN job variable passed through the embedding API): Save must fail and leave
		// the previous snapshot in place
		d.Jobs[len(d.Jobs)/2].Variables["nan"] = math.NaN()
	}
	return d
}

// unencodable: generation 3 (of the victim's 3-4 saves) carries a value JSON cannot represent
func unencodable(g int) bool { return g == 3 }

// saverMain is the victim process: `pxcheck saver <dir> <seed> <gens> <scale>`; acknowledges each successful save with
// mkdir <dir>/ack-<g>, each failed save with mkdir <dir>/err-<g> (mkdir is not among the injected system calls)
func saverMain(args []string) int {
	runtime.LockOSThread()
	dir := args[0]
	seed, _ := strconv.ParseInt(args[1], 10, 64)
	gens, _ := strconv.Atoi(args[2])
	scale, _ := strconv.Atoi(args[3])
	st, err := store.NewJSONDataStore(dir)
	if err != nil {
		return 3
	}
	first := 1
	if len(args) > 4 {
		first, _ = strconv.Atoi(args[4])
	}
	for g := first; g <= gens; g++ {
		d := genSnapshot(seed, g, scale)
		if err := st.Save(d); err != nil {
			_ = os.Mkdir(filepath.Join(dir, fmt.Sprintf("err-%d", g)), 0o755)
			continue
		}
		_ = os.Mkdir(filepath.Join(dir, fmt.Sprintf("ack-%d", g)), 0o755)
	}
	return 0
}

// dirState is what a fresh process finds in a store directory
type dirState struct {
	Exists   bool   `json:"exists"`
	Size     int    `json:"size"`
	LoadErr  string `json:"loadErr,omitempty"`
	StdErr   string `json:"stdErr,omitempty"`
	Gen      int    `json:"gen"`
	Count    int    `json:"count"`
	Declared int    `json:"declared"`
	Mixed    bool   `json:"mixed,omitempty"`
	Tmp      int    `json:"tmpFiles"`
}

func inspectDir(dir string) dirState { return inspectDirMode(dir, true) }

// inspectDirMode: static=false means a writer may replace the file between the raw read and Load, so the two views
// are judged separately and not compared with each other
func inspectDirMode(dir string, static bool) dirState {
	var s dirState
	raw, err := os.ReadFile(filepath.Join(dir, "data.json"))
	if err == nil {
		s.Exists = true
		s.Size = len(raw)
	}
	tmps, _ := filepath.Glob(filepath.Join(dir, "data.*.tmp"))
	s.Tmp = len(tmps)
	if !s.Exists {
		return s
	}
	st, err := store.NewJSONDataStore(dir)
	if err != nil || st == nil {
		// (a reader opens the directory like every process does; the unchanged code only creates the directory here)
		s.LoadErr = fmt.Sprintf("opening the store: %v", err)
		return s
	}
	d, err := st.Load()
	if err != nil {
		s.LoadErr = err.Error()
		return s
	}
	// independent decode with encoding/json: must be one complete JSON document
	var generic struct {
		Jobs []struct{ Pipeline string }
	}
	dec := json.NewDecoder(strings.NewReader(string(raw)))
	if err := dec.Decode(&generic); err != nil {
		s.StdErr = err.Error()
	} else if dec.More() {
		s.StdErr = "trailing data after the JSON document"
	} else if static && len(generic.Jobs) != len(d.Jobs) {
		s.StdErr = fmt.Sprintf("encoding/json sees %d jobs, Load %d", len(generic.Jobs), len(d.Jobs))
	} else if !static {
		// the raw bytes themselves must be one complete snapshot
		for i, j := range generic.Jobs {
			var g, n int
			if _, err := fmt.Sscanf(j.Pipeline, "gen-%d-of-%d", &g, &n); err != nil || n != len(generic.Jobs) {
				s.StdErr = fmt.Sprintf("raw read: job %d of %d declares %q", i, len(generic.Jobs), j.Pipeline)
				break
			}
		}
	}
	s.Count = len(d.Jobs)
	if len(d.Jobs) == 0 {
		s.Gen, s.Declared = -1, 0 // an empty snapshot does not name its generation
		return s
	}
	for i, j := range d.Jobs {
		var g, n int
		if _, err := fmt.Sscanf(j.Pipeline, "gen-%d-of-%d", &g, &n); err != nil {
			s.LoadErr = "job with unexpected pipeline " + j.Pipeline
			return s
		}
		if i == 0 {
			s.Gen, s.Declared = g, n
		} else if g != s.Gen || n != s.Declared {
			s.Mixed = true
		}
	}
	return s
}

func loadcheckMain(args []string) int {
	b, _ := json.Marshal(inspectDir(args[0]))
	fmt.Println(string(b))
	return 0
}

func init() {
	auxCommands["saver"] = saverMain
	auxCommands["loadcheck"] = loadcheckMain
}

// freshInspect inspects the directory from a fresh process
func freshInspect(exe, dir string) (dirState, error) {
	out, err := exec.Command(exe, "loadcheck", dir).Output()
	var s dirState
	if err != nil {
		return s, err
	}
	err = json.Unmarshal(out, &s)
	return s, err
}

func ackState(dir string, gens int) (maxAck int, errs []int) {
	for g := 1; g <= gens; g++ {
		if _, err := os.Stat(filepath.Join(dir, fmt.Sprintf("ack-%d", g))); err == nil {
			maxAck = g
		}
		if _, err := os.Stat(filepath.Join(dir, fmt.Sprintf("err-%d", g))); err == nil {
			errs = append(errs, g)
		}
	}
	return
}

// judgeDir decides whether the directory content is a complete snapshot of an allowed generation.
// allowed: the set of generations that may be visible
func judgeDir(s dirState, seed int64, scale int, allowed []int, allowAbsent bool) (string, string) {
	if !s.Exists {
		if allowAbsent {
			return "", ""
		}
		return "C09:data-file-absent-after-successful-save", "data.json does not exist although a save had returned successfully"
	}
	if s.Size == 0 {
		return "C09:data-file-empty", "data.json is empty"
	}
	if s.LoadErr != "" {
		return "C09:data-file-not-loadable", "data.json does not load: " + s.LoadErr
	}
	if s.StdErr != "" {
		return "C09:data-file-not-one-complete-document", "data.json: " + s.StdErr
	}
	if s.Mixed {
		return "C09:data-file-mixes-snapshots", "data.json contains jobs of different saves"
	}
	for _, g := range allowed {
		n := genSize(seed, g, scale)
		if n == 0 && s.Count == 0 {
			return "", ""
		}
		if s.Gen == g && s.Count == n && s.Declared == n {
			return "", ""
		}
	}
	if s.Count != s.Declared {
		return "C09:data-file-truncated-snapshot", fmt.Sprintf("data.json holds %d jobs of a snapshot of %d (generation %d)", s.Count, s.Declared, s.Gen)
	}
	return "C09:data-file-is-not-the-expected-snapshot", fmt.Sprintf("data.json holds generation %d (%d jobs); allowed generations %v", s.Gen, s.Count, allowed)
}

type c09job struct {
	kind    string // kill | fault | randkill
	syscall string
	k       int
	errno   string
	delayUs int
}

func countSyscalls(exe, dir string, seed int64, gens, scale int) (map[string]int, error) {
	logf := filepath.Join(dir, "strace.log")
	vdir := filepath.Join(dir, "dry")
	cmd := exec.Command("strace", "-f", "-o", logf, "-e", "trace=openat,write,close,renameat,renameat2,rename", exe, "saver", vdir, fmt.Sprint(seed), fmt.Sprint(gens), fmt.Sprint(scale))
	cmd.Env = append(os.Environ(), "GOMAXPROCS=1")
	if out, err := cmd.CombinedOutput(); err != nil {
		return nil, fmt.Errorf("dry run: %v: %s", err, out)
	}
	b, err := os.ReadFile(logf)
	if err != nil {
		return nil, err
	}
	lines := strings.Split(string(b), "\n")
	if len(lines) == 0 {
		return nil, fmt.Errorf("empty strace log")
	}
	mainTid := strings.Fields(lines[0])[0]
	counts := map[string]int{}
	for _, l := range lines {
		f := strings.Fields(l)
		if len(f) < 2 || f[0] != mainTid {
			continue
		}
		for _, sc := range []string{"openat", "write", "close", "renameat2", "renameat", "rename"} {
			if strings.HasPrefix(f[1], sc+"(") {
				counts[sc]++
				break
			}
		}
	}
	if st, _ := freshInspect(exe, vdir); !st.Exists {
		return nil, fmt.Errorf("dry run left no data.json")
	}
	return counts, nil
}

func runC09(tier string, seed int64) *Outcome {
	o := &Outcome{}
	exe, _ := os.Executable()
	gens, scale := 3, 40
	randKills, faultEvery := 150, 1
	if tier == "thorough" {
		gens, scale = 4, 300
		randKills, faultEvery = 2000, 1
	}
	root, err := os.MkdirTemp(tmpRoot(), "pxc09-")
	if err != nil {
		o.Inconclusive = append(o.Inconclusive, err.Error())
		return o
	}
	defer os.RemoveAll(root)
	counts, err := countSyscalls(exe, root, seed, gens, scale)
	if err != nil {
		o.Inconclusive = append(o.Inconclusive, err.Error())
		return o
	}
	// a temp directory on ANOTHER file system than the data directory: wherever the store creates its temporary file, a
	// save must stay atomic (a rename across file systems is not possible; a copy is not atomic)
	otherTmp := ""
	if st, err := os.Stat(root); err == nil {
		for _, cand := range []string{"/dev/shm", "/run", "/var/tmp", "/tmp"} {
			if cs, err := os.Stat(cand); err == nil {
				if a, ok1 := st.Sys().(*syscall.Stat_t); ok1 {
					if b, ok2 := cs.Sys().(*syscall.Stat_t); ok2 && a.Dev != b.Dev {
						if d, err := os.MkdirTemp(cand, "pxc09-tmp-"); err == nil {
							otherTmp = d
							defer os.RemoveAll(d)
							break
						}
					}
				}
			}
		}
	}
	var jobs []c09job
	for _, sc := range []string{"openat", "write", "close", "renameat", "renameat2", "rename"} {
		for k := 1; k <= counts[sc]; k++ {
			jobs = append(jobs, c09job{kind: "kill", syscall: sc, k: k})
			if k%faultEvery == 0 || sc != "write" || counts[sc] <= 40 {
				errno := map[string]string{"write": "ENOSPC", "openat": "EMFILE", "close": "EIO", "renameat": "EIO", "renameat2": "EIO", "rename": "EIO"}[sc]
				jobs = append(jobs, c09job{kind: "fault", syscall: sc, k: k, errno: errno})
			}
		}
	}
	r := rand.New(rand.NewSource(seed))
	for i := 0; i < randKills; i++ {
		jobs = append(jobs, c09job{kind: "randkill", delayUs: r.Intn(25000)})
	}
	var mu sync.Mutex
	var wg sync.WaitGroup
	sem := make(chan struct{}, 16)
	states := map[string]int{}
	for idx, jb := range jobs {
		wg.Add(1)
		sem <- struct{}{}
		go func(idx int, jb c09job) {
			defer wg.Done()
			defer func() { <-sem }()
			dir := filepath.Join(root, fmt.Sprintf("v%d", idx))
			res := &CaseResult{Idx: idx, Evaluations: 1}
			args := []string{"saver", dir, fmt.Sprint(seed), fmt.Sprint(gens), fmt.Sprint(scale)}
			var cmd *exec.Cmd
			desc := ""
			switch jb.kind {
			case "kill":
				desc = fmt.Sprintf("SIGKILL at %s #%d", jb.syscall, jb.k)
				cmd = exec.Command("strace", append([]string{"-f", "-o", "/dev/null", "-e", "trace=" + jb.syscall, "-e", fmt.Sprintf("inject=%s:signal=SIGKILL:when=%d", jb.syscall, jb.k), exe}, args...)...)
			case "fault":
				desc = fmt.Sprintf("%s at %s #%d", jb.errno, jb.syscall, jb.k)
				cmd = exec.Command("strace", append([]string{"-f", "-o", "/dev/null", "-e", "trace=" + jb.syscall, "-e", fmt.Sprintf("inject=%s:error=%s:when=%d", jb.syscall, jb.errno, jb.k), exe}, args...)...)
			case "randkill":
				desc = fmt.Sprintf("SIGKILL after %d us", jb.delayUs)
				cmd = exec.Command(exe, args...)
			}
			cmd.Env = append(os.Environ(), "GOMAXPROCS=1")
			if otherTmp != "" && idx%2 == 1 {
				cmd.Env = append(cmd.Env, "TMPDIR="+otherTmp)
				desc += " (TMPDIR on another file system)"
			}
			if jb.kind == "randkill" {
				if err := cmd.Start(); err != nil {
					res.Inconclusive = err.Error()
				} else {
					time.Sleep(time.Duration(jb.delayUs) * time.Microsecond)
					_ = cmd.Process.Kill()
					_ = cmd.Wait()
				}
			} else {
				_ = cmd.Run()
			}
			st, err := freshInspect(exe, dir)
			if err != nil {
				res.Inconclusive = "inspect: " + err.Error()
			} else {
				maxAck, errs := ackState(dir, gens)
				// candidates: the last acknowledged generation, or any later one whose rename happened before the
				// process died / before its acknowledgement; a failed save (err-g) must leave the previous one
				allowed := []int{}
				failed := map[int]bool{}
				for _, g := range errs {
					failed[g] = true
				}
				if maxAck > 0 {
					allowed = append(allowed, maxAck)
				}
				for g := maxAck + 1; g <= gens; g++ {
					if failed[g] {
						continue
					}
					allowed = append(allowed, g) // save g may have been renamed into place without being acknowledged yet
					break
				}
				if jb.kind == "fault" {
					// no crash: every save either was acknowledged or reported an error; the file must be the last acknowledged one
					allowed = allowed[:0]
					if maxAck > 0 {
						allowed = append(allowed, maxAck)
					}
				}
				sig, detail := judgeDir(st, seed, scale, allowed, maxAck == 0)
				sit := fmt.Sprintf("%s %s visible=gen%d tmp=%d acked=%d failed=%v", jb.kind, jb.syscall, st.Gen, st.Tmp, maxAck, errs)
				if !st.Exists {
					sit = fmt.Sprintf("%s %s visible=absent tmp=%d acked=%d", jb.kind, jb.syscall, st.Tmp, maxAck)
				}
				res.Situations = []string{sit}
				if sig != "" {
					res.Findings = append(res.Findings, drv.Finding{Props: []string{"C09"}, Sig: sig, Detail: fmt.Sprintf("%s: %s (acknowledged saves up to %d, failed saves %v, state %+v)", desc, detail, maxAck, errs, st), Step: -1})
					res.Sample = map[string]any{"injection": desc, "state": st, "acknowledged": maxAck, "failedSaves": errs, "saver": strings.Join(args, " ")}
				} else if idx%97 == 0 {
					res.Sample = map[string]any{"injection": desc, "state": st, "acknowledged": maxAck, "failedSaves": errs}
				}
				mu.Lock()
				states[sit]++
				mu.Unlock()
			}
			// the process restarts after the crash / fault and saves again (a small snapshot): whatever the interrupted save
			// left behind must not leak into the next one
			if err == nil && len(res.Findings) == 0 && jb.kind != "randkill" {
				restart := exec.Command(exe, "saver", dir, fmt.Sprint(seed), "8", "2", "8")
				restart.Env = append(os.Environ(), "GOMAXPROCS=1")
				_ = restart.Run()
				if st2, err2 := freshInspect(exe, dir); err2 == nil {
					res.Evaluations++
					if _, statErr := os.Stat(filepath.Join(dir, "ack-8")); statErr == nil {
						sig, detail := judgeDir(st2, seed, 2, []int{8}, false)
						if sig != "" {
							res.Findings = append(res.Findings, drv.Finding{Props: []string{"C09"}, Sig: sig, Detail: fmt.Sprintf("%s, then a restarted process saved a small snapshot successfully: %s (state %+v)", desc, detail, st2), Step: -1})
							res.Sample = map[string]any{"injection": desc, "then": "restart + save of generation 8", "state": st2}
						}
						res.Situations = append(res.Situations, fmt.Sprintf("save after %s %s: visible=gen%d", jb.kind, jb.syscall, st2.Gen))
					}
				}
			}
			_ = os.RemoveAll(dir)
			mu.Lock()
			o.Results = append(o.Results, res)
			mu.Unlock()
		}(idx, jb)
	}
	wg.Wait()
	// reader racing writer, in this process
	rr := readerRace(root, seed, tier, "")
	rr.Idx = len(jobs)
	o.Results = append(o.Results, rr)
	if otherTmp != "" {
		rr2 := readerRace(filepath.Join(root, "other-tmp"), seed+1, tier, otherTmp)
		rr2.Idx = len(jobs) + 2
		o.Results = append(o.Results, rr2)
	}
	rr3 := readerRace(filepath.Join(root, "linked"), seed+2, tier, "", true)
	rr3.Idx = len(jobs) + 4
	o.Results = append(o.Results, rr3)
	// sequences of small edits on one store instance
	sf := saveFidelity(root, seed, tier)
	sf.Idx = len(jobs) + 1
	o.Results = append(o.Results, sf)
	// several stores in one process
	ms := multiStore(root, seed, tier)
	ms.Idx = len(jobs) + 3
	o.Results = append(o.Results, ms)
	var keys []string
	for k := range states {
		keys = append(keys, k)
	}
	sort.Strings(keys)
	// every syscall boundary of the dry run was used as a crash point
	o.Exhaustive = false
	return o
}

// readerRace: one writer saving generations 1..N, 4 readers looping over raw reads and Load; every read must be one
// complete generation and generations seen by one reader never go backwards
func readerRace(root string, seed int64, tier string, tmpdir string, linked ...bool) *CaseResult {
	res := &CaseResult{}
	if tmpdir != "" {
		old, had := os.LookupEnv("TMPDIR")
		os.Setenv("TMPDIR", tmpdir)
		defer func() {
			if had {
				os.Setenv("TMPDIR", old)
			} else {
				os.Unsetenv("TMPDIR")
			}
		}()
	}
	dir := filepath.Join(root, "race")
	isLinked := len(linked) > 0 && linked[0]
	if isLinked {
		// the data file the store finds is a symbolic link (an operator linked it to a file on another volume; the target
		// does not exist yet): whatever the store does with the link, readers see complete snapshots only
		_ = os.MkdirAll(dir, 0o755)
		_ = os.MkdirAll(filepath.Join(root, "race-target"), 0o755)
		_ = os.Symlink(filepath.Join(root, "race-target", "data-elsewhere.json"), filepath.Join(dir, "data.json"))
	}
	st, _ := store.NewJSONDataStore(dir)
	n := 400
	if tier == "thorough" {
		n = 6000
	}
	stop := make(chan struct{})
	var wg sync.WaitGroup
	var mu sync.Mutex
	reads := 0
	distinct := map[int]bool{}
	for rdr := 0; rdr < 4; rdr++ {
		wg.Add(1)
		go func(rdr int) {
			defer wg.Done()
			last := 0
			everExisted := false
			for {
				select {
				case <-stop:
					return
				default:
				}
				s := inspectDirMode(dir, false)
				mu.Lock()
				reads++
				if s.Exists {
					distinct[s.Gen] = true
				}
				var sig, detail string
				if !s.Exists && everExisted {
					sig, detail = "C09:data-file-absent-after-successful-save", "a reader found no data.json although saves had completed before"
				}
				if s.Exists {
					everExisted = true
					switch {
					case s.Size == 0:
						sig, detail = "C09:data-file-empty", "a reader found data.json empty while a save was in progress"
					case s.LoadErr != "" || s.StdErr != "":
						sig, detail = "C09:data-file-not-loadable", "a reader could not load data.json while a save was in progress: "+s.LoadErr+s.StdErr
					case s.Mixed || s.Count != s.Declared:
						sig, detail = "C09:data-file-truncated-snapshot", fmt.Sprintf("a reader saw %d jobs of a snapshot of %d", s.Count, s.Declared)
					case s.Gen > 0 && s.Gen < last:
						sig, detail = "C09:generations-go-backwards", fmt.Sprintf("a reader saw generation %d after %d", s.Gen, last)
					}
					if s.Gen > last {
						last = s.Gen
					}
				}
				if sig != "" && len(res.Findings) < 20 {
					res.Findings = append(res.Findings, drv.Finding{Props: []string{"C09"}, Sig: sig, Detail: detail, Step: -1})
				}
				mu.Unlock()
			}
		}(rdr)
	}
	for g := 1; g <= n; g++ {
		d := genSnapshot(seed, g+10, 12)
		if g%5 == 0 {
			// generation with zero jobs would be indistinguishable: give it one job
			d = genSnapshot(seed, g+11, 12)
			for i := range d.Jobs {
				d.Jobs[i].Pipeline = fmt.Sprintf("gen-%d-of-%d", g, len(d.Jobs))
			}
		} else {
			for i := range d.Jobs {
				d.Jobs[i].Pipeline = fmt.Sprintf("gen-%d-of-%d", g, len(d.Jobs))
			}
		}
		if err := st.Save(d); err != nil {
			res.Inconclusive = "save failed: " + err.Error()
			break
		}
		// a save that returned successfully is what the next load returns
		if g%25 == 0 {
			s := inspectDir(dir)
			if s.Gen != g && len(d.Jobs) > 0 {
				mu.Lock()
				res.Findings = append(res.Findings, drv.Finding{Props: []string{"C09"}, Sig: "C09:load-after-save-returns-another-snapshot", Detail: fmt.Sprintf("Save(%d) returned nil, the next load returned generation %d", g, s.Gen), Step: -1})
				mu.Unlock()
			}
		}
	}
	close(stop)
	wg.Wait()
	res.Evaluations = reads
	res.Situations = []string{fmt.Sprintf("reader-race distinctGenerationsSeen>=%d tmpdirOnOtherFileSystem=%v dataFileStartsAsSymbolicLink=%v", min(len(distinct), 50)/10*10, tmpdir != "", isLinked)}
	res.Extra = map[string]int{"race_reads": reads, "race_generations_seen": len(distinct)}
	if reads < 100 || len(distinct) < 5 {
		res.Inconclusive = fmt.Sprintf("reader race observed too little: %d reads, %d generations", reads, len(distinct))
	}
	return res
}

func init() {
	register(&Check{
		ID: "C09", Level: "fault_enumeration",
		Rule:        "victim process `pxcheck saver` performs 3 (thorough: 4) saves of self-describing snapshots (generation g has n_g jobs, each job names g and n_g; sizes 0..40 (300) jobs, payload strings of every JSON-escaping class) through the real JsonDataStore, with its saving goroutine locked to one OS thread; a dry run under strace counts the openat / write / close / rename* system calls of that thread and then EVERY k in 1..count is used as a crash point (strace inject=<sc>:signal=SIGKILL:when=k) and every k as an I/O fault point (ENOSPC / EMFILE / EIO), plus SIGKILLs at PRNG-chosen microsecond offsets; after each run a FRESH process loads the directory (JsonDataStore.Load and an independent encoding/json decode) and the visible generation must be the last acknowledged one or the next one, complete; a failed save must report an error and leave the previous snapshot; 8 store instances on 8 directories save and load concurrently in one process (each file must hold its own store's last acknowledged snapshot); half of the victims and a second reader race run with TMPDIR on another file system than the data directory; plus 1 writer vs 4 readers in-process (every read one complete generation, never going backwards); plus sequences of 60 saves on one store instance whose consecutive snapshots differ by one small edit (same encoded length: status, digit, swap of two jobs, rename; identical repeats; returns to an earlier content; add / drop a job; the empty snapshot; a new store instance on the same directory in the middle of the sequence) - after every acknowledged save a fresh store instance and an independent decoder must return exactly that snapshot. evaluations = injection runs + reader reads; a situation is (injection kind, system call, visible generation, temp files left, acknowledged generation, failed saves)",
		Assumptions: []string{"process death is modelled by SIGKILL at system call boundaries of the saving thread plus random instants; power loss (no fsync in the code) is outside the statement", "rename(2) atomicity of the kernel is trusted"},
		Custom:      runC09,
		MinDistinct: 12,
	})
}
