//go:build verif

package checks

import (
	"os"
	"runtime"
	"strings"
	"testing"
	"time"

	"pxverif/core"
)

func parkedAtGates() int {
	buf := make([]byte, 64<<20)
	n := runtime.Stack(buf, true)
	return strings.Count(string(buf[:n]), "(*Gates).wait(")
}

// no case of a check may leave a task of the system under test parked at its gate (see drv/leak_test.go)
func TestCasesLeaveNoTaskAtItsGate(t *testing.T) {
	core.SetPause(200 * time.Microsecond)
	ids := []string{"C15", "C01", "C03", "C05", "C06", "C08", "C16", "C02", "C10", "C12", "C07"}
	if v := os.Getenv("LEAK_CHECKS"); v != "" {
		ids = strings.Split(v, ",")
	}
	for _, id := range ids {
		ck := registry[id]
		if ck == nil || ck.RunCase == nil {
			continue
		}
		leaks := map[int]int{}
		tmp := t.TempDir()
		for k := 0; k < kMax(); k++ {
			idx := 3 + 16*k + 96*(k%2) // cases of one worker shard, including the special ones at idx%100 == 99, with the seeds the worker would use
			if idx%40 == 39 && (id == "C02" || id == "C08") {
				continue // real-process cases
			}
			if id == "C15" && idx%100 == 99 {
				// (the case itself re-executes this binary; its in-process part is what can leak)
				before := parkedAtGates()
				taskOrders(CaseSeed(1, id, idx))
				if after := parkedAtGates(); after > before {
					leaks[idx] = after - before
				}
				continue
			}
			before := parkedAtGates()
			c := &CaseCtx{Prop: id, Tier: "thorough", Idx: idx, Seed: CaseSeed(1, id, idx), Base: 1, TmpDir: tmp}
			ck.RunCase(c)
			after := parkedAtGates()
			for i := 0; i < 20 && after > before; i++ {
				time.Sleep(50 * time.Millisecond)
				after = parkedAtGates()
			}
			if after > before {
				leaks[idx] = after - before
			}
		}
		if len(leaks) > 0 {
			t.Errorf("%s: cases leaving tasks at their gates: %v", id, leaks)
		}
	}
}

func kMax() int {
	if os.Getenv("LEAK_LONG") != "" {
		return 1150
	}
	return 240
}
