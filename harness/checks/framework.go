// Package checks contains one check per property and the small framework that runs them: the parent process plans and
// judges, batches of cases run in child processes (one panic inside prunner would otherwise end every monitor).
package checks

import (
	"encoding/json"
	"fmt"
	"hash/fnv"
	"os"
	"os/exec"
	"path/filepath"
	"runtime"
	"sort"
	"strconv"
	"strings"
	"sync"
	"time"

	"pxverif/drv"
	"pxverif/report"
)

// CaseCtx is what a case gets
type CaseCtx struct {
	Prop   string
	Idx    int
	Seed   int64 // derived per case
	Base   int64 // VERIF_SEED
	Tier   string
	TmpDir string
}

// CaseResult is what a case produces
type CaseResult struct {
	Idx          int            `json:"idx"`
	Findings     []drv.Finding  `json:"findings,omitempty"`
	Situations   []string       `json:"situations,omitempty"`
	Evaluations  int            `json:"evaluations"`
	Events       int            `json:"events,omitempty"`
	Inconclusive string         `json:"inconclusive,omitempty"`
	Sample       any            `json:"sample,omitempty"`
	Extra        map[string]int `json:"extra,omitempty"`
}

// Check describes how a property is checked
type Check struct {
	ID          string
	Level       string // exploration | fault_enumeration
	Rule        string
	Assumptions []string
	Race        bool // run the workers from the -race build
	Cases       func(tier string) int
	RunCase     func(c *CaseCtx) *CaseResult
	// Custom, if set, replaces the case machinery: the check manages its own processes
	Custom func(tier string, seed int64) *Outcome
	// MinDistinct: a run that observed fewer distinct situations is a harness failure (exit 2)
	MinDistinct int
	// Exhaustive marks that the case list enumerates a finite space completely
	Exhaustive func(tier string) bool
	// Workers overrides the number of worker processes
	Workers int
	// WorkerTimeout for a worker process
	WorkerTimeout func(tier string) time.Duration
	// Post inspects the summed counters of all cases; it returns reasons why the run is inconclusive (coverage not reached)
	Post func(tier string, counters map[string]int) []string
}

// Outcome of a custom check
type Outcome struct {
	Results      []*CaseResult
	Inconclusive []string
	Exhaustive   bool
}

var registry = map[string]*Check{}

func register(c *Check) { registry[c.ID] = c }

// Get returns a registered check
func Get(id string) *Check { return registry[id] }

// IDs returns all registered check ids
func IDs() []string {
	var out []string
	for k := range registry {
		out = append(out, k)
	}
	sort.Strings(out)
	return out
}

// CaseSeed derives the seed of a case from the base seed (VERIF_SEED), the property and the index
func CaseSeed(base int64, prop string, idx int) int64 {
	h := fnv.New64a()
	fmt.Fprintf(h, "%d/%s/%d", base, prop, idx)
	return int64(h.Sum64() & 0x7fffffffffffffff)
}

func tmpRoot() string {
	d := os.Getenv("TMPDIR")
	if d == "" {
		d = "/tmp"
	}
	return d
}

// RunWorker executes the cases of one shard in this process and writes the results to out (JSON lines)
func RunWorker(id, tier string, base int64, shard, of int, out string) int {
	c := Get(id)
	if c == nil || c.RunCase == nil {
		fmt.Fprintln(os.Stderr, "unknown check", id)
		return 2
	}
	f, err := os.Create(out)
	if err != nil {
		fmt.Fprintln(os.Stderr, err)
		return 2
	}
	defer f.Close()
	progress := out + ".progress"
	n := c.Cases(tier)
	tmp, _ := os.MkdirTemp(tmpRoot(), "pxw-"+id+"-")
	defer os.RemoveAll(tmp)
	enc := json.NewEncoder(f)
	for idx := shard; idx < n; idx += of {
		_ = os.WriteFile(progress, []byte(strconv.Itoa(idx)), 0o644)
		ctx := &CaseCtx{Prop: id, Idx: idx, Seed: CaseSeed(base, id, idx), Base: base, Tier: tier, TmpDir: tmp}
		res := c.RunCase(ctx)
		res.Idx = idx
		if os.Getenv("PXV_LEAKDEBUG") != "" {
			buf := make([]byte, 64<<20)
			nb := runtime.Stack(buf, true)
			fmt.Fprintf(os.Stderr, "LEAKDEBUG idx=%d parked=%d\n", idx, strings.Count(string(buf[:nb]), "(*Gates).wait("))
		}
		if err := enc.Encode(res); err != nil {
			fmt.Fprintln(os.Stderr, "encode:", err)
			return 2
		}
	}
	_ = os.WriteFile(progress, []byte("done"), 0o644)
	return 0
}

// RunCheck is the parent: plans, spawns workers, judges, writes evidence. Returns the process exit code.
func RunCheck(id, tier string, base int64) int {
	c := Get(id)
	if c == nil {
		fmt.Fprintln(os.Stderr, "unknown check", id)
		return 2
	}
	start := time.Now()
	var results []*CaseResult
	var inconclusive []string
	var crashFindings []drv.Finding
	exhaustive := c.Exhaustive != nil && c.Exhaustive(tier)
	ncases := 0
	if c.Custom != nil {
		o := c.Custom(tier, base)
		results = o.Results
		inconclusive = append(inconclusive, o.Inconclusive...)
		exhaustive = exhaustive || o.Exhaustive
		ncases = len(results)
	} else {
		ncases = c.Cases(tier)
		results, inconclusive, crashFindings = spawnWorkers(c, tier, base)
	}
	// merge
	var caseInconclusive []string
	sits := map[string]struct{}{}
	evals := 0
	events := 0
	var samples []any
	extra := map[string]int{}
	type sigAgg struct {
		first  drv.Finding
		count  int
		sample any
		idx    int
	}
	viol := map[string]*sigAgg{}
	var order []string
	addFinding := func(f drv.Finding, idx int, sample any) {
		if !f.Has(id) {
			return
		}
		a := viol[f.Sig]
		if a == nil {
			a = &sigAgg{first: f, sample: sample, idx: idx}
			viol[f.Sig] = a
			order = append(order, f.Sig)
		}
		a.count++
	}
	sort.Slice(results, func(a, b int) bool { return results[a].Idx < results[b].Idx })
	for _, r := range results {
		for _, s := range r.Situations {
			sits[s] = struct{}{}
		}
		evals += r.Evaluations
		events += r.Events
		for k, v := range r.Extra {
			extra[k] += v
		}
		if r.Inconclusive != "" {
			caseInconclusive = append(caseInconclusive, fmt.Sprintf("case %d: %s", r.Idx, r.Inconclusive))
		}
		for _, f := range r.Findings {
			addFinding(f, r.Idx, r.Sample)
		}
		if r.Sample != nil && len(r.Findings) == 0 && len(samples) < 3 {
			samples = append(samples, r.Sample)
		}
	}
	for _, f := range crashFindings {
		addFinding(f, -1, nil)
	}
	if c.Post != nil {
		inconclusive = append(inconclusive, c.Post(tier, extra)...)
	}
	// single cases that hit a watchdog (loaded machine) are reported in the evidence; they only make the whole run
	// inconclusive if they are more than a handful - the coverage floors (MinDistinct, Post) still have to be met
	tolerated := 2
	if ncases/200 > tolerated {
		tolerated = ncases / 200
	}
	if len(caseInconclusive) > tolerated {
		inconclusive = append(inconclusive, caseInconclusive...)
		caseInconclusive = nil
	}
	known := report.LoadKnown()
	nviol := 0
	var knownSeen, violSigs []string
	for _, sig := range order {
		a := viol[sig]
		if k := report.MatchKnown(known, id, sig); k != nil {
			report.PrintKnown(id, fmt.Sprintf("%s (%s; seen %d times this run)", k.What, sig, a.count))
			knownSeen = append(knownSeen, sig)
			continue
		}
		nviol++
		violSigs = append(violSigs, sig)
		replay := report.WriteReplay(id, fmt.Sprintf("%d-%d-%s", base, a.idx, sig), map[string]any{
			"property": id, "check": id, "tier": tier, "seed": base, "case": a.idx, "signature": sig, "detail": a.first.Detail,
			"step": a.first.Step, "occurrences": a.count, "witness": a.sample,
			"replay_cmd": fmt.Sprintf("bin/check %s replay %s %d %d", id, tier, base, a.idx),
		})
		fmt.Printf("  %s: %s (x%d)\n", sig, a.first.Detail, a.count)
		report.PrintViolation(id, replay)
	}
	if len(samples) == 0 {
		for _, r := range results {
			if r.Sample != nil && len(samples) < 2 {
				samples = append(samples, r.Sample)
			}
		}
	}
	if len(samples) == 0 {
		samples = append(samples, map[string]any{"note": "no sample produced", "cases": ncases})
	}
	ev := report.Evidence{
		PropertyID: id, Tier: tier, Seed: base, Level: c.Level,
		Coverage: report.Coverage{
			Evaluations: evals, DistinctNontrivial: len(sits), Rule: c.Rule, Samples: samples, Exhaustive: exhaustive, Cases: ncases,
			EventsObserved: events, Extra: map[string]any{"counters": extra, "situations": truncate(report.SortedKeys(sits), 60)},
			Inconclusive: truncate(append(append([]string(nil), inconclusive...), caseInconclusive...), 20), KnownFindings: knownSeen, ViolationSigs: violSigs,
		},
		Assumptions: c.Assumptions, WallS: time.Since(start).Seconds(), Violations: nviol,
	}
	if err := report.WriteEvidence(ev); err != nil {
		fmt.Fprintln(os.Stderr, "evidence:", err)
		return 2
	}
	fmt.Printf("%s %s seed=%d: cases=%d evaluations=%d distinct=%d events=%d violations=%d known=%d inconclusive=%d wall=%.1fs\n",
		id, tier, base, ncases, evals, len(sits), events, nviol, len(knownSeen), len(inconclusive), time.Since(start).Seconds())
	for _, s := range truncate(caseInconclusive, 5) {
		fmt.Println("NOTE (case not decided, tolerated):", s)
	}
	if nviol > 0 {
		return 1
	}
	if len(inconclusive) > 0 {
		for _, s := range truncate(inconclusive, 5) {
			fmt.Println("INCONCLUSIVE:", s)
		}
		return 2
	}
	if len(sits) < c.MinDistinct || evals == 0 {
		fmt.Printf("INCONCLUSIVE: the run observed only %d distinct situations (minimum %d), %d evaluations\n", len(sits), c.MinDistinct, evals)
		return 2
	}
	return 0
}

func truncate(l []string, n int) []string {
	if len(l) > n {
		return append(append([]string(nil), l[:n]...), fmt.Sprintf("... (%d more)", len(l)-n))
	}
	return l
}

func spawnWorkers(c *Check, tier string, base int64) (results []*CaseResult, inconclusive []string, crash []drv.Finding) {
	exe, _ := os.Executable()
	if c.Race {
		if r := os.Getenv("PXCHECK_RACE_BIN"); r != "" {
			exe = r
		}
	}
	n := c.Workers
	if n == 0 {
		n = runtime.NumCPU()
		if n > 16 {
			n = 16
		}
	}
	if cs := c.Cases(tier); cs < n {
		n = cs
	}
	if n < 1 {
		n = 1
	}
	timeout := 20 * time.Minute
	if tier == "thorough" {
		timeout = 60 * time.Minute
	}
	if c.WorkerTimeout != nil {
		timeout = c.WorkerTimeout(tier)
	}
	dir, _ := os.MkdirTemp(tmpRoot(), "pxrun-"+c.ID+"-")
	defer os.RemoveAll(dir)
	var mu sync.Mutex
	var wg sync.WaitGroup
	for s := 0; s < n; s++ {
		wg.Add(1)
		go func(s int) {
			defer wg.Done()
			out := filepath.Join(dir, fmt.Sprintf("shard-%d.jsonl", s))
			errf := filepath.Join(dir, fmt.Sprintf("shard-%d.stderr", s))
			cmd := exec.Command("timeout", "-s", "QUIT", fmt.Sprintf("%d", int(timeout.Seconds())), exe, "worker", c.ID, tier, fmt.Sprint(base), fmt.Sprint(s), fmt.Sprint(n), out)
			ef, _ := os.Create(errf)
			cmd.Stdout = ef
			cmd.Stderr = ef
			raceLog := filepath.Join(dir, fmt.Sprintf("race-%d", s))
			if c.Race {
				// explore with halt_on_error=0 and count report blocks in the log files: exit codes are not trusted
				cmd.Env = append(os.Environ(), "GORACE=halt_on_error=0 exitcode=0 history_size=5 log_path="+raceLog, "GOTRACEBACK=all")
			} else {
				cmd.Env = append(os.Environ(), "GOTRACEBACK=all")
			}
			err := cmd.Run()
			ef.Close()
			var raceFindings []drv.Finding
			if c.Race {
				files, _ := filepath.Glob(raceLog + ".*")
				for _, rf := range files {
					b, _ := os.ReadFile(rf)
					raceFindings = append(raceFindings, parseRaceReports(c.ID, string(b))...)
				}
			}
			var rs []*CaseResult
			if f, e := os.Open(out); e == nil {
				dec := json.NewDecoder(f)
				for {
					var r CaseResult
					if dec.Decode(&r) != nil {
						break
					}
					rs = append(rs, &r)
				}
				f.Close()
			}
			mu.Lock()
			defer mu.Unlock()
			results = append(results, rs...)
			crash = append(crash, raceFindings...)
			if err != nil {
				prog, _ := os.ReadFile(out + ".progress")
				stderr, _ := os.ReadFile(errf)
				tail := string(stderr)
				if len(tail) > 6000 {
					tail = tail[:3000] + "\n...\n" + tail[len(tail)-3000:]
				}
				code := -1
				if ee, ok := err.(*exec.ExitError); ok {
					code = ee.ExitCode()
				}
				isPanic := strings.Contains(string(stderr), "panic:") || strings.Contains(string(stderr), "fatal error:") || strings.Contains(string(stderr), "WARNING: DATA RACE")
				inPrunner := strings.Contains(string(stderr), "github.com/Flowpack/prunner")
				if code == 124 || strings.Contains(string(stderr), "SIGQUIT") {
					inconclusive = append(inconclusive, fmt.Sprintf("worker %d killed by the watchdog at case %s", s, prog))
				} else if isPanic && inPrunner {
					sig := "crash:" + crashSig(string(stderr))
					crash = append(crash, drv.Finding{Props: []string{c.ID}, Sig: sig, Detail: fmt.Sprintf("worker process died at case %s (exit %d):\n%s", prog, code, tail), Step: -1})
				} else {
					inconclusive = append(inconclusive, fmt.Sprintf("worker %d failed at case %s (exit %d): %s", s, prog, code, firstLines(tail, 12)))
				}
			}
		}(s)
	}
	wg.Wait()
	return
}

func firstLines(s string, n int) string {
	l := strings.Split(s, "\n")
	if len(l) > n {
		l = l[:n]
	}
	return strings.Join(l, " | ")
}

// crashSig derives a stable signature from a Go crash dump: the first prunner frame
func crashSig(stderr string) string {
	kind := "panic"
	if strings.Contains(stderr, "WARNING: DATA RACE") {
		kind = "data-race"
	} else if strings.Contains(stderr, "fatal error:") {
		i := strings.Index(stderr, "fatal error:")
		line := stderr[i:]
		if j := strings.Index(line, "\n"); j > 0 {
			line = line[:j]
		}
		kind = strings.TrimSpace(line)
	}
	for _, l := range strings.Split(stderr, "\n") {
		l = strings.TrimSpace(l)
		if strings.HasPrefix(l, "github.com/Flowpack/prunner") {
			if j := strings.LastIndex(l, "("); j > 0 {
				l = l[:j]
			}
			return kind + "@" + strings.TrimPrefix(l, "github.com/Flowpack/prunner")
		}
	}
	return kind
}

// histCase adapts a sequential history to a CaseResult for one property
func histCase(c *CaseCtx, o drv.HistOpts, sampleEvery int) *CaseResult {
	h := drv.RunHistory(c.Seed, o)
	res := &CaseResult{Idx: c.Idx, Events: h.Events, Inconclusive: h.Inconclusive}
	for _, f := range h.Findings {
		if f.Has(c.Prop) {
			res.Findings = append(res.Findings, f)
		}
	}
	if len(res.Findings) > 0 && h.Inconclusive != "" {
		res.Inconclusive = "" // a violation found in the partial log wins over the watchdog
	}
	for s := range h.Situations[c.Prop] {
		res.Situations = append(res.Situations, s)
	}
	sort.Strings(res.Situations)
	res.Evaluations = h.Evaluations[c.Prop]
	if len(res.Findings) > 0 || res.Inconclusive != "" {
		res.Sample = h.Sample
		if res.Sample == nil {
			res.Sample = map[string]any{"journal": h.Journal}
		}
	} else if sampleEvery > 0 && c.Idx%sampleEvery == 0 {
		res.Sample = map[string]any{"case": c.Idx, "journal": h.Journal}
	}
	res.Extra = map[string]int{"ops": h.Ops, "jobs": h.Jobs}
	return res
}

// parseRaceReports splits a race detector log into report blocks and derives one signature per distinct pair of
// innermost prunner frames of the two conflicting accesses (line numbers stripped)
func parseRaceReports(prop, log string) []drv.Finding {
	var out []drv.Finding
	blocks := strings.Split(log, "WARNING: DATA RACE")
	for _, b := range blocks[1:] {
		if i := strings.Index(b, "=================="); i >= 0 {
			b = b[:i]
		}
		// sections: first access, "Previous ..." access; stop at "Goroutine ... created at"
		sections := strings.Split(b, "\n\n")
		var frames []string
		for _, sec := range sections {
			head := strings.TrimSpace(sec)
			if !(strings.HasPrefix(head, "Read at") || strings.HasPrefix(head, "Write at") || strings.HasPrefix(head, "Previous")) {
				continue
			}
			fr := "?"
			for _, l := range strings.Split(sec, "\n") {
				l = strings.TrimSpace(l)
				if strings.HasPrefix(l, "github.com/Flowpack/prunner") {
					if j := strings.LastIndex(l, "("); j > 0 {
						l = l[:j]
					}
					fr = strings.TrimPrefix(l, "github.com/Flowpack/prunner")
					break
				}
			}
			frames = append(frames, fr)
		}
		if len(frames) == 0 {
			frames = []string{"?"}
		}
		sort.Strings(frames)
		inPrunner := false
		for _, f := range frames {
			if f != "?" {
				inPrunner = true
			}
		}
		if !inPrunner && !strings.Contains(b, "github.com/Flowpack/prunner") {
			continue // a race entirely inside the harness would be a harness bug; it is reported as inconclusive elsewhere
		}
		detail := b
		if len(detail) > 3500 {
			detail = detail[:3500] + "..."
		}
		out = append(out, drv.Finding{Props: []string{prop, "C13"}, Sig: "C13:race:" + strings.Join(frames, "|"), Detail: "data race reported by the Go race detector:" + detail, Step: -1})
	}
	return out
}
