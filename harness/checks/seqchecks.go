package checks

import (
	"fmt"
	"math/rand"
	"os"
	"os/exec"
	"strconv"
	"strings"
	"time"

	"pxverif/core"
	"pxverif/drv"
	"pxverif/gen"
)

func init() {
	core.SetPause(200 * time.Microsecond)
}

func tierN(tier string, quick, thorough int) int {
	if tier == "thorough" {
		return thorough
	}
	return quick
}

// classesFor picks the admission classes of the pipelines of case idx so that every class appears in every tier
func classesFor(idx int, n int) []gen.ConfigClass {
	all := gen.AllClasses()
	out := make([]gen.ConfigClass, n)
	for i := 0; i < n; i++ {
		out[i] = all[(idx*n+i*37)%len(all)]
	}
	return out
}

// admissionOpts is the history generator shared by the admission / queue properties
func admissionOpts(idx int) drv.HistOpts {
	o := drv.HistOpts{
		NPipes:       1 + idx%2,
		MaxOps:       22 + idx%12,
		Pipe:         gen.PipeOpts{MaxTasks: 3, CyclicProb: 0.08, AllowFailureProb: 0.2},
		SlowStopProb: 0.25,
		BadVarProb:   0.10,
		FailProb:     0.15,
		AvoidAmbig:   true,
	}
	o.Classes = classesFor(idx, o.NPipes)
	return o
}

const seqAssumption = "the monitored task runner reproduces the contract of taskctl.TaskRunner that prunner depends on (cross-checked by the real-runner cases of C04/C08/C18-C20); start delays are fired logically through the exported StartDelayedJob, which is exactly what the timer callback calls"

func init() {
	register(&Check{
		ID: "C01", Level: "exploration",
		Rule:        "sequential conformance histories (generated from the seed: 1-2 pipelines over all 84 admission classes, ≤34 operations: schedule / finish / fail / cancel (with slow-to-stop tasks) / delay expiry / unstartable jobs) executed against the real runner; after every operation the system is driven to logical quiescence and the executing set, every task interval and every reported job span are compared with the reference model; plus concurrent stress histories (3 schedulers, 2 cancelers, 2 snapshot readers, optional random parking of scheduler loops) judged offline: every atomic snapshot has at most `concurrency` executing jobs, no job starts while `concurrency` others execute (reported spans and task-interval hulls), and the recorded API history is linearizable w.r.t. the sequential admission model (porcupine); a situation is (admission class, #running, #waiting) resp. (#others executing at a job start, limit) resp. overlapping operation pairs; distinct_nontrivial counts distinct situations in which the oracle was evaluated",
		Assumptions: []string{seqAssumption},
		Cases:       func(t string) int { return tierN(t, 1600, 40000) + tierN(t, 240, 6000) },
		RunCase: func(c *CaseCtx) *CaseResult {
			if c.Idx%100 == 57 {
				// "every interval in which one of its tasks runs lies inside the job's span", with REAL process trees that ignore
				// the interrupt: once the kill timeout has passed nothing of a canceled job may still run (what may still be
				// alive at the very instant of the report is the known finding D9 of C20 and is not judged here)
				shapes := []int{3, 10, 11, 12}
				h := drv.RunProcCase(c.Seed, drv.ProcOpts{Shape: shapes[(c.Idx/100)%len(shapes)], CancelAt: 0, Others: 1, WorkDir: c.TmpDir})
				res := &CaseResult{Idx: c.Idx, Inconclusive: h.Inconclusive, Evaluations: 1, Situations: []string{"real process tree survives the span of its canceled job?"}}
				for _, f := range h.Findings {
					if f.Sig == "C20:process-survives-kill-timeout" || f.Sig == "C20:canceled-job-never-reported-finished" {
						f.Props = []string{"C01", "C20"}
						res.Findings = append(res.Findings, f)
					}
				}
				if len(res.Findings) > 0 {
					res.Inconclusive = ""
				}
				return res
			}
			if c.Idx < tierN(c.Tier, 1, 8) {
				// the limit / delay of a definition that arrives through the REAL reload path of the binary (SIGUSR1) is in force
				bin := os.Getenv("PRUNNER_BIN")
				if bin == "" {
					return &CaseResult{Idx: c.Idx, Inconclusive: "PRUNNER_BIN not set (bin/check builds cmd/prunner from /repo)"}
				}
				return simpleCase(c, drv.RunReloadBinaryCase(c.Seed+int64(c.Idx), bin, c.TmpDir), 1)
			}
			if c.Idx >= tierN(c.Tier, 1600, 40000) {
				// schedules: concurrent clients; snapshot invariant, offline interval checker and linearizability
				if c.Idx%5 == 3 {
					// ... and saves whose retention removes finished jobs while the clients schedule (the lists that the
					// limit is counted over are rewritten by every such save)
					return stressCase(c, drv.StressOpts{Schedulers: 3, Cancelers: 1, Readers: 1, Saver: true, Retention: 1 + c.Idx%2, OpsPerClient: 40, FailProb: 0.1, MaxPauseUs: 120}, "C01")
				}
				return linCase(c, "C01")
			}
			o := admissionOpts(c.Idx)
			if c.Idx%5 == 4 {
				// a changed limit governs the jobs started after the change: reloads that raise / lower concurrency and limits
				o.WReload = 10
				o.FailProb = 0
				o.Pipe.CyclicProb = 0
			}
			if c.Idx%5 == 2 {
				// the limit counts the tasks that really execute, not the jobs that are still listed: saves with retention
				// while older jobs still run (slow-to-stop tasks) behind newer finished ones
				o.StoreDir = c.TmpDir
				o.Retention = true
				o.WSave = 14
				o.WCancel += 6
				o.SlowStopProb = 0.4
				o.Pipe.CyclicProb = 0
			}
			return histCase(c, o, 400)
		},
		MinDistinct: 20,
	})
	register(&Check{
		ID: "C03", Level: "exploration",
		Rule:        "same histories as C01 biased to delays and cancels of waiting jobs; restated liveness: (1) at every logical quiescence no job waits although the model says it must have started (free slot, delay expired, unchanged definition), (2) after the drain (all gates released, all delays expired) every accepted job is completed or canceled, (3) every 8th case: a runner restarted on a prepared store (jobs in every persisted state) starts the next job of every pipeline, (4) every 32nd case: a burst of 33..260 jobs waiting behind the running ones (some waiters canceled), all of which must run in the order of acceptance; a situation is (admission class, delayed?) at drain. Every 16th case: an event that frees a slot (last task of a running job ends / fails, the running job is canceled) is injected INSIDE the accept path of a schedule request for the same pipeline (at the instant the job id is generated); order-agnostic oracles: no job waiting next to a free slot at quiescence, limits respected, every accepted job terminal after the drain",
		Assumptions: []string{seqAssumption, "unbounded 'eventually' is restated as 'nothing enabled is left undone at logical quiescence' (DESIGN.md section 6)"},
		Cases:       func(t string) int { return tierN(t, 1600, 40000) },
		RunCase: func(c *CaseCtx) *CaseResult {
			if c.Idx%16 == 5 {
				// a job queued behind a RUNNING job that is canceled at a directed instant (between two tasks with the loop
				// parked, at the runner's entry, racing the last exit, ...) gets its turn
				k := c.Idx / 16
				o := drv.CancelOpts{Variant: []drv.CancelVariant{drv.CvParkedDeliveredBeforeRelease, drv.CvParkedReleaseRacesDelivery, drv.CvInsideRun, drv.CvRacingLastExit, drv.CvDeliveredAtRunEntry, drv.CvSiblingStillStoppingWhileTaskBecomesReady}[k%6], Shape: (k / 6) % 9, Boundary: (k / 54) % 7, TmpDir: c.TmpDir}
				return simpleCase(c, drv.RunCancelCase(c.Seed&^1, o), 50) // (even seed: with follower)
			}
			if c.Idx%32 == 9 {
				// a burst: far more jobs wait than in any of the histories (33..260), then all of them get their turn
				return simpleCase(c, drv.RunLongQueueCase(int64(c.Idx/32)), 100)
			}
			if c.Idx%16 == 4 {
				// the event that frees a slot (task end, failure, cancel) arrives inside the accept path of a request
				return simpleCase(c, drv.RunScheduleRacesCompletionCase(int64(c.Idx/16)), 3)
			}
			if c.Idx%8 == 2 {
				// jobs accepted after a restart: the store may hold jobs in any state, also states that exist only for an
				// instant (all tasks done, job not yet completed); none of them may keep a later job from running
				return simpleCase(c, drv.PreparedStoreCase(c.Seed, c.TmpDir), 100)
			}
			o := admissionOpts(c.Idx + 7)
			o.WCancel, o.WFire, o.WSchedule, o.WFinish, o.WStopRel, o.WRead = 22, 16, 34, 24, 6, 1
			if c.Idx%4 == 3 {
				// a definition reload must not strand jobs of pipelines that remain defined either
				o.WReload = 8
				o.FailProb = 0
			}
			if c.Idx%16 == 13 {
				// an embedder whose constructor context ends while the runner is in use (set-up function with a deferred
				// cancel, timeout context): the runner works until Shutdown, queued and delayed jobs still get their turn
				o.EndCtxAt = 2 + c.Idx%9
			}
			if c.Idx%8 == 6 {
				// saves with retention must not lose or strand waiting jobs
				o.StoreDir = c.TmpDir
				o.Retention = true
				o.WSave = 14
				o.Pipe.CyclicProb = 0
			}
			return histCase(c, o, 400)
		},
		MinDistinct: 20,
	})
	register(&Check{
		ID: "C05", Level: "exploration",
		Rule:        "one-step conformance of every schedule request against the admission table: the pre-state is the model state confirmed equal to the observed state at the previous quiescence; result class, replaced victim, waiting counts vs queue_limit, 'rejected leaves no trace' (deep-equal job list); a situation is (admission class, #running, #waiting, #canceled-unstarted, decision)",
		Assumptions: []string{seqAssumption},
		Cases:       func(t string) int { return tierN(t, 1600, 40000) + tierN(t, 320, 6000) },
		RunCase: func(c *CaseCtx) *CaseResult {
			if c.Idx >= tierN(c.Tier, 1600, 40000) {
				return linCase(c, "C05")
			}
			if c.Idx%12 == 7 {
				// the table applies to what the runner holds after a restart as well: jobs loaded from the store (in whatever
				// state they were persisted) occupy neither slots nor wait-list places
				return simpleCase(c, drv.PreparedStoreCase(c.Seed, c.TmpDir), 100)
			}
			o := admissionOpts(c.Idx + 3)
			o.WSchedule, o.WFinish, o.WCancel, o.WFire, o.WStopRel, o.WRead = 48, 20, 16, 10, 4, 1
			if c.Idx%12 == 3 {
				// "a concurrency slot is free" counts the jobs that run, however often saves with retention have removed
				// (several) finished jobs from the lists the runner keeps
				o.StoreDir = c.TmpDir
				o.Retention = true
				o.WSave = 8
				o.WFinish = 30
				o.Pipe.CyclicProb = 0
			}
			if c.Idx%6 == 5 {
				// the table is applied with the limit / strategy in force, also when a reload changed them while more jobs
				// wait than the new limit allows
				o.WReload = 10
				o.FailProb = 0
				o.Pipe.CyclicProb = 0
			}
			return histCase(c, o, 400)
		},
		Post: func(tier string, counters map[string]int) []string {
			if counters["lin_ok"] < tierN(tier, 250, 4500) {
				return []string{fmt.Sprintf("only %d stress histories were decided by the linearizability checker (%d unknown)", counters["lin_ok"], counters["lin_unknown"])}
			}
			return nil
		},
		MinDistinct: 100,
	})
	register(&Check{
		ID: "C06", Level: "exploration",
		Rule:        "histories with long wait lists (queue unbounded or 3, concurrency 1-3), cancels of first/middle/last waiter, unstartable heads; oracle: waiting list equals the model's FIFO list after every step, and offline: no job starts before an earlier accepted job of the same pipeline that also started / still waits; a situation is the number of later-accepted jobs behind a started job",
		Assumptions: []string{seqAssumption},
		Cases:       func(t string) int { return tierN(t, 1600, 40000) },
		RunCase: func(c *CaseCtx) *CaseResult {
			o := admissionOpts(c.Idx + 11)
			o.NPipes = 1
			all := []gen.ConfigClass{{Concurrency: 1 + c.Idx%3, Limit: -1, Replace: false, Delay: c.Idx%4 == 0}, {Concurrency: 1 + c.Idx%2, Limit: 3, Replace: false, Delay: c.Idx%5 == 0}}
			o.Classes = []gen.ConfigClass{all[c.Idx%2]}
			o.MaxOps = 30
			o.WSchedule, o.WFinish, o.WCancel, o.WFire, o.WStopRel, o.WRead = 45, 25, 16, 10, 3, 1
			if c.Idx%8 == 7 {
				// schedules: concurrent clients, FIFO judged offline from Created / Start of all jobs + linearizability
				return linCase(c, "C06")
			}
			if c.Idx%32 == 1 {
				// wait lists far longer than in any history (33..260 jobs)
				return simpleCase(c, drv.RunLongQueueCase(int64(c.Idx/32)), 100)
			}
			if c.Idx%8 == 3 {
				// ... nor on definition reloads while many jobs wait (whether or not the reload touches their pipeline)
				o.NPipes = 2
				o.Classes = append(o.Classes, gen.ConfigClass{Concurrency: 1, Limit: -1})
				o.WReload = 10
				o.ReloadPipe = "p1" // only the OTHER pipeline is edited / removed / re-added: p0 keeps its definition
				o.MaxOps = 45
				o.WSchedule = 55
				o.FailProb = 0
				o.Pipe.CyclicProb = 0
			}
			if c.Idx%8 == 5 {
				// start order does not depend on how the runner keeps its job lists: saves with retention reorder / shrink
				// them while jobs run and wait
				o.StoreDir = c.TmpDir
				o.Retention = true
				o.WSave = 16
				o.MaxOps = 40
			}
			return histCase(c, o, 400)
		},
		MinDistinct: 4,
	})
	register(&Check{
		ID: "C15", Level: "exploration",
		Rule:        "at every quiescent step of the conformance histories: schedulable flag read immediately before every schedule request vs the outcome of that request and vs the model; running flag vs the job list of the same state; every accepted job reported by id and in the list exactly once; created<=start<=end, task start<=end; every 6th case is a directed life-cycle scenario (pipeline removed by a reload while its jobs run, saves that drop them, the dropped jobs ending, pipeline defined again) judged model-free: running flag vs job list, schedulable flag vs the request issued immediately afterwards, a pipeline reported idle starts the next job; a situation is (admission class, #running, #waiting[, decision]) resp. (life-cycle stage, flags, listed jobs). On every restarted runner created <= start <= end and task start <= task end are judged as well",
		Assumptions: []string{seqAssumption},
		Cases:       func(t string) int { return tierN(t, 1600, 40000) },
		RunCase: func(c *CaseCtx) *CaseResult {
			if c.Idx%100 == 99 {
				return taskOrderCase(c)
			}
			if c.Idx%12 == 1 {
				// the listings of a runner restarted on a store that holds jobs in every persisted state (also interrupted ones)
				return simpleCase(c, drv.PreparedStoreCase(c.Seed, c.TmpDir), 100)
			}
			if c.Idx%6 == 3 {
				// flags vs job list vs next request over the life cycle of a definition: removed by a reload while its jobs
				// run, saved (the jobs are dropped), the dropped jobs end, defined again
				return simpleCase(c, drv.RunLifecycleCase(c.Seed, c.TmpDir), 100)
			}
			o := admissionOpts(c.Idx + 5)
			o.HTTP = c.Idx%2 == 0
			o.Pipe.MaxTasks = 5
			if c.Idx%6 == 4 {
				// the HTTP listings follow definition reloads at once (pipelines added / removed, limits changed)
				o.HTTP = true
				o.WReload = 12
				o.FailProb = 0
				o.Pipe.CyclicProb = 0
			}
			if c.Idx%6 == 5 {
				// every accepted job is reported until retention removes it - and retention only removes finished jobs:
				// histories with a store, retention_count 1-2 and explicit saves (plus the persist loop)
				o.StoreDir = c.TmpDir
				o.Retention = true
				o.WSave = 12
				o.Pipe.CyclicProb = 0
			}
			return histCase(c, o, 400)
		},
		MinDistinct: 100,
	})
}

var allDAG4 = gen.AllDAGs(4)

func graphOpts(idx int, tier string) drv.HistOpts {
	o := drv.HistOpts{
		NPipes:       1 + idx%2,
		MaxOps:       30 + idx%15,
		Pipe:         gen.PipeOpts{MaxTasks: 8, CyclicProb: 0.15, AllowFailureProb: 0.25},
		SlowStopProb: 0.15,
		BadVarProb:   0.06,
		FailProb:     0.18,
		AvoidAmbig:   true,
	}
	o.WSchedule, o.WFinish, o.WCancel, o.WFire, o.WStopRel, o.WRead = 22, 60, 8, 6, 3, 1
	o.Classes = []gen.ConfigClass{{Concurrency: 1 + idx%2, Limit: -1, Replace: false, Delay: idx%7 == 0}, {Concurrency: 1, Limit: 2, Replace: idx%3 == 0, Delay: false}}
	return o
}

func init() {
	register(&Check{
		ID: "C02", Level: "exploration",
		Rule:        "graph histories: random DAGs on 1-8 tasks with randomly permuted names, diamonds / nested diamonds / fan-in / fan-out / isolated / empty-script tasks, cyclic variants (self loop, 2-cycle, long cycle, cycle beside a valid DAG) and jobs with the reserved variable, queued among ordinary jobs; gates are released in PRNG order so completion orders allowed by the DAG are sampled; thorough additionally runs all 543 labelled DAGs on 4 nodes x 3 name permutations (exhaustive for that sub-space). Oracles: at most one run-enter per (job, task); every dependency has a successful run-exit (or allow_failure failure) with a smaller sequence number; set of tasks inside the runner equals the task-level simulation after every step; plain-success jobs ran every task exactly once; unstartable jobs run nothing and end canceled with an error; other jobs conform to the model. A situation is (#deps of a started task) / (plain success with n tasks) / kind of unstartable job. A sixth of the tasks that have a dependency name one of them twice in depends_on (the graph is the same)",
		Assumptions: []string{seqAssumption},
		Cases:       func(t string) int { return tierN(t, 1200, 543*3+30000) },
		RunCase: func(c *CaseCtx) *CaseResult {
			if c.Idx < tierN(c.Tier, 1, 8) {
				// the task graph of a definition that arrives through the REAL reload path of the binary (SIGUSR1) is the one
				// jobs accepted afterwards are built from - also when the edit goes back to the content of process start
				bin := os.Getenv("PRUNNER_BIN")
				if bin == "" {
					return &CaseResult{Idx: c.Idx, Inconclusive: "PRUNNER_BIN not set (bin/check builds cmd/prunner from /repo)"}
				}
				return simpleCase(c, drv.RunReloadBinaryCase(c.Seed+int64(c.Idx), bin, c.TmpDir), 1)
			}
			if c.Idx%40 == 19 {
				// real task runner: a script line that names a program the operating system refuses to start (file busy, not
				// executable, no interpreter, a directory) - what the line did before ran once
				return simpleCase(c, drv.RunExecErrorCase(int64(c.Idx/40), c.TmpDir), 10)
			}
			if c.Idx%40 == 39 {
				// the same claims with the REAL task runner and real exit statuses (the monitored runner's conventions are
				// the harness's own): failing commands, dependents, allow_failure
				return simpleCase(c, drv.RunOutputCase(c.Seed, drv.OutputOpts{Exe: selfExe(), WorkDir: c.TmpDir, MaxBytes: 5000}), 50)
			}
			o := graphOpts(c.Idx, c.Tier)
			if c.Idx%12 == 11 && !(c.Tier == "thorough" && c.Idx < 543*3) {
				// schedules: concurrent clients, tasks finishing by themselves in random order and with random failures;
				// exactly-once and dependency order judged offline over the event log
				return linCase(c, "C02")
			}
			if c.Tier == "thorough" && c.Idx < 543*3 {
				edges := allDAG4[c.Idx/3]
				perm := c.Idx % 3
				o.NPipes = 1
				o.Pipe.GraphFn = func(r *rand.Rand) gen.Graph {
					names := [][]string{{"a", "b", "c", "d"}, {"d", "c", "b", "a"}, {"b", "d", "a", "c"}}[perm]
					return gen.GraphFromEdges(names, edges)
				}
			}
			o.HTTP = c.Idx%4 == 1 // what the HTTP API reports about jobs that could not be started (and all others)
			if c.Idx%12 == 5 {
				// "at most once" for every history of other jobs: delayed pipelines whose definition is reloaded (delay
				// removed / added) while jobs wait, with jobs queued behind them
				all := gen.AllClasses()
				var delayed []gen.ConfigClass
				for _, cl := range all {
					if cl.Delay && !cl.Replace {
						delayed = append(delayed, cl)
					}
				}
				o.NPipes = 1
				o.Classes = []gen.ConfigClass{delayed[(c.Idx/12)%len(delayed)]}
				o.WReload = 12
				o.WFire = 10
				o.WSchedule = 40
				o.FailProb = 0
				o.Pipe.CyclicProb = 0
			}
			return histCase(c, o, 300)
		},
		Exhaustive:  func(t string) bool { return false },
		MinDistinct: 6,
	})
	register(&Check{
		ID: "C08", Level: "exploration",
		Rule:        "failure histories: the graph generator of C02 x driver-chosen outcomes per task (ok, exit failure, exit failure with allow_failure, non-exit error, with and without allow_failure) x both fail-fast settings x PRNG gate release orders x external cancels (also with slow-to-stop tasks); the plan is the ground truth. Oracles: tasks inside the runner == task-level simulation after every step (dependents of a failed task never run; fail-fast stops the siblings; continue mode runs everything independent); terminal report (completed / canceled / lastError, per-task status, errored flags) == predicted verdict; plain success only if every task ran to success or failed with allow_failure; the /job/detail and /pipelines/jobs JSON agree with the runner. A situation is (outcome kind, allow_failure, fail-fast, #running siblings) resp. (predicted verdict class)",
		Assumptions: []string{seqAssumption, "the combination non-exit error + allow_failure + fail-fast is a genuine race between the cancel goroutine and the scheduler loop: the oracle accepts both orders there (three-valued verdict)"},
		Cases:       func(t string) int { return tierN(t, 1200, 30000) },
		RunCase: func(c *CaseCtx) *CaseResult {
			if c.Idx%40 == 9 {
				// real task runner: a task that fails before its script runs (allowed or not, fail-fast or not)
				return simpleCase(c, drv.RunEarlyFailureCase(c.Seed, c.TmpDir, c.Idx/40), 10)
			}
			if c.Idx%40 == 19 {
				// fail-fast also holds while a graceful shutdown is waiting for the job
				return simpleCase(c, drv.RunShutdownDirectedCase(c.Seed, 0), 50)
			}
			if c.Idx%40 == 14 {
				// the first failure ends a fail-fast job also when nothing else runs at that instant and independent tasks
				// have not been launched yet (loop parked in that gap through H1)
				return simpleCase(c, drv.RunFailFastInGapCase(int64(c.Idx/40)), 10)
			}
			if c.Idx%40 == 29 {
				// real task runner: a program that cannot be started fails its task like a non-zero exit status does
				return simpleCase(c, drv.RunExecErrorCase(int64(c.Idx/40), c.TmpDir), 10)
			}
			if c.Idx%40 == 39 {
				// real task runner, real exit statuses
				return simpleCase(c, drv.RunOutputCase(c.Seed, drv.OutputOpts{Exe: selfExe(), WorkDir: c.TmpDir, MaxBytes: 5000}), 50)
			}
			if c.Idx%12 == 11 {
				// schedules: tasks of several jobs finish concurrently, by themselves, with random failures; verdict soundness
				// (plain success only if every task ended ok / allowed failure in the runner) judged offline over the log
				return linCase(c, "C08")
			}
			o := graphOpts(c.Idx+1, c.Tier)
			o.FailProb = 0.4
			o.Pipe.AllowFailureProb = 0.35
			o.Pipe.CyclicProb = 0.03
			o.AvoidAmbig = c.Idx%4 != 0
			o.HTTP = c.Idx%2 == 0
			o.WSchedule, o.WFinish, o.WCancel, o.WFire, o.WStopRel, o.WRead = 20, 60, 10, 5, 4, 1
			return histCase(c, o, 300)
		},
		MinDistinct: 20,
	})
}

// cancelCaseParams maps a case index to a directed cancel scenario
func cancelCaseParams(idx int) (drv.CancelOpts, bool) {
	nv := drv.NumCancelVariants
	const shapes, bounds = 9, 7
	directed := nv * shapes * bounds
	if idx < directed {
		return drv.CancelOpts{Variant: drv.CancelVariant(idx % nv), Shape: (idx / nv) % shapes, Boundary: idx / (nv * shapes)}, true
	}
	return drv.CancelOpts{}, false
}

var realCancelVariants = []drv.CancelVariant{drv.CvParkedDeliveredBeforeRelease, drv.CvParkedReleaseRacesDelivery, drv.CvInsideRun, drv.CvRacingLastExit, drv.CvWaitingPendingDelay, drv.CvDeliveredAtRunEntry}

func init() {
	nDirected := drv.NumCancelVariants * 9 * 7
	register(&Check{
		ID: "C04", Level: "exploration",
		Rule:        "the instant is the quantifier: directed sweep = 11 cancel variants (a task becoming ready while a sibling of the canceled job is still stopping: the loop must launch nothing once it has seen the stop (hook H1); cancel delivered exactly between the scheduler's launch of a task and the runner's entry, so that the runner refuses the task; loop parked at an iteration boundary through hook H1 with the cancel fully delivered before release / racing the release; task inside Run; task inside Run while a graceful Shutdown is waiting for the job; racing the last task's exit; waiting behind a busy slot; waiting with pending delay; waiting with expired delay behind a busy slot; 3 concurrent duplicate cancels) x 9 graph shapes x every boundary 0..6 (number of tasks finished before), delivery observed through the runner's Cancel events; repeated with the REAL taskctl.TaskRunner and shell scripts (marker files prove which tasks executed); plus cancel-heavy conformance histories with slow-to-stop tasks. Oracles: canceled waiting job never runs a task; running job's runner is told to stop; no task begins after the stop was delivered; terminal report canceled, never plain success while tasks were left unrun or stopped; cancel result classes (second cancel = no-op, unknown id = not found, finished job unchanged). A situation is (variant, real?, #tasks, #done at the boundary, #running at park)",
		Assumptions: []string{seqAssumption, "a cancel that loses the race against natural completion (every task ran to its end unstopped) may be reported as success: the oracle is silent there"},
		Cases: func(t string) int {
			return nDirected + tierN(t, 108, 1296) + tierN(t, 600, 20000) + len(drv.ProcShapes()) + tierN(t, 0, nDirected*19)
		},
		RunCase: func(c *CaseCtx) *CaseResult {
			nReal := tierN(c.Tier, 108, 1296)
			nHist := tierN(c.Tier, 600, 20000)
			var h *drv.HistResult
			switch {
			case c.Idx < nDirected:
				o, _ := cancelCaseParams(c.Idx)
				o.TmpDir = c.TmpDir
				h = drv.RunCancelCase(c.Seed, o)
			case c.Idx < nDirected+nReal:
				k := c.Idx - nDirected
				o := drv.CancelOpts{Variant: realCancelVariants[k%len(realCancelVariants)], Shape: (k / 6) % 9, Boundary: (k / 54) % 7, Real: true, TmpDir: c.TmpDir}
				if o.Shape == 2 || o.Shape >= 7 {
					o.Shape = 0
				}
				h = drv.RunCancelCase(c.Seed, o)
			case c.Idx < nDirected+nReal+nHist:
				o := admissionOpts(c.Idx)
				o.WSchedule, o.WFinish, o.WCancel, o.WFire, o.WStopRel, o.WRead = 28, 28, 28, 6, 9, 1
				o.SlowStopProb = 0.4
				o.Pipe.MaxTasks = 5
				return histCase(c, o, 300)
			case c.Idx < nDirected+nReal+nHist+len(drv.ProcShapes()):
				// real process trees (incl. processes that ignore the interrupt and have to be killed): the verdict must be canceled
				h = drv.RunProcCase(c.Seed, drv.ProcOpts{Shape: c.Idx - nDirected - nReal - nHist, CancelAt: 0, WorkDir: c.TmpDir})
				for k := range h.Situations["C20"] {
					if h.Situations["C04"] == nil {
						h.Situations["C04"] = map[string]struct{}{}
					}
					h.Situations["C04"]["real tree "+k] = struct{}{}
				}
				h.Evaluations["C04"] += h.Evaluations["C20"]
				// "the running tasks are told to stop": a command of the canceled job that is still running long after the
				// kill timeout was not stopped, whatever the job's report says
				for i := range h.Findings {
					if h.Findings[i].Sig == "C20:process-survives-kill-timeout" && !h.Findings[i].Has("C04") {
						h.Findings[i].Props = append(append([]string{}, h.Findings[i].Props...), "C04")
					}
				}
			default:
				o, _ := cancelCaseParams((c.Idx - nDirected - nReal - nHist - len(drv.ProcShapes())) % nDirected)
				o.TmpDir = c.TmpDir
				h = drv.RunCancelCase(c.Seed, o)
			}
			res := &CaseResult{Idx: c.Idx, Events: h.Events, Inconclusive: h.Inconclusive, Evaluations: h.Evaluations["C04"]}
			for _, f := range h.Findings {
				if f.Has("C04") {
					res.Findings = append(res.Findings, f)
				}
			}
			for s := range h.Situations["C04"] {
				res.Situations = append(res.Situations, s)
			}
			if len(res.Findings) > 0 {
				res.Inconclusive = ""
			}
			if len(res.Findings) > 0 || res.Inconclusive != "" || c.Idx%211 == 0 {
				res.Sample = map[string]any{"case": c.Idx, "journal": h.Journal, "detail": h.Sample}
			}
			return res
		},
		MinDistinct: 40,
	})
}

func delayParams(idx int) drv.DelayOpts {
	delays := []time.Duration{2 * time.Millisecond, 5 * time.Millisecond, 20 * time.Millisecond}
	o := drv.DelayOpts{Delay: delays[idx%3], Replace: (idx/3)%3 != 0, Limit: []int{-1, 1, 2}[(idx/9)%3], Conc: 1 + (idx/27)%2, Burst: 1 + (idx/54)%8, Busy: (idx/2)%2 == 0}
	if idx%11 == 10 {
		o.Stress = true
		o.Burst = 3 + idx%4
	}
	return o
}

func init() {
	register(&Check{
		ID: "C07", Level: "exploration",
		Rule:        "REAL timers (time.AfterFunc): start_delay d in {2,5,20} ms x strategy x queue_limit {nil,1,2} x concurrency {1,2} x bursts of 1-8 requests with gaps drawn from {0,d/4,d/2,0.9d,1.1d,2d} x pipeline busy or idle (blocker released 0..2d after the last request) x cancel of the waiter inside the burst; every 11th case is a 4-client stress burst with a random finisher. Oracles: Start-Created >= d and first run-enter - request issue time >= d (monotonic clocks; slowness can only enlarge them); with every pending delay handler returned (hook H2) a free slot and a waiting job never coexist at logical quiescence; replaced / canceled-while-waiting jobs never enter the runner; under replace no job starts after a newer one was accepted while it waited, and the most recently accepted job runs; plus conformance histories with logically fired delays (C07-tagged oracles of the sequential driver). A situation is (d, strategy, limit, concurrency, busy, gap pattern) / (executing, waiting) at quiescence. Directed case: a burst on a delayed pipeline that was undefined (and saved) while its job ran - the newest job starts when its delay has passed, the replaced ones never run",
		Assumptions: []string{seqAssumption, "timer expiry is observed through hook H2 (delay-handler entered/returned); no verdict depends on a wall-clock deadline"},
		Cases:       func(t string) int { return tierN(t, 700, 14000) + tierN(t, 500, 10000) },
		RunCase: func(c *CaseCtx) *CaseResult {
			if c.Idx < tierN(c.Tier, 1, 8) {
				// the limit / delay of a definition that arrives through the REAL reload path of the binary (SIGUSR1) is in force
				bin := os.Getenv("PRUNNER_BIN")
				if bin == "" {
					return &CaseResult{Idx: c.Idx, Inconclusive: "PRUNNER_BIN not set (bin/check builds cmd/prunner from /repo)"}
				}
				return simpleCase(c, drv.RunReloadBinaryCase(c.Seed+int64(c.Idx), bin, c.TmpDir), 1)
			}
			nReal := tierN(c.Tier, 700, 14000)
			if c.Idx >= nReal {
				if c.Idx%24 == 11 {
					// a burst on a delayed pipeline that was undefined (and saved) while its job ran
					return simpleCase(c, drv.RunDelayedAfterUndefinedCase(int64(c.Idx/24)), 5)
				}
				if c.Idx%24 == 10 {
					// the delay is the only delay: a slow data store (save in progress) does not hold back a job whose delay
					// has passed, nor the requests of a burst
					return simpleCase(c, drv.RunSlowStoreCase(int64(c.Idx/24)), 5)
				}
				if c.Idx%12 == 4 {
					// a start delay works on a restarted runner as on a fresh one, whatever the store held (interrupted jobs
					// occupy nothing)
					return simpleCase(c, drv.PreparedStoreCase(c.Seed, c.TmpDir), 100)
				}
				o := admissionOpts(c.Idx)
				all := gen.AllClasses()
				var delayed []gen.ConfigClass
				for _, cl := range all {
					if cl.Delay {
						delayed = append(delayed, cl)
					}
				}
				o.NPipes = 1
				o.Classes = []gen.ConfigClass{delayed[c.Idx%len(delayed)]}
				o.WSchedule, o.WFinish, o.WCancel, o.WFire, o.WStopRel, o.WRead = 36, 22, 12, 26, 3, 1
				if c.Idx%3 == 2 {
					// jobs that wait for their delay survive saves with retention (count and period) and then start
					o.StoreDir = c.TmpDir
					o.Retention = true
					o.WSave = 16
				}
				if c.Idx%3 == 1 {
					// the delay a job was accepted under is a lower bound whatever happens to the definition afterwards:
					// reloads that remove / shorten the delay while timers are pending, followed by completions and cancels
					o.WReload = 10
					o.FailProb = 0
				}
				return histCase(c, o, 300)
			}
			h := drv.RunDelayCase(c.Seed, delayParams(c.Idx))
			res := &CaseResult{Idx: c.Idx, Events: h.Events, Inconclusive: h.Inconclusive, Evaluations: h.Evaluations["C07"]}
			for _, f := range h.Findings {
				if f.Has("C07") {
					res.Findings = append(res.Findings, f)
				}
			}
			for s := range h.Situations["C07"] {
				res.Situations = append(res.Situations, s)
			}
			if len(res.Findings) > 0 {
				res.Inconclusive = ""
			}
			if len(res.Findings) > 0 || res.Inconclusive != "" || c.Idx%173 == 0 {
				res.Sample = map[string]any{"case": c.Idx, "journal": h.Journal, "detail": h.Sample}
			}
			return res
		},
		MinDistinct: 40,
	})
}

func init() {
	register(&Check{
		ID: "C16", Level: "exploration",
		Rule:        "conformance histories with definition reloads: 1-2 reloads per ~10 operations, each applying 1-2 mutation operators (add / remove / rename task, rewire depends_on, change script, task env, pipeline env, allow_failure, start_delay 0<->set, concurrency +-1, queue_limit, queue_strategy, remove and re-add the pipeline) at whatever point of their life the existing jobs are (waiting behind a busy slot, delayed with pending / expired timer, running inside a task, running and parked between two tasks through hook H1). The monitored runner records the task.Task it is actually handed; oracles: commands / task env / pipeline env / allow_failure / variables of every run-enter equal the deep copy of the definition taken when the schedule request returned; a plain-success job ran exactly the tasks of that definition, in its dependency order; a job accepted under a start delay never begins before its own delay expired, one accepted without delay is not stranded by a reload that introduces one; the job list is deep-equal across the ReplaceDefinitions call; jobs of pipelines that remain defined all end terminal; the admission model (per-job timer state, current limits) is followed after every step. A situation is the (truncated) list of mutation operators / (reloaded?, env present?) per run-enter",
		Assumptions: []string{seqAssumption, "continue_running_tasks_after_failure is deliberately read from the current definition by the code and is not in the property's list: task failures are not injected in reload histories"},
		Cases:       func(t string) int { return tierN(t, 1500, 36000) },
		RunCase: func(c *CaseCtx) *CaseResult {
			if c.Idx%50 == 29 {
				// failure handling is part of what a job was accepted with: allow_failure switched off / task removed by a reload
				return simpleCase(c, drv.RunReloadAllowFailureCase(c.Seed, c.Idx/50), 10)
			}
			o := admissionOpts(c.Idx + 13)
			o.NPipes = 1 + c.Idx%3
			o.Classes = classesFor(c.Idx, o.NPipes)
			o.FailProb = 0
			o.MaxOps = 36
			o.Pipe.EnvProb = 0.6
			o.Pipe.CyclicProb = 0
			o.Pipe.MaxTasks = 4
			o.WSchedule, o.WFinish, o.WCancel, o.WFire, o.WStopRel, o.WRead, o.WReload = 32, 30, 6, 10, 2, 1, 12
			if c.Idx < tierN(c.Tier, 2, 16) {
				// the real reload path of the binary (SIGUSR1): edit sequences incl. going back to an earlier content
				bin := os.Getenv("PRUNNER_BIN")
				if bin == "" {
					return &CaseResult{Idx: c.Idx, Inconclusive: "PRUNNER_BIN not set (bin/check builds cmd/prunner from /repo)"}
				}
				return simpleCase(c, drv.RunReloadBinaryCase(c.Seed, bin, c.TmpDir), 1)
			}
			if c.Idx%10 == 9 {
				// schedules: reloads racing schedule requests; every job must be built from a definition that was in force
				// while its request was in flight
				return stressCase(c, drv.StressOpts{Schedulers: 3, Cancelers: 1, Readers: 1, Reloader: true, OpsPerClient: 60, FailProb: 0.05, MaxPauseUs: 100}, "C16")
			}
			return histCase(c, o, 300)
		},
		MinDistinct: 30,
	})
}

func init() {
	register(&Check{
		ID: "C10", Level: "fault_enumeration",
		Rule:        "crash points = every snapshot persisted during a conformance history: explicit SaveToStore operations sprinkled over every position of the history (all job states: waiting, delayed, running with a subset of tasks done, completed, failed, canceled in each phase, unstartable) and the saves of the persist loop, recorded by a wrapper around the REAL JsonDataStore that copies data.json aside after every save; for EACH of them a fresh runner is started on the copy and must report: every job terminal, no pipeline running, every pipeline schedulable and its first request accepted (started at once without delay), id multiset equal to the snapshot's, and every job that was finished in the snapshot exactly as the live runner reports it (flags, timestamps with time.Equal, user, lastError text, variables deep-equal as arbitrary JSON values with floats of 1-17 significant digits over 1e-9..1e21, task order / status / times / exit code / errored / error text / skipped). After every explicit save the store is also compared in the other direction (no job in it that is no longer reported), and every 50th case runs the real JSON store through a save that leaves no job at all (pipelines removed by a reload, retention period) before the restart. Every 4th case is a prepared store 'from an earlier run' with every mix of flags and task statuses (incl. states that exist only between two steps of the runner, non-UTC zones, sub-microsecond digits). A situation is (finished, running, waiting) of a snapshot / the state of a restarted job",
		Assumptions: []string{seqAssumption, "a crash is modelled as 'the process restarts from the last snapshot that reached the store'; C09 covers what can be on disk"},
		Cases:       func(t string) int { return tierN(t, 600, 14000) },
		RunCase: func(c *CaseCtx) *CaseResult {
			if c.Idx%50 == 18 {
				// saves that fail because a job variable cannot be encoded leave the last good snapshot in place
				return simpleCase(c, drv.RunUnencodableSaveThenRestartCase(int64(c.Idx/50), c.TmpDir), 5)
			}
			if c.Idx%50 == 30 {
				// a save that leaves no job at all (pipelines removed by a reload, retention period) is a snapshot like any other
				return simpleCase(c, drv.RunPurgeAllThenRestartCase(int64(c.Idx/50), c.TmpDir), 5)
			}
			if c.Idx%4 == 3 {
				h := drv.PreparedStoreCase(c.Seed, c.TmpDir)
				res := &CaseResult{Idx: c.Idx, Events: h.Events, Inconclusive: h.Inconclusive, Evaluations: h.Evaluations["C10"], Findings: h.Findings}
				for s := range h.Situations["C10"] {
					res.Situations = append(res.Situations, s)
				}
				if len(res.Findings) > 0 || c.Idx%199 == 0 {
					res.Sample = map[string]any{"case": c.Idx, "kind": "prepared store", "detail": h.Sample}
				}
				return res
			}
			o := admissionOpts(c.Idx + 17)
			o.StoreDir = c.TmpDir
			o.RichVars = true
			o.HTTP = c.Idx%2 == 0 // half of the histories schedule over HTTP (the payload is decoded by the server then)
			if c.Idx%4 == 1 {
				// several pipelines with retention_count: what a save kept is what the restarted runner reports (retention is
				// per pipeline, also at load time)
				o.NPipes = 3
				o.Retention = true
			}
			o.FailProb = 0.3
			o.Pipe.AllowFailureProb = 0.3
			o.MaxOps = 26
			o.WSchedule, o.WFinish, o.WCancel, o.WFire, o.WStopRel, o.WRead, o.WSave = 30, 30, 10, 8, 4, 1, 14
			return histCase(c, o, 150)
		},
		MinDistinct: 25,
	})
}

// simpleCase adapts a HistResult of a single-property driver
func simpleCase(c *CaseCtx, h *drv.HistResult, sampleEvery int) *CaseResult {
	res := &CaseResult{Idx: c.Idx, Events: h.Events, Inconclusive: h.Inconclusive, Evaluations: h.Evaluations[c.Prop]}
	for _, f := range h.Findings {
		if f.Has(c.Prop) {
			res.Findings = append(res.Findings, f)
		}
	}
	for s := range h.Situations[c.Prop] {
		res.Situations = append(res.Situations, s)
	}
	if len(res.Findings) > 0 {
		res.Inconclusive = ""
	}
	if len(res.Findings) > 0 || res.Inconclusive != "" || (sampleEvery > 0 && c.Idx%sampleEvery == 0) {
		res.Sample = map[string]any{"case": c.Idx, "journal": h.Journal, "detail": h.Sample}
	}
	return res
}

func init() {
	register(&Check{
		ID: "C12", Level: "exploration",
		Rule:        "populations: retention_count in {0,1,2,5} x retention_period in {0,1h,24h} per pipeline (1-3 pipelines + one that is no longer defined), 0-8 jobs per pipeline loaded from a prepared store file 'from an earlier run' (finished, canceled-unstarted, formerly running, formerly waiting; ages k*30min+7min so that every job is >= 7 minutes away from a period boundary) in shuffled file order, plus 0-4 live jobs per round (waiting, running, finished, failed, canceled) on the REAL JsonDataStore and FileOutputStore with log files for every job; optional reload that removes a pipeline; 1-3 rounds of activity + SaveToStore. Oracle = pure function of (view before, view after, store file, recursive hash of the log tree before/after): no waiting/running job removed; <= retention_count finished jobs left; none older than the period; a kept finished job has no removed newer finished job; nothing removed without settings; undefined pipelines purged; API id set == store id set == restarted runner; removed jobs' log directories gone, kept jobs' log files byte-identical. A situation is (count, period, #finished, #unfinished). Appended cases, alternating: (a) the oldest job of a pipeline (concurrency 4) still runs while more than retention_count newer jobs have finished - the save keeps it, keeps at most retention_count finished jobs and of those the newest; (b) 2-5 SaveToStore calls at the same time on a store whose Save takes 0.5-2 ms, with nothing else going on: whenever one of the calls returns, the last snapshot the store has COMPLETED holds exactly the jobs the API reports. A third of the loaded jobs ended three minutes ago although they were created hours ago (age and order are by creation)",
		Assumptions: []string{seqAssumption, "ages are never measured against 'now' at check time with less than 7 minutes of margin"},
		Cases:       func(t string) int { return tierN(t, 500, 12000) + tierN(t, 48, 960) },
		RunCase: func(c *CaseCtx) *CaseResult {
			if c.Idx%50 == 49 {
				// retention settings that change while the binary runs arrive through its reload path, which applies an
				// edit only if Equals sees it: every single-field edit of the retention settings must be seen
				c2 := *c
				c2.Prop = "C17"
				c2.Idx = 1000*3 + 2 // an "Equals over single-field mutations" case of C17
				r17 := c17LoadCase(&c2)
				res := &CaseResult{Idx: c.Idx, Evaluations: r17.Evaluations, Situations: []string{"Equals over edits of the retention settings"}, Inconclusive: r17.Inconclusive}
				for _, f := range r17.Findings {
					if strings.Contains(f.Detail, "Retention") {
						f.Props = []string{"C12", "C17"}
						res.Findings = append(res.Findings, f)
					}
				}
				return res
			}
			if base := tierN(c.Tier, 500, 12000); c.Idx >= base {
				if k := c.Idx - base; k%2 == 0 {
					// several SaveToStore calls at the same time on a slow store: store == API whenever one of them returns
					return simpleCase(c, drv.RunConcurrentSavesCase(c.Seed), 3)
				} else {
					// the oldest job of a pipeline still runs while more than retention_count newer jobs have finished
					return simpleCase(c, drv.RunOldRunningJobRetentionCase(int64(k/2)), 3)
				}
			}
			return simpleCase(c, drv.RunRetentionCase(c.Seed, c.TmpDir), 100)
		},
		MinDistinct: 25,
	})
}

func init() {
	register(&Check{
		ID: "C11", Level: "exploration",
		Rule:        "shutdown scenarios: state at shutdown begin drawn from a conformance prefix (running multi-task jobs with a subset of tasks done, waiting, delayed-pending, finished jobs) x graceful / forced (deadline 0-1.5 ms) x clients racing the shutdown (schedule directly and via POST /pipelines/schedule, cancel, SaveToStore, snapshots) x a store whose Save takes 0.2-2 ms (saves in flight when Shutdown returns) x a finisher that lets tasks end one at a time (later tasks of multi-task jobs must still be launched during a graceful shutdown). Oracles keyed on the Shutdown return event R: every job terminal and none executing at R; no run-enter without run-exit at R and none after R; reported state deep-equal at R and after all in-flight saves have landed; the last snapshot the store had COMPLETED at R, and the last one that reached it in the end, equal the state at R (directed: a save held inside a slow store and 0-2 further SaveToStore calls waiting for their turn while the shutdown is issued - Shutdown must not return before its own final save was written); no request issued after R accepted (503 over HTTP); requests accepted during the shutdown terminal at R; graceful: jobs running at begin are never told to stop and run all remaining tasks to success, waiting jobs end canceled without running; forced: everything terminal. Every 20th scenario runs on the real JsonDataStore whose directory is away during one or two saves (they fail), comes back, and the runner is shut down: a fresh store instance must load the final state. First cases: the persist loop - an acknowledged schedule / cancel / completion must be carried by a save within 10 s (period 3 s) counted in heartbeats of the harness process, also with a 200 ms Save so that changes land during a save. A situation is (forced, slowSave, clients, #running, #waiting, #finished at begin) and what was observed (request accepted during shutdown, save landing after return, ...). Directed case: jobs WAIT next to free slots (a reload raised the concurrency) when the shutdown begins with nothing else going on - they are canceled, never started (graceful and forced); a third of the random scenarios raise the concurrency directly before the shutdown",
		Assumptions: []string{seqAssumption, "the persist-interval clause is inherently timed: limit 10 s for a 3 s period, measured in heartbeats so that a stalled machine stalls the clock"},
		Cases:       func(t string) int { return tierN(t, 6, 40) + tierN(t, 4, 24) + tierN(t, 400, 9000) },
		RunCase: func(c *CaseCtx) *CaseResult {
			nPersist := tierN(c.Tier, 6, 40)
			if c.Idx < nPersist {
				if c.Idx%3 == 2 {
					// one change of every kind at a time, nothing else going on
					return simpleCase(c, drv.RunPersistKindsCase(c.Seed, c.Idx%6 == 5), 3)
				}
				if c.Idx%3 == 1 {
					// a change that happens while a graceful shutdown is waiting for another job
					return simpleCase(c, drv.RunPersistDuringShutdownCase(int64(c.Idx/3)), 3)
				}
				return simpleCase(c, drv.RunPersistCase(c.Seed, c.Idx%2 == 1), 3)
			}
			nBin := tierN(c.Tier, 4, 24)
			if c.Idx < nPersist+nBin {
				bin := os.Getenv("PRUNNER_BIN")
				if bin == "" {
					return &CaseResult{Idx: c.Idx, Inconclusive: "PRUNNER_BIN not set (bin/check builds cmd/prunner from /repo)"}
				}
				k := c.Idx - nPersist
				seed := c.Seed | 1 // odd: one signal
				if (k/2)%2 == 1 {
					seed = c.Seed &^ 1 // even: the interrupt is repeated while the graceful shutdown waits
				}
				return simpleCase(c, drv.RunBinaryCase(seed, bin, c.TmpDir, k%2 == 1), 1)
			}
			k := c.Idx - nPersist - nBin
			if k%20 == 14 {
				// the real JSON store after a save that failed for a reason of the operating system (data directory away)
				return simpleCase(c, drv.RunFailedSaveThenShutdownCase(int64(k/20), c.TmpDir), 5)
			}
			if k%20 == 9 {
				// shutdown of a runner that was restarted on a store holding jobs in every persisted state
				return simpleCase(c, drv.PreparedStoreCase(c.Seed, c.TmpDir), 50)
			}
			if k%20 == 19 {
				// escalation: a forced shutdown while a graceful one is still waiting
				return simpleCase(c, drv.RunShutdownDirectedCase(c.Seed, 1), 50)
			}
			if k%20 == 6 {
				// jobs wait next to free slots (a reload raised the concurrency) when the shutdown begins: canceled, not started
				return simpleCase(c, drv.RunShutdownWithFreeSlotsCase(int64(k/20)), 3)
			}
			if k%40 == 4 {
				// a save inside a slow store, more saves waiting for their turn, then the shutdown: its final save has to wait too
				return simpleCase(c, drv.RunShutdownWithSavesInFlightCase(int64(k/40)), 3)
			}
			o := drv.ShutdownOpts{Forced: k%2 == 1, SlowSave: (k/2)%2 == 0, Clients: (k/4)%4 != 3, HTTP: (k/16)%2 == 0, NoStore: k%32 == 31, NoFinisher: k%2 == 1 && (k/8)%2 == 0, RaiseBefore: k%3 == 1}
			return simpleCase(c, drv.RunShutdownCase(c.Seed, o), 150)
		},
		MinDistinct:   25,
		WorkerTimeout: func(t string) time.Duration { return 30 * time.Minute },
	})
}

// taskOrderCase: the reported task order depends only on the definition - the same definition gives the same order in this
// process (20 jobs; Go randomises map iteration per iteration) and in two other processes
func taskOrderCase(c *CaseCtx) *CaseResult {
	res := &CaseResult{Idx: c.Idx}
	own := taskOrders(c.Seed)
	res.Evaluations = 1
	res.Situations = []string{"task order compared across 3 processes"}
	exe, _ := os.Executable()
	for i := 0; i < 2; i++ {
		out, err := exec.Command(exe, "taskorder", fmt.Sprint(c.Seed)).Output()
		if err != nil {
			res.Inconclusive = "taskorder child: " + err.Error()
			return res
		}
		if strings.TrimSpace(string(out)) != own {
			res.Findings = append(res.Findings, drv.Finding{Props: []string{"C15"}, Sig: "C15:task-order-not-deterministic", Detail: fmt.Sprintf("the same definition lists its tasks as %q in another process and as %q here", strings.TrimSpace(string(out)), own), Step: -1})
		}
	}
	if strings.Contains(own, "DIFFERS") {
		res.Findings = append(res.Findings, drv.Finding{Props: []string{"C15"}, Sig: "C15:task-order-not-deterministic", Detail: "two jobs of the same definition list their tasks in different orders: " + own, Step: -1})
	}
	return res
}

// taskOrders schedules the same generated definitions 20 times and returns the task orders (one line)
func taskOrders(seed int64) string {
	r := rand.New(rand.NewSource(seed))
	specs := drv.GenSpecs(r, drv.HistOpts{NPipes: 3, Pipe: gen.PipeOpts{MaxTasks: 8}})
	for i := range specs {
		specs[i].Def.Concurrency = 50
		specs[i].Def.StartDelay = 0
		specs[i].Def.QueueLimit = nil
	}
	var parts []string
	for _, sp := range specs {
		first := ""
		for k := 0; k < 20; k++ {
			sys, err := core.NewSys(gen.BuildDefs([]gen.PipeSpec{sp}), nil, nil)
			if err != nil {
				return "error " + err.Error()
			}
			id, cls := sys.Schedule(0, sp.Name, nil, "u")
			order := cls
			if j, ok := sys.ReadJob(id); ok {
				var names []string
				for _, t := range j.Tasks {
					names = append(names, t.Name)
				}
				order = strings.Join(names, ",")
			}
			drv.DrainAll(sys)
			sys.Close()
			if k == 0 {
				first = order
			} else if order != first {
				first += " DIFFERS " + order
				break
			}
		}
		parts = append(parts, sp.Name+"="+first)
	}
	return strings.Join(parts, ";")
}

func init() {
	auxCommands["taskorder"] = func(args []string) int {
		seed, _ := strconv.ParseInt(args[0], 10, 64)
		fmt.Println(taskOrders(seed))
		return 0
	}
}
