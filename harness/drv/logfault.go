package drv

import (
	"encoding/json"
	"fmt"
	"net/url"
	"os"
	"path/filepath"
	"strings"
	"time"

	"github.com/Flowpack/prunner/definition"

	"pxverif/core"
	"pxverif/gen"
)

// RunLogCreationFaultCase (C19, real task runner and real file output store; seed C19-m): the log file of ONE task of a job
// cannot be created (its name is too long for a file name / the path of its stderr log is taken by a directory) while
// another task of the job has finished and a third one is still writing. What the other tasks wrote is captured
// completely all the same: "output of different tasks never mixes" includes that the misfortune of one task does not
// take the output of the others with it. Variants: seed%2 kind of obstruction, (seed/2)%2 the failing task is allowed to fail.
func RunLogCreationFaultCase(seed int64, workDir string) *HistResult {
	res := &HistResult{Seed: seed, Situations: map[string]map[string]struct{}{}, Evaluations: map[string]int{}}
	find := func(sig, format string, args ...any) {
		res.Findings = append(res.Findings, Finding{Props: []string{"C19"}, Sig: sig, Detail: fmt.Sprintf(format, args...), Step: -1})
	}
	dir, err := os.MkdirTemp(workDir, "logfault-")
	if err != nil {
		res.Inconclusive = err.Error()
		return res
	}
	defer os.RemoveAll(dir)
	obstruct := int(seed % 2)
	allow := (seed/2)%2 == 0
	bad := "unlucky"
	if obstruct == 0 {
		bad = "L" + strings.Repeat("x", 250) // <name>-stdout.log is longer than a file name may be
	}
	logRoot := filepath.Join(dir, "logs") // (where realSys puts the file output store)
	first := []string{"echo first-out-1", "echo first-err-1 1>&2", "echo first-out-2"}
	if obstruct == 1 {
		// the job id is not known before the request returns: the obstruction is put in place by the first task itself
		// (a directory where the stderr log of the unlucky task would be created; its stdout log can be created)
		first = []string{"echo first-out-1", "echo first-err-1 1>&2", "mkdir -p " + shQuote(logRoot) + "/{{ .__jobID }}/unlucky-stderr.log", "echo first-out-2"}
	}
	def := definition.PipelineDef{Concurrency: 1, ContinueRunningTasksAfterFailure: true, SourcePath: "gen", Tasks: map[string]definition.TaskDef{
		"first": {Script: first},
		"slow":  {Script: []string{"echo slow-begin", "echo slow-err 1>&2", "sleep 0.7", "echo slow-end"}},
		bad:     {Script: []string{"echo never-captured"}, DependsOn: []string{"first"}, AllowFailure: allow},
		"after": {Script: []string{"echo after-out"}, DependsOn: []string{"first"}},
	}}
	specs := []gen.PipeSpec{{Name: "p", Def: def, Graph: gen.Graph{Names: []string{"first", "slow", bad, "after"}, Deps: map[string][]string{bad: {"first"}, "after": {"first"}}}}}
	sys, out, _, err := realSys(specs, dir, 300*time.Millisecond)
	if err != nil {
		res.Inconclusive = err.Error()
		return res
	}
	defer sys.Close()
	api := core.NewAPI(sys.R, out, "0123456789abcdef-harness-secret", false)
	id, cls := sys.Schedule(0, "p", nil, "u")
	if cls != "ok" {
		res.Inconclusive = "schedule: " + cls
		return res
	}
	if !waitJobs(sys, []string{id}, 60*time.Second) {
		res.Inconclusive = "watchdog: job did not finish"
		return res
	}
	j, _ := sys.ReadJob(id)
	res.sit("C19", fmt.Sprintf("the log file of one task cannot be created (obstruction %d, allow_failure=%v) after a sibling finished and while another writes", obstruct, allow))
	res.Evaluations["C19"]++
	// was the obstruction in place? 0: this file system refuses the name; 1: the first task, which creates the directory
	// as its third command, ran to its end (the unlucky task starts after it)
	if obstruct == 0 {
		if err := os.WriteFile(filepath.Join(dir, bad+"-stdout.log"), nil, 0o644); err == nil {
			res.Inconclusive = "this file system accepts a file name of 260 bytes"
			return res
		}
	} else if ft := j.Task("first"); ft == nil || ft.Status != "done" {
		res.Inconclusive = "the first task did not put the obstruction in place"
		return res
	}
	exp := map[string][2]string{
		"first": {"first-out-1\nfirst-out-2\n", "first-err-1\n"},
		"slow":  {"slow-begin\nslow-end\n", "slow-err\n"},
		"after": {"after-out\n", ""},
	}
	for _, name := range []string{"first", "slow", "after"} {
		t := j.Task(name)
		if t == nil || t.Status != "done" {
			continue // (judged by C08, not here)
		}
		so, e1 := readStore(out, id, name, "stdout")
		se, e2 := readStore(out, id, name, "stderr")
		if e1 != nil || e2 != nil || string(so) != exp[name][0] || string(se) != exp[name][1] {
			find("C19:stored-output-differs-from-written-output", "the log file of task %q of the job could not be created (obstruction %d); task %q ran to its end and wrote %q / %q (stdout / stderr), the store returns %q (%v) / %q (%v)", truncate(bad, 20), obstruct, name, exp[name][0], exp[name][1], so, e1, se, e2)
		}
		code, body := api.Do("GET", "/job/logs", url.Values{"id": {id}, "task": {name}}, nil)
		var lr struct{ Stdout, Stderr string }
		if code != 200 || json.Unmarshal(body, &lr) != nil {
			find("C19:log-api-failed", "GET /job/logs for task %q answered %d after the log file of a sibling could not be created", name, code)
		} else if lr.Stdout != exp[name][0] || lr.Stderr != exp[name][1] {
			find("C19:log-api-differs-from-written-output", "GET /job/logs task %q after the log file of a sibling could not be created: %q / %q, written %q / %q", name, lr.Stdout, lr.Stderr, exp[name][0], exp[name][1])
		}
	}
	return res
}

// RunLogNamePairCase (C19; seed C19-n): two tasks of one job whose names are related through the escaping that the file
// output store applies to task names ("build/app" and "build%2Fapp", "load 100%" and "load 100%25"): the first writes
// known output and fails, so the second - its dependent - never runs and has no output. What the store and the log API
// return for the second task is nothing (or a refusal) - never the output of the first; the first task's output is exact.
func RunLogNamePairCase(seed int64, workDir string) *HistResult {
	res := &HistResult{Seed: seed, Situations: map[string]map[string]struct{}{}, Evaluations: map[string]int{}}
	find := func(sig, format string, args ...any) {
		res.Findings = append(res.Findings, Finding{Props: []string{"C19"}, Sig: sig, Detail: fmt.Sprintf(format, args...), Step: -1})
	}
	dir, err := os.MkdirTemp(workDir, "namepair-")
	if err != nil {
		res.Inconclusive = err.Error()
		return res
	}
	defer os.RemoveAll(dir)
	pairs := [][2]string{{"build/app", "build%2Fapp"}, {"load 100%", "load 100%25"}, {"a%b/c", "a%25b%2Fc"}, {"x/y", "x%2fy"}, {"plain", "plain-2"}}
	pair := pairs[int(seed)%len(pairs)]
	first, second := pair[0], pair[1]
	def := definition.PipelineDef{Concurrency: 1, ContinueRunningTasksAfterFailure: seed%2 == 0, SourcePath: "gen", Tasks: map[string]definition.TaskDef{
		first:  {Script: []string{"echo first-out", "echo first-err 1>&2", "exit 3"}},
		second: {Script: []string{"echo second-out"}, DependsOn: []string{first}},
	}}
	specs := []gen.PipeSpec{{Name: "p", Def: def, Graph: gen.Graph{Names: []string{first, second}, Deps: map[string][]string{second: {first}}}}}
	sys, out, _, err := realSys(specs, dir, 300*time.Millisecond)
	if err != nil {
		res.Inconclusive = err.Error()
		return res
	}
	defer sys.Close()
	api := core.NewAPI(sys.R, out, "0123456789abcdef-harness-secret", false)
	id, cls := sys.Schedule(0, "p", nil, "u")
	if cls != "ok" {
		res.Inconclusive = "schedule: " + cls
		return res
	}
	if !waitJobs(sys, []string{id}, 60*time.Second) {
		res.Inconclusive = "watchdog: job did not finish"
		return res
	}
	j, _ := sys.ReadJob(id)
	res.sit("C19", fmt.Sprintf("task names related through the store's escaping (%q / %q): the second never ran", first, second))
	res.Evaluations["C19"]++
	if t := j.Task(second); t == nil || t.Start != nil {
		res.Inconclusive = "the dependent of the failed task ran"
		return res
	}
	so, e1 := readStore(out, id, first, "stdout")
	se, e2 := readStore(out, id, first, "stderr")
	if e1 != nil || e2 != nil || string(so) != "first-out\n" || string(se) != "first-err\n" {
		find("C19:stored-output-differs-from-written-output", "task %q wrote \"first-out\\n\" / \"first-err\\n\", the store returns %q (%v) / %q (%v)", first, so, e1, se, e2)
	}
	for _, stream := range []string{"stdout", "stderr"} {
		if b, err := readStore(out, id, second, stream); err == nil && len(b) > 0 {
			find("C19:output-attributed-to-another-task", "task %q of the job never ran (its dependency %q failed), yet the store returns %q as its %s - that is what %q wrote", second, first, b, stream, first)
		}
	}
	code, body := api.Do("GET", "/job/logs", url.Values{"id": {id}, "task": {second}}, nil)
	var lr struct{ Stdout, Stderr string }
	if code == 200 && json.Unmarshal(body, &lr) == nil && (lr.Stdout != "" || lr.Stderr != "") {
		find("C19:output-attributed-to-another-task", "GET /job/logs for task %q, which never ran, answers %q / %q - the output of task %q", second, lr.Stdout, lr.Stderr, first)
	}
	return res
}
