package drv

import (
	"fmt"
	"time"

	"github.com/Flowpack/prunner/definition"

	"pxverif/core"
	"pxverif/gen"
)

// RunDelayedAfterUndefinedCase (C07; seed C07-n): a delayed pipeline goes through the life cycle "job running - pipeline
// removed by a reload - save (drops the jobs of undefined pipelines, whatever their state) - pipeline defined again - the
// dropped job's tasks end". A burst of requests that arrives afterwards behaves like any burst: the newest job starts as
// soon as its delay has passed (nothing of the pipeline is running or waiting any more), the replaced ones never run.
func RunDelayedAfterUndefinedCase(seed int64) *HistResult {
	res := &HistResult{Seed: seed, Situations: map[string]map[string]struct{}{}, Evaluations: map[string]int{}}
	find := func(props []string, sig, format string, args ...any) {
		res.Findings = append(res.Findings, Finding{Props: props, Sig: sig, Detail: fmt.Sprintf(format, args...), Step: -1})
	}
	replace := seed%2 == 0
	save := (seed/2)%3 != 2 // two of three variants save while the pipeline is undefined
	endHow := int(seed/6) % 2
	burst := 1 + int(seed/12)%3
	lim := 1
	def := definition.PipelineDef{Concurrency: 1, QueueLimit: &lim, StartDelay: gen.LongDelay, SourcePath: "gen", Tasks: map[string]definition.TaskDef{"t": {Script: []string{"true"}}}}
	if replace {
		def.QueueStrategy = definition.QueueStrategyReplace
	} else {
		def.QueueLimit = nil
	}
	other := definition.PipelineDef{Concurrency: 1, SourcePath: "gen", Tasks: map[string]definition.TaskDef{"t": {Script: []string{"true"}}}}
	with := &definition.PipelinesDef{Pipelines: map[string]definition.PipelineDef{"d": def, "other": other}}
	without := &definition.PipelinesDef{Pipelines: map[string]definition.PipelineDef{"other": other}}
	sys, err := core.NewSys(with, &core.RecStore{}, core.NewMemOutputStore())
	if err != nil {
		res.Inconclusive = err.Error()
		return res
	}
	defer sys.Close()
	defer DrainAll(sys)
	quiesce := func() (core.View, bool) {
		v, err := sys.Quiesce(core.QuiesceOpts{Watchdog: 20 * time.Second})
		if err != nil {
			res.Inconclusive = "watchdog: " + err.Error()
			return v, false
		}
		return v, true
	}
	j1, cls := sys.Schedule(0, "d", nil, "u")
	if cls != "ok" {
		res.Inconclusive = "schedule: " + cls
		return res
	}
	sys.FireDelay(0, j1)
	if _, ok := quiesce(); !ok {
		return res
	}
	if j, ok := sys.ReadJob(j1); !ok || j.Start == nil {
		find([]string{"C07", "C03"}, "C07:delay-expired-and-slot-free-but-not-started", "the first job of an idle delayed pipeline did not start after its delay had passed")
		return res
	}
	sys.Replace(0, without, "remove d")
	if save {
		sys.Save(0)
	}
	// the job ends (its tasks run to their end, or it is canceled if it is still known)
	if endHow == 1 {
		sys.Cancel(0, j1)
	}
	sys.Release(j1, "t", core.Outcome{Kind: core.OutOK})
	stable, last := 0, int64(-1)
	for i := 0; i < 20000 && stable < 20; i++ {
		// (a job that was dropped from the job list is invisible to Quiesce: its scheduler loop is followed through the
		// iteration counter; this wait only shapes the scenario)
		c, _ := sys.IterCount(j1)
		if c == last && !sys.Gates.AtGate(j1, "t") {
			stable++
		} else {
			stable, last = 0, c
		}
		time.Sleep(300 * time.Microsecond)
	}
	if save {
		sys.Save(0)
	}
	sys.Replace(0, with, "re-add d")
	v, ok := quiesce()
	if !ok {
		return res
	}
	for i := range v.Jobs {
		if v.Jobs[i].Pipeline == "d" && (v.Jobs[i].Running() || v.Jobs[i].Waiting()) {
			// (without the save the first job is still known; it has ended by now)
			res.Inconclusive = "the first job did not end"
			return res
		}
	}
	var ids []string
	for i := 0; i < burst; i++ {
		id, cls := sys.Schedule(0, "d", nil, "burst")
		if cls != "ok" {
			find([]string{"C07", "C05"}, "C05:request-for-idle-delayed-pipeline-rejected", "request %d of a burst for the re-defined delayed pipeline (nothing of it running or waiting before the burst) was rejected: %s", i, cls)
			return res
		}
		ids = append(ids, id)
	}
	sit := fmt.Sprintf("burst of %d on a delayed pipeline (replace=%v) that was undefined while its job ran (save while undefined=%v, job ended by %d)", burst, replace, save, endHow)
	res.sit("C07", sit)
	res.Evaluations["C07"]++
	// the delays pass, oldest first (under replace only the newest is still waiting)
	for _, id := range ids {
		sys.FireDelay(0, id)
	}
	v, ok = quiesce()
	if !ok {
		return res
	}
	executing := 0
	for i := range v.Jobs {
		if v.Jobs[i].Pipeline == "d" && v.Jobs[i].Executing() {
			executing++
		}
	}
	for i, id := range ids {
		j := v.ByID(id)
		if j == nil {
			continue
		}
		newest := i == len(ids)-1
		if replace && !newest {
			if !j.Canceled || j.Start != nil {
				find([]string{"C07"}, "C07:replaced-job-not-canceled", "%s: request %d was replaced by a newer one and is reported started=%v canceled=%v", sit, i, j.Start != nil, j.Canceled)
			}
			continue
		}
		if j.Start == nil && !j.Canceled && executing == 0 {
			find([]string{"C07", "C03"}, "C07:delay-expired-and-slot-free-but-not-started", "%s: job %d of the burst waits although its start delay handler has returned and nothing of the pipeline is executing", sit, i)
			break
		}
	}
	res.Events = sys.Log.Len()
	return res
}
