package drv

import (
	"fmt"
	"math/rand"
	"os"
	"path/filepath"
	"time"

	"github.com/Flowpack/prunner/definition"
	"github.com/Flowpack/prunner/store"

	"pxverif/core"
)

// RunLifecycleCase (C15): what ListPipelines says about a pipeline agrees with the job list and with what the next
// schedule request does - across the whole life cycle of a pipeline definition: jobs running / waiting, reload that
// removes the pipeline, saves (which drop the jobs of undefined pipelines, whatever their state), the dropped jobs ending
// afterwards, reload that defines the pipeline again. All oracles are model-free: they compare two things the runner
// itself reports at the same logical quiescence (flags vs job list) or a flag with the outcome of the request issued
// immediately afterwards.
func RunLifecycleCase(seed int64, workDir string) *HistResult {
	r := rand.New(rand.NewSource(seed))
	res := &HistResult{Seed: seed, Situations: map[string]map[string]struct{}{}, Evaluations: map[string]int{}}
	step := 0
	find := func(sig, format string, args ...any) {
		res.Findings = append(res.Findings, Finding{Props: []string{"C15"}, Sig: sig, Detail: fmt.Sprintf(format, args...), Step: step})
	}
	jr := func(format string, args ...any) {
		res.Journal = append(res.Journal, fmt.Sprintf("%02d ", step)+fmt.Sprintf(format, args...))
		step++
	}
	mkDef := func(conc int, limit *int, chain bool) definition.PipelineDef {
		d := definition.PipelineDef{Concurrency: conc, QueueLimit: limit, Tasks: map[string]definition.TaskDef{"a": {Script: []string{"true"}}}}
		if chain {
			d.Tasks["b"] = definition.TaskDef{Script: []string{"true"}, DependsOn: []string{"a"}}
		}
		return d
	}
	intp := func(i int) *int { return &i }
	type pipe struct {
		name    string
		def     definition.PipelineDef
		defined bool
	}
	nP := 2 + r.Intn(2)
	pipes := make([]*pipe, nP)
	for i := range pipes {
		var lim *int
		if r.Intn(3) == 0 {
			lim = intp(1 + r.Intn(2))
		}
		pipes[i] = &pipe{name: fmt.Sprintf("p%d", i), def: mkDef(1+r.Intn(2), lim, r.Intn(2) == 0), defined: true}
	}
	build := func() *definition.PipelinesDef {
		d := &definition.PipelinesDef{Pipelines: map[string]definition.PipelineDef{}}
		for _, p := range pipes {
			if p.defined {
				d.Pipelines[p.name] = p.def
			}
		}
		return d
	}
	var st store.DataStore
	withStore := r.Intn(5) != 0
	if withStore {
		dir, err := os.MkdirTemp(workDir, "life-")
		if err != nil {
			res.Inconclusive = err.Error()
			return res
		}
		defer os.RemoveAll(dir)
		js, err := store.NewJSONDataStore(filepath.Join(dir, "data"))
		if err != nil {
			res.Inconclusive = err.Error()
			return res
		}
		st = js
	}
	core.SetPause(200 * time.Microsecond)
	sys, err := core.NewSys(build(), st, core.NewMemOutputStore())
	if err != nil {
		res.Inconclusive = err.Error()
		return res
	}
	defer sys.Close()
	defer func() { res.Events = sys.Log.Len() }()
	quiesce := func() (core.View, bool) {
		v, err := sys.Quiesce(core.QuiesceOpts{Watchdog: 30 * time.Second})
		if err != nil {
			res.Inconclusive = err.Error()
			return v, false
		}
		return v, true
	}
	pipeOf := map[string]string{}
	// check: flags vs job list, at a quiescence
	check := func(where string) bool {
		v, ok := quiesce()
		if !ok {
			return false
		}
		flags := map[string][2]bool{}
		for _, pi := range sys.ListPipelines(-1) {
			flags[pi.Pipeline] = [2]bool{pi.Running, pi.Schedulable}
		}
		for _, p := range pipes {
			fl, listed := flags[p.name]
			if listed != p.defined {
				find("C15:pipeline-listing-vs-definitions", "%s: pipeline %s defined=%v but listed=%v", where, p.name, p.defined, listed)
				continue
			}
			if !listed {
				continue
			}
			running, waiting := 0, 0
			for i := range v.Jobs {
				if v.Jobs[i].Pipeline == p.name {
					if v.Jobs[i].Running() {
						running++
					}
					if v.Jobs[i].Waiting() {
						waiting++
					}
				}
			}
			res.sit("C15", fmt.Sprintf("lifecycle %s flags running=%v schedulable=%v listedRunning=%d listedWaiting=%d", where, fl[0], fl[1], min(running, 2), min(waiting, 2)))
			if fl[0] != (running > 0) {
				find("C15:running-flag-vs-jobs", "%s: pipeline %s is listed running=%v but the job list holds %d running jobs of it", where, p.name, fl[0], running)
			}
		}
		return true
	}
	// schedule with the flag read immediately before
	schedule := func(p *pipe, where string) string {
		v, ok := quiesce()
		if !ok {
			return ""
		}
		var fl *[2]bool
		for _, pi := range sys.ListPipelines(-1) {
			if pi.Pipeline == p.name {
				fl = &[2]bool{pi.Running, pi.Schedulable}
			}
		}
		running, waiting := 0, 0
		for i := range v.Jobs {
			if v.Jobs[i].Pipeline == p.name {
				if v.Jobs[i].Running() {
					running++
				}
				if v.Jobs[i].Waiting() {
					waiting++
				}
			}
		}
		id, cls := sys.Schedule(0, p.name, nil, "u")
		jr("schedule %s (%s) -> %s", p.name, where, cls)
		if fl != nil {
			res.sit("C15", fmt.Sprintf("lifecycle schedule %s schedulable=%v accepted=%v", where, fl[1], cls == "ok"))
			if fl[1] != (cls == "ok") {
				find("C15:schedulable-flag-vs-next-request", "%s: pipeline %s was listed schedulable=%v and the schedule request issued immediately afterwards returned %q", where, p.name, fl[1], cls)
			}
		}
		if cls != "ok" {
			return ""
		}
		pipeOf[id] = p.name
		if j, ok := sys.ReadJob(id); ok {
			// the API showed no job of the pipeline running or waiting: the runner must treat the pipeline as idle
			if running == 0 && waiting == 0 && j.Start == nil && !j.Canceled {
				find("C15:idle-pipeline-does-not-start-job", "%s: no job of pipeline %s was reported running or waiting (running flag %v), yet the accepted job was queued instead of started", where, p.name, fl != nil && fl[0])
			}
			if running >= p.def.Concurrency && j.Start != nil && where == "steady" {
				find("C15:started-beyond-reported-running", "%s: %d jobs of pipeline %s were reported running (concurrency %d), yet the accepted job was started", where, running, p.name, p.def.Concurrency)
			}
		}
		return id
	}
	releaseAll := func(filter func(job string) bool) {
		// release gates until none is left and the loops of these jobs stopped iterating (jobs dropped from the job list
		// are invisible to Quiesce; this wait only shapes the scenario, it is no verdict)
		stable := 0
		last := map[string]int64{}
		for i := 0; i < 20000 && stable < 15; i++ {
			did := false
			for _, k := range sys.Gates.Waiting() {
				if filter(k[0]) {
					sys.Release(k[0], k[1], core.Outcome{Kind: core.OutOK})
					did = true
				}
			}
			changed := did
			for id := range pipeOf {
				if filter(id) {
					c, _ := sys.IterCount(id)
					if c != last[id] {
						last[id] = c
						changed = true
					}
				}
			}
			if changed {
				stable = 0
			} else {
				stable++
			}
			time.Sleep(300 * time.Microsecond)
		}
	}
	rounds := 1 + r.Intn(3)
	for round := 0; round < rounds && res.Inconclusive == ""; round++ {
		target := pipes[r.Intn(len(pipes))]
		if !target.defined {
			continue
		}
		// jobs on the target (running + waiting) and on the others
		for i, n := 0, 1+r.Intn(4); i < n; i++ {
			schedule(target, "steady")
		}
		for _, p := range pipes {
			if p != target && p.defined && r.Intn(2) == 0 {
				schedule(p, "steady")
			}
		}
		if !check("jobs scheduled") {
			break
		}
		if r.Intn(3) == 0 {
			// let the first task of the running jobs end
			for _, k := range sys.Gates.Waiting() {
				if pipeOf[k[0]] == target.name && r.Intn(2) == 0 {
					sys.Release(k[0], k[1], core.Outcome{Kind: core.OutOK})
				}
			}
			if !check("some tasks done") {
				break
			}
		}
		// the pipeline disappears from the definitions
		target.defined = false
		sys.Replace(0, build(), "remove "+target.name)
		jr("reload: remove %s", target.name)
		if !check("pipeline removed") {
			break
		}
		saveBefore := r.Intn(4) != 0
		if saveBefore {
			sys.Save(0)
			jr("save")
			if !check("saved while undefined") {
				break
			}
		}
		endHow := r.Intn(4)
		switch endHow {
		case 0, 1:
			releaseAll(func(job string) bool { return pipeOf[job] == target.name })
			jr("jobs of %s run to their end", target.name)
		case 2:
			for id, p := range pipeOf {
				if p == target.name {
					sys.Cancel(0, id)
				}
			}
			releaseAll(func(job string) bool { return pipeOf[job] == target.name })
			jr("jobs of %s canceled", target.name)
		case 3:
			jr("jobs of %s keep running", target.name)
		}
		if !check("undefined, jobs ended") {
			break
		}
		if r.Intn(2) == 0 {
			sys.Save(0)
			jr("save")
			if !check("saved again") {
				break
			}
		}
		// ... and is defined again (possibly with another concurrency)
		if r.Intn(2) == 0 {
			target.def.Concurrency = 1 + r.Intn(2)
		}
		target.defined = true
		sys.Replace(0, build(), "re-add "+target.name)
		jr("reload: re-add %s (concurrency %d)", target.name, target.def.Concurrency)
		res.sit("C15", fmt.Sprintf("lifecycle store=%v saveWhileUndefined=%v end=%d", withStore, saveBefore, endHow))
		if !check("pipeline defined again") {
			break
		}
		for i, n := 0, 1+r.Intn(3); i < n; i++ {
			schedule(target, "after re-add")
		}
		if !check("scheduled after re-add") {
			break
		}
		releaseAll(func(string) bool { return true })
		if !check("round drained") {
			break
		}
	}
	releaseAll(func(string) bool { return true })
	if len(res.Findings) > 0 {
		res.Inconclusive = ""
	}
	return res
}

// RunReloadAllowFailureCase (C16): a job is accepted with an allow_failure task; a reload then makes that failure
// not allowed any more (or removes the task); the task then fails in a way the runner does not report (it fails before its
// script runs). The job was accepted under the old definition: the failure is allowed, the dependent runs, the sibling
// is left alone, the job is not canceled.
func RunReloadAllowFailureCase(seed int64, variant int) *HistResult {
	res := &HistResult{Seed: seed, Situations: map[string]map[string]struct{}{}, Evaluations: map[string]int{}}
	find := func(sig, format string, args ...any) {
		res.Findings = append(res.Findings, Finding{Props: []string{"C16"}, Sig: sig, Detail: fmt.Sprintf(format, args...), Step: -1})
	}
	mk := func(allow bool, withX bool, cont bool) *definition.PipelinesDef {
		d := definition.PipelineDef{Concurrency: 2, ContinueRunningTasksAfterFailure: cont, SourcePath: "gen", Tasks: map[string]definition.TaskDef{
			"s": {Script: []string{"true"}},
		}}
		if withX {
			d.Tasks["x"] = definition.TaskDef{Script: []string{"true"}, AllowFailure: allow}
			d.Tasks["y"] = definition.TaskDef{Script: []string{"true"}, DependsOn: []string{"x"}}
		} else {
			d.Tasks["y"] = definition.TaskDef{Script: []string{"true"}}
		}
		return &definition.PipelinesDef{Pipelines: map[string]definition.PipelineDef{"p": d}}
	}
	cont := (variant/4)%2 == 1
	core.SetPause(200 * time.Microsecond)
	sys, err := core.NewSys(mk(true, true, cont), nil, core.NewMemOutputStore())
	if err != nil {
		res.Inconclusive = err.Error()
		return res
	}
	defer sys.Close()
	defer DrainAll(sys)
	// when is the job accepted relative to the reload: running (0), waiting behind a busy slot (1)
	var blockers []string
	if variant%2 == 1 {
		for i := 0; i < 2; i++ {
			id, _ := sys.Schedule(0, "p", nil, "u")
			blockers = append(blockers, id)
		}
	}
	id, cls := sys.Schedule(0, "p", nil, "u")
	if cls != "ok" {
		res.Inconclusive = "schedule: " + cls
		return res
	}
	q := func() bool {
		if _, err := sys.Quiesce(core.QuiesceOpts{Watchdog: 20 * time.Second}); err != nil {
			res.Inconclusive = err.Error()
			return false
		}
		return true
	}
	if !q() {
		return res
	}
	removeTask := (variant/2)%2 == 1
	sys.Replace(0, mk(false, !removeTask, cont), "allow_failure of x switched off / x removed")
	res.sit("C16", fmt.Sprintf("allow_failure task fails unreported after a reload (task removed=%v, job waiting at reload=%v, continue=%v)", removeTask, variant%2 == 1, cont))
	res.Evaluations["C16"]++
	for _, b := range blockers {
		for _, tn := range []string{"s", "x"} {
			if sys.Gates.AtGate(b, tn) {
				sys.Release(b, tn, core.Outcome{Kind: core.OutOK})
			}
		}
		if !q() {
			return res
		}
		if sys.Gates.AtGate(b, "y") {
			sys.Release(b, "y", core.Outcome{Kind: core.OutOK})
		}
		if !q() {
			return res
		}
	}
	if !sys.Gates.AtGate(id, "x") || !sys.Gates.AtGate(id, "s") {
		res.Inconclusive = "the job's tasks x and s are not inside the runner"
		return res
	}
	sys.Release(id, "x", core.Outcome{Kind: core.OutErrQuiet})
	if !q() {
		return res
	}
	canceled := false
	for _, e := range sys.Log.Events() {
		if e.Job == id && (e.Kind == core.KCancelSpawned || e.Kind == core.KCancelEnter) {
			canceled = true
		}
	}
	if canceled {
		find("C16:reload-changed-failure-handling-of-accepted-job", "the job was accepted with allow_failure for task x; after a reload (task removed=%v) x failed and the job's other tasks were told to stop", removeTask)
	} else if !sys.Gates.AtGate(id, "y") {
		find("C16:reload-changed-failure-handling-of-accepted-job", "the job was accepted with allow_failure for task x; after a reload (task removed=%v) x failed and its dependent y was not started", removeTask)
	}
	DrainAll(sys)
	if j, ok := sys.ReadJob(id); ok && (j.Canceled || !j.Completed) {
		find("C16:reload-canceled-existing-job", "the job accepted with allow_failure for task x ended completed=%v canceled=%v error=%q after x failed (reload in between: task removed=%v)", j.Completed, j.Canceled, j.LastError, removeTask)
	}
	res.Events = sys.Log.Len()
	return res
}
