package drv

import (
	"context"
	"errors"
	"fmt"
	"math/rand"
	"os"
	"path/filepath"
	"sort"
	"sync"
	"sync/atomic"
	"time"

	"github.com/Flowpack/prunner"
	"github.com/Flowpack/prunner/definition"
	"github.com/Flowpack/prunner/taskctl"
	"github.com/taskctl/taskctl/pkg/task"
	"github.com/taskctl/taskctl/pkg/variables"

	"pxverif/core"
	"pxverif/gen"
)

// CancelVariant enumerates the instants at which the directed cancel sweep delivers the cancel
type CancelVariant int

const (
	CvParkedDeliveredBeforeRelease              CancelVariant = iota // loop parked at an iteration boundary, cancel fully delivered, then released
	CvParkedReleaseRacesDelivery                                     // loop parked, cancel acknowledged and loop released at the same time
	CvInsideRun                                                      // some task is inside Run
	CvRacingLastExit                                                 // cancel issued together with the release of the last task
	CvWaitingBehindBusy                                              // job waits behind a busy slot (no delay)
	CvWaitingPendingDelay                                            // job waits with a pending start delay
	CvWaitingExpiredDelayBehindBusy                                  // delay expired, but the slot is busy
	CvDuplicateConcurrent                                            // two concurrent cancels of the same running job
	CvDeliveredAtRunEntry                                            // the cancel is delivered between the scheduler's launch of a task and the runner's entry: the runner refuses it
	CvInsideRunDuringGracefulShutdown                                // like inside-run, but a graceful Shutdown is waiting for the job when the cancel arrives
	CvSiblingStillStoppingWhileTaskBecomesReady                      // a task becomes ready (its dependency ended in time) while a sibling of the canceled job is still stopping
	cvCount
)

func (v CancelVariant) String() string {
	return [...]string{"parked-delivered-before-release", "parked-release-races-delivery", "inside-run", "racing-last-exit", "waiting-behind-busy", "waiting-pending-delay", "waiting-expired-delay-behind-busy", "duplicate-concurrent", "delivered-at-run-entry", "inside-run-during-graceful-shutdown", "sibling-still-stopping-while-task-becomes-ready"}[v]
}

// NumCancelVariants is the number of variants
const NumCancelVariants = int(cvCount)

// CancelOpts selects one directed case
type CancelOpts struct {
	Variant  CancelVariant
	Shape    int  // graph shape index
	Boundary int  // number of tasks finished before the cancel (taken modulo the number of tasks)
	Real     bool // use the real TaskRunner with shell scripts instead of the monitored runner
	TmpDir   string
	Watchdog time.Duration
}

func topoOrder(g gen.Graph, r *rand.Rand) []string {
	done := map[string]bool{}
	var out []string
	for len(out) < len(g.Names) {
		var ready []string
		for _, n := range g.Names {
			if done[n] {
				continue
			}
			ok := true
			for _, d := range g.Deps[n] {
				if !done[d] {
					ok = false
				}
			}
			if ok {
				ready = append(ready, n)
			}
		}
		sort.Strings(ready)
		pick := ready[r.Intn(len(ready))]
		done[pick] = true
		out = append(out, pick)
	}
	return out
}

// recRunner wraps the real task runner and records calls under kinds that the generic offline checkers ignore
type recRunner struct {
	inner  taskctl.Runner
	log    *core.Log
	job    string
	before func(job, taskName string)
}

func (r *recRunner) SetOnTaskChange(f func(t *task.Task)) { r.inner.SetOnTaskChange(f) }
func (r *recRunner) Run(t *task.Task) error {
	if r.before != nil {
		r.before(r.job, t.Name)
	}
	r.log.Add(core.Event{Kind: "real-run-call", Job: r.job, Task: t.Name})
	err := r.inner.Run(t)
	res := "ok"
	if err != nil {
		res = err.Error()
	}
	r.log.Add(core.Event{Kind: "real-run-ret", Job: r.job, Task: t.Name, Res: res})
	return err
}
func (r *recRunner) Cancel() {
	r.log.Add(core.Event{Kind: core.KCancelEnter, Job: r.job})
	r.inner.Cancel()
	r.log.Add(core.Event{Kind: core.KCancelExit, Job: r.job})
}
func (r *recRunner) Finish() { r.inner.Finish() }

// RunCancelCase executes one directed cancel scenario
func RunCancelCase(seed int64, o CancelOpts) *HistResult {
	r := rand.New(rand.NewSource(seed))
	res := &HistResult{Seed: seed, Situations: map[string]map[string]struct{}{}, Evaluations: map[string]int{}}
	if o.Watchdog == 0 {
		o.Watchdog = 30 * time.Second
	}
	g := gen.Shape(r, o.Shape)
	if o.Shape >= 7 {
		g = gen.RandDAG(r, 2+r.Intn(5), 0.45)
	}
	if o.Variant == CvSiblingStillStoppingWhileTaskBecomesReady {
		// two independent branches: "long" keeps running after it was told to stop; x -> y (-> z): x ends just before the stop
		g = gen.Graph{Names: []string{"long", "x", "y"}, Deps: map[string][]string{"y": {"x"}}}
		switch o.Shape % 3 {
		case 1:
			g = gen.Graph{Names: []string{"long", "x", "y", "z"}, Deps: map[string][]string{"y": {"x"}, "z": {"y"}}}
		case 2:
			g = gen.Graph{Names: []string{"long", "long2", "x", "y", "y2"}, Deps: map[string][]string{"y": {"x"}, "y2": {"x"}}}
		}
	}
	waitingVariant := o.Variant == CvWaitingBehindBusy || o.Variant == CvWaitingPendingDelay || o.Variant == CvWaitingExpiredDelayBehindBusy
	def := definition.PipelineDef{Concurrency: 1, Tasks: map[string]definition.TaskDef{}, ContinueRunningTasksAfterFailure: r.Intn(2) == 0, SourcePath: "gen/cancel.yml"}
	if o.Variant == CvWaitingPendingDelay || o.Variant == CvWaitingExpiredDelayBehindBusy {
		def.StartDelay = gen.LongDelay
	}
	marker := filepath.Join(o.TmpDir, fmt.Sprintf("ran-%d", seed))
	for _, n := range g.Names {
		td := definition.TaskDef{Script: []string{"echo " + n}, DependsOn: g.Deps[n], AllowFailure: r.Intn(5) == 0}
		if o.Real {
			// a real task: leaves a marker file when it actually executes, then sleeps a little while (interruptible)
			td.Script = []string{fmt.Sprintf("echo x >> %s-{{.jobtag}}-%s; sleep 0.03", marker, n)}
			td.AllowFailure = false
		}
		def.Tasks[n] = td
	}
	spec := gen.PipeSpec{Name: "p0", Def: def, Graph: g}
	var out taskctl.OutputStore
	if o.Real {
		var err error
		out, err = taskctl.NewOutputStore(filepath.Join(o.TmpDir, fmt.Sprintf("logs-%d", seed)))
		if err != nil {
			res.Inconclusive = err.Error()
			return res
		}
		defer os.RemoveAll(filepath.Join(o.TmpDir, fmt.Sprintf("logs-%d", seed)))
	}
	sys, err := core.NewSys(gen.BuildDefs([]gen.PipeSpec{spec}), nil, out)
	if err != nil {
		res.Inconclusive = err.Error()
		return res
	}
	defer sys.Close()
	var beforeRun atomic.Pointer[func(job, taskName string)]
	sys.Gates.SetBeforeRun(func(job, taskName string) {
		if f := beforeRun.Load(); f != nil {
			(*f)(job, taskName)
		}
	})
	if o.Real {
		sys.MakeRunner = func(j *prunner.PipelineJob) taskctl.Runner {
			tr, _ := taskctl.NewTaskRunner(out, taskctl.WithEnv(variables.FromMap(j.Env)), taskctl.WithKillTimeout(200*time.Millisecond))
			tr.Stdout, tr.Stderr = nil, nil
			return &recRunner{inner: tr, log: sys.Log, job: j.ID.String(), before: func(job, taskName string) {
				if f := beforeRun.Load(); f != nil {
					(*f)(job, taskName)
				}
			}}
		}
	}
	q := &seqRun{o: HistOpts{Watchdog: o.Watchdog}, r: r, sys: sys, specs: []gen.PipeSpec{spec}, byID: map[string]*JobRec{}, res: res}
	jn := func(id string) string { return q.jn(id) }
	find := func(sig, format string, args ...any) {
		res.Findings = append(res.Findings, Finding{Props: []string{"C04"}, Sig: sig, Detail: fmt.Sprintf(format, args...), Step: q.step})
	}
	schedule := func(tag string) string {
		id, cls := sys.Schedule(0, "p0", map[string]interface{}{"jobtag": tag}, "u")
		if cls != "ok" {
			res.Inconclusive = "schedule rejected: " + cls
			return ""
		}
		rec := &JobRec{Ord: len(q.jobs) + 1, ID: id, Pipe: "p0", Spec: spec}
		q.jobs = append(q.jobs, rec)
		q.byID[id] = rec
		q.journal("schedule -> J%d", rec.Ord)
		return id
	}
	quiesce := func() bool {
		if o.Real {
			return true
		}
		if _, err := sys.Quiesce(core.QuiesceOpts{Watchdog: o.Watchdog}); err != nil {
			res.Inconclusive = err.Error()
			q.journal("WATCHDOG %v", err)
			return false
		}
		return true
	}
	waitFor := func(what string, cond func() bool) bool {
		deadline := time.Now().Add(o.Watchdog)
		for !cond() {
			if time.Now().After(deadline) {
				res.Inconclusive = "watchdog: " + what
				q.journal("WATCHDOG %s", what)
				return false
			}
			time.Sleep(50 * time.Microsecond)
		}
		return true
	}
	countKind := func(k core.Kind, job string) int {
		n := 0
		for _, e := range sys.Log.Events() {
			if e.Kind == k && e.Job == job {
				n++
			}
		}
		return n
	}
	order := topoOrder(g, r)
	q.journal("variant %s shape=%d tasks=%v deps=%v order=%v real=%v", o.Variant, o.Shape, g.Names, g.Deps, order, o.Real)
	key := fmt.Sprintf("%s real=%v tasks=%d", o.Variant, o.Real, len(g.Names))

	var target, runFollower string
	var shutdownDone chan struct{}
	var expectNeverRuns bool
	var expectCanceled bool // strict: the job must end reported canceled
	doneBefore := 0

	if waitingVariant {
		blocker := schedule("blk")
		if blocker == "" {
			return res
		}
		if o.Variant != CvWaitingBehindBusy {
			// delayed pipeline: the blocker itself must be started first
			sys.FireDelay(0, blocker)
		}
		if !o.Real && !quiesce() {
			return res
		}
		target = schedule("tgt")
		follower := schedule("fol")
		if target == "" || follower == "" {
			return res
		}
		if o.Variant == CvWaitingExpiredDelayBehindBusy {
			sys.FireDelay(0, target)
		}
		cls := sys.Cancel(0, target)
		q.journal("cancel J2 (waiting) -> %s", cls)
		if cls != "ok" {
			find("C04:cancel-result", "cancel of waiting job returned %q", cls)
		}
		// canceling again is a no-op without error
		if cls2 := sys.Cancel(0, target); cls2 != "ok" {
			find("C04:second-cancel-not-a-noop", "second cancel of the waiting job returned %q", cls2)
		}
		// a late timer of the canceled job must be a no-op
		sys.FireDelay(0, target)
		sys.FireDelay(0, follower)
		expectNeverRuns = true
		expectCanceled = true
		key += " blockerRunning"
	} else {
		b := o.Boundary % (len(order) + 1)
		parkedVariant := o.Variant == CvParkedDeliveredBeforeRelease || o.Variant == CvParkedReleaseRacesDelivery
		if parkedVariant && b == len(order) {
			b = len(order) - 1
		}
		if parkedVariant && b == 0 {
			// boundary 0: park the very first iteration of the job (before anything is launched)
			var once sync.Once
			sys.SetParkAll(func(job string, count int64, st map[string]int32) bool {
				hit := false
				if count == 1 {
					once.Do(func() { hit = true })
				}
				return hit
			})
		}
		if o.Variant == CvDeliveredAtRunEntry {
			// the hook must be in place before the job exists (the victim may be the first task)
			if b == len(order) {
				b = len(order) - 1
			}
			victim := order[b]
			var once sync.Once
			hook := func(job, taskName string) {
				if taskName != victim {
					return
				}
				once.Do(func() {
					// the scheduler has decided to launch this task; the cancel is acknowledged and completely delivered before
					// the runner gets to look at the task
					cls := sys.Cancel(0, job)
					q.journal("cancel J1 at the runner entry of %s -> %s", victim, cls)
					waitFor("cancel delivered", func() bool { return countKind(core.KCancelExit, job) >= 1 })
				})
			}
			beforeRun.Store(&hook)
		}
		target = schedule("tgt")
		if target == "" {
			return res
		}
		if !o.Real && seed%2 == 0 {
			// a job queued behind the one that is going to be canceled: whatever the instant of the cancel, it gets its turn
			runFollower = schedule("fol")
			key += " follower"
		}
		switch o.Variant {
		case CvParkedDeliveredBeforeRelease, CvParkedReleaseRacesDelivery:
			// finish b tasks in topological order, then park the loop at the first boundary where exactly those are done
			// and nothing runs (if the graph allows it; otherwise with the other ready tasks inside Run)
			wantDone := map[string]bool{}
			for _, n := range order[:b] {
				wantDone[n] = true
			}
			pred := func(count int64, st map[string]int32) bool {
				if o.Real {
					// the real run's completion order is not driver-chosen: b tasks done and nothing running
					nd := 0
					for _, s := range st {
						if s == 1 {
							return false
						}
						if s == 3 {
							nd++
						}
					}
					return nd == b
				}
				for n, s := range st {
					if wantDone[n] != (s == 3) { // 3 = done
						return false
					}
				}
				return true
			}
			if !o.Real {
				for i, n := range order[:b] {
					if i == b-1 {
						sys.ParkWhen(target, pred)
					}
					if !waitFor("task at gate "+n, func() bool { return sys.Gates.AtGate(target, n) }) {
						return res
					}
					sys.Release(target, n, core.Outcome{Kind: core.OutOK})
					if i < b-1 && !quiesce() {
						return res
					}
				}
			} else if b > 0 {
				sys.ParkWhen(target, pred)
			}
			parkedOK := waitFor("loop parked", func() bool {
				p, _ := sys.Parked(target)
				if p {
					return true
				}
				// missed the window (the pass saw the completion before the hook did): the job moved on or finished
				if j, ok := sys.ReadJob(target); ok && j.Completed {
					return true
				}
				return false
			})
			if !parkedOK {
				return res
			}
			if p, st := sys.Parked(target); !p {
				q.journal("window missed: loop was not parked at the boundary")
				res.sit("C04", "window-missed "+key)
				res.Inconclusive = ""
				doneBefore = -1
			} else {
				nRunning := 0
				for _, s := range st {
					if s == 1 {
						nRunning++
					}
				}
				doneBefore = b
				key += fmt.Sprintf(" done=%d runningAtPark=%d", b, nRunning)
				q.journal("parked with statuses %v", st)
			}
			if doneBefore >= 0 {
				if o.Variant == CvParkedDeliveredBeforeRelease {
					cls := sys.Cancel(0, target)
					q.journal("cancel J1 (parked) -> %s", cls)
					if cls != "ok" {
						find("C04:cancel-result", "cancel of running job returned %q", cls)
					}
					// delivery is observed, not assumed; tasks inside Run (other branches) stop, Cancel returns
					if !waitFor("cancel delivered", func() bool { return countKind(core.KCancelExit, target) >= 1 }) {
						return res
					}
					sys.Unpark(target)
					expectCanceled = true
				} else {
					var wg sync.WaitGroup
					wg.Add(2)
					go func() { defer wg.Done(); sys.Cancel(0, target) }()
					go func() { defer wg.Done(); sys.Unpark(target) }()
					wg.Wait()
					q.journal("cancel and release issued concurrently")
				}
			}
		case CvInsideRun, CvDuplicateConcurrent, CvInsideRunDuringGracefulShutdown:
			if b == len(order) {
				b = len(order) - 1
			}
			if o.Variant == CvInsideRunDuringGracefulShutdown && o.Real {
				res.Inconclusive = "variant is run with the monitored runner only"
				return res
			}
			if !o.Real {
				for _, n := range order[:b] {
					if !waitFor("task at gate "+n, func() bool { return sys.Gates.AtGate(target, n) }) {
						return res
					}
					sys.Release(target, n, core.Outcome{Kind: core.OutOK})
					if !quiesce() {
						return res
					}
				}
			} else {
				time.Sleep(time.Duration(r.Intn(40)) * time.Millisecond)
			}
			doneBefore = b
			key += fmt.Sprintf(" done=%d", b)
			if o.Variant == CvDuplicateConcurrent {
				var wg sync.WaitGroup
				results := make([]string, 3)
				for i := range results {
					wg.Add(1)
					go func(i int) { defer wg.Done(); results[i] = sys.Cancel(i+1, target) }(i)
				}
				wg.Wait()
				q.journal("3 concurrent cancels -> %v", results)
				for _, c := range results {
					if c != "ok" && c != "already-completed" {
						find("C04:cancel-result", "concurrent cancel returned %q", c)
					}
				}
			} else {
				if o.Variant == CvInsideRunDuringGracefulShutdown {
					// a graceful shutdown (no deadline) only waits for the job; the API keeps answering meanwhile, and a
					// cancel acknowledged in that window has to take effect like any other
					shutdownDone = make(chan struct{})
					go func() {
						defer close(shutdownDone)
						_ = sys.Shutdown(7, context.Background(), "graceful")
					}()
					// shutdown has begun when schedule requests are refused as such (probe with an undefined pipeline: it can
					// never create a job); bounded wait, the oracle does not depend on it
					for i := 0; i < 4000; i++ {
						if _, cls := sys.Schedule(8, "no-such-pipeline-probe", nil, "probe"); cls == "shutting-down" {
							key += " shutdownObserved"
							break
						}
						time.Sleep(50 * time.Microsecond)
					}
					// an unknown id is still "not found"
					if c := sys.Cancel(0, "ffffffff-ffff-4fff-bfff-ffffffffffff"); c != "not-found" {
						find("C04:cancel-result", "cancel of an unknown id during a graceful shutdown returned %q", c)
					}
				}
				cls := sys.Cancel(0, target)
				q.journal("cancel J1 (inside run, %d done) -> %s", b, cls)
				if !o.Real && cls != "ok" {
					find("C04:cancel-result", "cancel of running job returned %q", cls)
				}
			}
			if !o.Real {
				// the tasks are blocked at their gates: the stop reaches them before the driver lets them go.
				// An acknowledged cancel of a running job that neither initiated a stop (hook H2, fired synchronously inside
				// the cancel call) nor delivered one within 2 s was dropped
				if countKind(core.KCancelSpawned, target) == 0 {
					dl := time.Now().Add(2 * time.Second)
					for countKind(core.KCancelEnter, target) == 0 && time.Now().Before(dl) {
						time.Sleep(200 * time.Microsecond)
					}
					if countKind(core.KCancelEnter, target) == 0 && countKind(core.KCancelSpawned, target) == 0 {
						find("C04:acknowledged-cancel-did-not-initiate-a-stop", "cancel of the running job was acknowledged (%s, %d tasks finished before) but the runner of the job was never told to stop", o.Variant, b)
						expectCanceled = true
						break
					}
				}
				if !waitFor("cancel delivered", func() bool { return countKind(core.KCancelExit, target) >= 1 }) {
					return res
				}
				expectCanceled = true
			}
		case CvSiblingStillStoppingWhileTaskBecomesReady:
			if o.Real {
				res.Inconclusive = "variant is run with the monitored runner only"
				return res
			}
			var roots []string
			for _, n := range g.Names {
				if len(g.Deps[n]) == 0 {
					roots = append(roots, n)
				}
			}
			for _, n := range roots {
				if !waitFor("task at gate "+n, func() bool { return sys.Gates.AtGate(target, n) }) {
					return res
				}
				if n != "x" {
					sys.Gates.MarkSlowStop(target, n)
				}
			}
			if !quiesce() {
				return res
			}
			// park the loop at its next iteration top; while it is parked: x ends successfully (its dependents are ready
			// now), then the job is canceled and the stop is delivered (the slow siblings keep running)
			sys.ParkWhen(target, func(int64, map[string]int32) bool { return true })
			if !waitFor("loop parked", func() bool { p, _ := sys.Parked(target); return p }) {
				return res
			}
			sys.Release(target, "x", core.Outcome{Kind: core.OutOK})
			if !waitFor("x returned", func() bool { return countKind(core.KRunExit, target) >= 1 }) {
				return res
			}
			cls := sys.Cancel(0, target)
			q.journal("cancel J1 (x done, %d siblings still running, loop parked) -> %s", len(roots)-1, cls)
			if cls != "ok" {
				find("C04:cancel-result", "cancel of running job returned %q", cls)
			}
			if !waitFor("stop delivered", func() bool { return countKind(core.KCancelEnter, target) >= 1 }) {
				return res
			}
			sys.Unpark(target)
			// give the loop a few iterations with the siblings still inside the runner, then let them stop
			c0, _ := sys.IterCount(target)
			for i := 0; i < 400; i++ {
				if c, _ := sys.IterCount(target); c >= c0+4 {
					break
				}
				time.Sleep(100 * time.Microsecond)
			}
			for _, n := range roots {
				if n != "x" {
					sys.Gates.ReleaseStop(target, n)
				}
			}
			doneBefore = 1
			expectCanceled = true
			key += fmt.Sprintf(" siblings=%d", len(roots)-1)
		case CvDeliveredAtRunEntry:
			if !o.Real {
				for _, n := range order[:b] {
					// (the victim may be launched together with earlier tasks if the graph allows it: then the cancel is already out)
					delivered := func() bool { return countKind(core.KCancelExit, target) >= 1 }
					if !waitFor("task at gate "+n, func() bool { return sys.Gates.AtGate(target, n) || delivered() }) {
						return res
					}
					if delivered() {
						break
					}
					sys.Release(target, n, core.Outcome{Kind: core.OutOK})
				}
			}
			if !waitFor("cancel delivered at run entry", func() bool { return countKind(core.KCancelExit, target) >= 1 }) {
				return res
			}
			doneBefore = b
			key += fmt.Sprintf(" done=%d", b)
			expectCanceled = true
		case CvRacingLastExit:
			if !o.Real {
				for i, n := range order {
					if !waitFor("task at gate "+n, func() bool { return sys.Gates.AtGate(target, n) }) {
						return res
					}
					if i == len(order)-1 {
						var wg sync.WaitGroup
						wg.Add(2)
						go func() { defer wg.Done(); sys.Release(target, n, core.Outcome{Kind: core.OutOK}) }()
						go func() {
							defer wg.Done()
							time.Sleep(time.Duration(r.Intn(300)) * time.Microsecond)
							sys.Cancel(0, target)
						}()
						wg.Wait()
					} else {
						sys.Release(target, n, core.Outcome{Kind: core.OutOK})
						if !quiesce() {
							return res
						}
					}
				}
			} else {
				time.Sleep(time.Duration(20+r.Intn(30)*len(order)) * time.Millisecond)
				sys.Cancel(0, target)
			}
			q.journal("cancel racing with the exit of the last task")
		}
	}
	res.sit("C04", key)
	res.sit("C03", key)

	// ---- drain: release everything, let every job finish ----
	drainDeadline := time.Now().Add(o.Watchdog)
	for {
		for _, j := range sys.ParkedJobs() {
			sys.Unpark(j)
		}
		if !o.Real {
			for _, k := range sys.Gates.Waiting() {
				sys.Release(k[0], k[1], core.Outcome{Kind: core.OutOK})
			}
			for _, k := range sys.Gates.Stopping() {
				sys.Gates.ReleaseStop(k[0], k[1])
			}
		}
		v := sys.Snapshot(-1)
		allTerminal := true
		for i := range v.Jobs {
			j := &v.Jobs[i]
			if j.Waiting() && j.StartDelay > 0 {
				sys.FireDelay(0, j.ID)
			}
			if !(j.Completed || (j.Canceled && j.Start == nil)) {
				allTerminal = false
			}
		}
		if allTerminal {
			break
		}
		if time.Now().After(drainDeadline) {
			if res.Inconclusive == "" {
				res.Inconclusive = "watchdog: drain"
			}
			break
		}
		time.Sleep(200 * time.Microsecond)
	}
	if shutdownDone != nil {
		select {
		case <-shutdownDone:
		case <-time.After(o.Watchdog):
			if res.Inconclusive == "" {
				res.Inconclusive = "watchdog: graceful shutdown did not return"
			}
		}
	}
	if !o.Real && res.Inconclusive == "" {
		// the log is judged below: a stop that was initiated (cancel goroutine spawned) must have had its chance to reach
		// the runner - the job may have ended before that goroutine got the CPU (found by thorough run 7 under load)
		if _, err := sys.Quiesce(core.QuiesceOpts{Watchdog: o.Watchdog}); err != nil && !errors.Is(err, core.ErrCancelNotDelivered) {
			res.Inconclusive = "watchdog: " + err.Error()
		}
	}
	final := sys.Snapshot(-1)
	tj := final.ByID(target)
	if tj == nil {
		find("C04:job-lost", "the canceled job is not reported any more")
		return res
	}
	q.journal("final: completed=%v canceled=%v error=%q started=%v", tj.Completed, tj.Canceled, tj.LastError, tj.Start != nil)
	ranTask := func(n string) bool {
		if o.Real {
			_, err := os.Stat(fmt.Sprintf("%s-tgt-%s", marker, n))
			return err == nil
		}
		for _, e := range sys.Log.Events() {
			if e.Kind == core.KRunEnter && e.Job == target && e.Task == n {
				return true
			}
		}
		return false
	}
	if expectNeverRuns {
		for _, n := range g.Names {
			if ranTask(n) {
				find("C04:canceled-waiting-job-ran-a-task", "cancel of the waiting job was acknowledged (%s), but its task %s ran later", o.Variant, n)
			}
		}
		if !tj.Canceled || tj.Start != nil {
			find("C04:canceled-unstarted-job-report", "canceled waiting job reported canceled=%v started=%v", tj.Canceled, tj.Start != nil)
		}
		// the follower must still get its turn
		if len(q.jobs) >= 3 {
			fj := final.ByID(q.jobs[2].ID)
			if fj != nil && !fj.Completed {
				res.Findings = append(res.Findings, Finding{Props: []string{"C03", "C04"}, Sig: "C03:follower-of-canceled-job-stranded", Detail: fmt.Sprintf("the job queued behind the canceled one never ran (%s): completed=%v canceled=%v", o.Variant, fj.Completed, fj.Canceled), Step: -1})
			}
		}
	}
	if runFollower != "" && shutdownDone == nil {
		if fj := final.ByID(runFollower); fj != nil && !fj.Completed {
			res.Findings = append(res.Findings, Finding{Props: []string{"C03", "C04"}, Sig: "C03:follower-of-canceled-job-stranded", Detail: fmt.Sprintf("the job queued behind the canceled running job never ran (%s): started=%v completed=%v canceled=%v", o.Variant, fj.Start != nil, fj.Completed, fj.Canceled), Step: -1})
		}
	}
	if doneBefore >= 0 && !waitingVariant {
		unrun := 0
		for _, n := range g.Names {
			if !ranTask(n) {
				unrun++
			}
		}
		if expectCanceled && !tj.Canceled {
			find("C04:canceled-job-not-reported-canceled", "cancel acknowledged (%s, %d tasks finished before, %d never ran); job reported completed=%v canceled=false error=%q", o.Variant, doneBefore, unrun, tj.Completed, tj.LastError)
		}
		if tj.Completed && !tj.Canceled && !tj.HasError && unrun > 0 {
			find("C04:canceled-job-reported-plain-success", "cancel acknowledged (%s); %d tasks never ran but the job is reported completed, not canceled, without error", o.Variant, unrun)
		}
		if o.Variant == CvParkedDeliveredBeforeRelease {
			// no task that had not begun when the stop was delivered may run
			for _, n := range order[doneBefore:] {
				_, st := sys.Parked(target)
				_ = st
				if ranTask(n) && !startedBeforeCancel(sys.Log.Events(), target, n) {
					find("C04:task-began-after-stop-was-delivered", "task %s began after the stop had been delivered to the runner (%s, %d tasks finished before)", n, o.Variant, doneBefore)
				}
			}
		}
		if tj.Canceled && unrun == 0 && o.Variant != CvRacingLastExit && o.Variant != CvDuplicateConcurrent && o.Variant != CvInsideRun && o.Variant != CvParkedReleaseRacesDelivery {
			_ = jn
		}
	}
	// generic offline oracle over the same log (monitored runner only)
	if !o.Real {
		q.offline()
		var keep []Finding
		for _, f := range res.Findings {
			if f.Has("C04") || f.Has("C03") {
				keep = append(keep, f)
			}
		}
		res.Findings = keep
	}
	res.Events = sys.Log.Len()
	if len(res.Findings) > 0 || res.Inconclusive != "" {
		res.Sample = map[string]any{"journal": res.Journal, "events": compactEvents(sys.Log.Events(), q)}
	}
	return res
}

// startedBeforeCancel: the task had begun (monitored: run-enter; real: runner called) before the first stop delivery
func startedBeforeCancel(evs []core.Event, job, taskName string) bool {
	for _, e := range evs {
		if e.Job != job {
			continue
		}
		if e.Kind == core.KCancelEnter {
			return false
		}
		if (e.Kind == core.KRunEnter || e.Kind == "real-run-call") && e.Task == taskName {
			return true
		}
	}
	return false
}
