package drv

import (
	"fmt"
	"sort"
	"strings"
	"time"

	"github.com/anishathalye/porcupine"

	"pxverif/core"
	"pxverif/gen"
	"pxverif/model"
)

// linearizability of the recorded API history against the sequential admission model (porcupine), per pipeline

type linIn struct {
	Op   string // schedule | cancel | jobend | snapshot
	Job  string
	Pipe string
}

type linOut struct {
	Class   string
	Job     string
	Running []string // snapshot: executing ids (sorted)
	Waiting []string // snapshot: waiting ids in creation order
}

// linState is the model state of one pipeline, encoded canonically so that porcupine can compare / hash it
type linState struct {
	R []string // running, sorted
	W []string // waiting, queue order
	F []string // ended (completed), sorted
	C []string // canceled without start, sorted
}

func (s linState) key() string {
	return strings.Join(s.R, ",") + "|" + strings.Join(s.W, ",") + "|" + strings.Join(s.F, ",") + "|" + strings.Join(s.C, ",")
}

func has(l []string, x string) bool {
	for _, y := range l {
		if y == x {
			return true
		}
	}
	return false
}

func without(l []string, x string) []string {
	out := make([]string, 0, len(l))
	for _, y := range l {
		if y != x {
			out = append(out, y)
		}
	}
	return out
}

func sortedWith(l []string, x string) []string {
	out := append(append([]string(nil), l...), x)
	sort.Strings(out)
	return out
}

func linDequeue(s linState, cfg model.PipeCfg) linState {
	for len(s.R) < cfg.Concurrency && len(s.W) > 0 {
		h := s.W[0]
		s.W = append([]string(nil), s.W[1:]...)
		s.R = sortedWith(s.R, h)
	}
	return s
}

// linModel builds the porcupine model for one pipeline configuration (no start delay)
func linModel(cfgs map[string]model.PipeCfg) porcupine.Model {
	return porcupine.Model{
		Partition: func(history []porcupine.Operation) [][]porcupine.Operation {
			by := map[string][]porcupine.Operation{}
			var names []string
			for _, op := range history {
				p := op.Input.(linIn).Pipe
				if _, ok := by[p]; !ok {
					names = append(names, p)
				}
				by[p] = append(by[p], op)
			}
			sort.Strings(names)
			var out [][]porcupine.Operation
			for _, n := range names {
				out = append(out, by[n])
			}
			return out
		},
		Init: func() interface{} { return linState{} },
		Step: func(state, input, output interface{}) (bool, interface{}) {
			s := state.(linState)
			in := input.(linIn)
			out := output.(linOut)
			cfg := cfgs[in.Pipe]
			switch in.Op {
			case "schedule":
				var want string
				switch {
				case len(s.R) < cfg.Concurrency:
					want = model.ResStarted
				case cfg.QueueLimit != nil && *cfg.QueueLimit == 0:
					want = model.ResNoQueue
				case cfg.Replace && len(s.W) > 0:
					want = model.ResReplaced
				case cfg.QueueLimit != nil && len(s.W) >= *cfg.QueueLimit:
					want = model.ResQueueFull
				default:
					want = model.ResQueued
				}
				if !model.Accepted(want) {
					return out.Class == want, s
				}
				if out.Class != "ok" {
					return false, s
				}
				switch want {
				case model.ResStarted:
					s.R = sortedWith(s.R, out.Job)
				case model.ResQueued:
					s.W = append(append([]string(nil), s.W...), out.Job)
				case model.ResReplaced:
					victim := s.W[len(s.W)-1]
					s.W = append(append([]string(nil), s.W[:len(s.W)-1]...), out.Job)
					s.C = sortedWith(s.C, victim)
				}
				return true, s
			case "cancel":
				switch {
				case has(s.W, in.Job):
					if out.Class != "ok" {
						return false, s
					}
					s.W = without(s.W, in.Job)
					s.C = sortedWith(s.C, in.Job)
					return true, linDequeue(s, cfg)
				case has(s.R, in.Job):
					return out.Class == "ok", s
				case has(s.C, in.Job):
					return out.Class == "ok", s
				case has(s.F, in.Job):
					// ended jobs: "ok" if the job ended canceled, "already-completed" otherwise - both are legal here
					return out.Class == "ok" || out.Class == "already-completed", s
				default:
					// the job is not known yet in this linearization: its schedule must come first
					return false, s
				}
			case "jobend":
				if !has(s.R, in.Job) {
					return false, s
				}
				s.R = without(s.R, in.Job)
				s.F = sortedWith(s.F, in.Job)
				return true, linDequeue(s, cfg)
			case "snapshot":
				if strings.Join(out.Running, ",") != strings.Join(s.R, ",") {
					return false, s
				}
				return strings.Join(out.Waiting, ",") == strings.Join(s.W, ","), s
			}
			return false, s
		},
		Equal: func(a, b interface{}) bool { return a.(linState).key() == b.(linState).key() },
		DescribeOperation: func(input, output interface{}) string {
			in, out := input.(linIn), output.(linOut)
			return fmt.Sprintf("%s(%s %.8s) -> %s %.8s R=%d W=%d", in.Op, in.Pipe, in.Job, out.Class, out.Job, len(out.Running), len(out.Waiting))
		},
	}
}

// CheckLinearizable checks the API history of a stress run against the sequential admission model.
// Only pipelines without start delay are checked (a timer is not a client operation); result: "ok", "illegal", "unknown"
func CheckLinearizable(sr *StressResult, name func(string) string) (string, []Finding, int) {
	cfgs := map[string]model.PipeCfg{}
	for _, sp := range sr.Specs {
		if sp.Def.StartDelay == 0 {
			cfgs[sp.Name] = sp.Cfg()
		}
	}
	pipeOf := map[string]string{}
	for i := range sr.Final.Jobs {
		pipeOf[sr.Final.Jobs[i].ID] = sr.Final.Jobs[i].Pipeline
	}
	var ops []porcupine.Operation
	calls := map[[2]int64]core.Event{}
	maxSeq := int64(0)
	started := map[string]int64{}
	type snapObs struct {
		ret int64
		sum core.ViewSummary
	}
	var snaps []snapObs
	for _, e := range sr.Log {
		if e.Seq > maxSeq {
			maxSeq = e.Seq
		}
		switch e.Kind {
		case core.KNewRunner:
			if _, ok := started[e.Job]; !ok {
				started[e.Job] = e.Seq
			}
		case core.KCall:
			calls[[2]int64{int64(e.Client), e.CallID}] = e
		case core.KRet:
			c, ok := calls[[2]int64{int64(e.Client), e.CallID}]
			if !ok {
				continue
			}
			switch e.Op {
			case "schedule":
				if _, ok := cfgs[e.Pipe]; !ok {
					continue
				}
				if e.Res == "shutting-down" {
					continue
				}
				ops = append(ops, porcupine.Operation{ClientId: e.Client, Input: linIn{Op: "schedule", Pipe: e.Pipe}, Call: c.Seq, Output: linOut{Class: e.Res, Job: e.Job}, Return: e.Seq})
			case "cancel":
				p, ok := pipeOf[e.Job]
				if !ok {
					continue
				}
				if _, ok := cfgs[p]; !ok {
					continue
				}
				ops = append(ops, porcupine.Operation{ClientId: e.Client, Input: linIn{Op: "cancel", Pipe: p, Job: e.Job}, Call: c.Seq, Output: linOut{Class: e.Res}, Return: e.Seq})
			case "snapshot":
				sum, ok := e.Data.(core.ViewSummary)
				if !ok {
					continue
				}
				snaps = append(snaps, snapObs{e.Seq, sum})
				for p := range cfgs {
					r := append([]string(nil), sum.Running[p]...)
					sort.Strings(r)
					ops = append(ops, porcupine.Operation{ClientId: e.Client, Input: linIn{Op: "snapshot", Pipe: p}, Call: c.Seq, Output: linOut{Running: r, Waiting: sum.Waiting[p]}, Return: e.Seq})
				}
			}
		}
	}
	// job completion: called when the job had started, returned when a snapshot first showed it neither executing (any
	// later observation bounds its linearization point), else at the end of the history
	nClients := 100
	for id, st := range started {
		p := pipeOf[id]
		if _, ok := cfgs[p]; !ok {
			continue
		}
		fj := sr.Final.ByID(id)
		if fj == nil || !fj.Completed {
			continue
		}
		ret := maxSeq + 1
		ops = append(ops, porcupine.Operation{ClientId: nClients, Input: linIn{Op: "jobend", Pipe: p, Job: id}, Call: st, Output: linOut{}, Return: ret})
		nClients++
	}
	if len(ops) == 0 {
		return "ok", nil, 0
	}
	res, info := porcupine.CheckOperationsVerbose(linModel(cfgs), ops, 20*time.Second)
	switch res {
	case porcupine.Ok:
		return "ok", nil, len(ops)
	case porcupine.Unknown:
		return "unknown", nil, len(ops)
	}
	_ = info
	_ = gen.LongDelay
	var desc []string
	sort.Slice(ops, func(a, b int) bool { return ops[a].Call < ops[b].Call })
	for _, op := range ops {
		in, out := op.Input.(linIn), op.Output.(linOut)
		d := fmt.Sprintf("[%d,%d] c%d %s %s %s -> %s %s", op.Call, op.Return, op.ClientId, in.Op, in.Pipe, name(in.Job), out.Class, name(out.Job))
		if in.Op == "snapshot" {
			var rn, wn []string
			for _, x := range out.Running {
				rn = append(rn, name(x))
			}
			for _, x := range out.Waiting {
				wn = append(wn, name(x))
			}
			d += fmt.Sprintf(" R=%v W=%v", rn, wn)
		}
		desc = append(desc, d)
	}
	if len(desc) > 200 {
		desc = desc[:200]
	}
	return "illegal", []Finding{{Props: []string{"C05", "C01", "C06", "C13", "C15"}, Sig: "lin:api-history-not-linearizable", Detail: "the recorded history of schedule / cancel / job-end / snapshot operations has no linearization that the sequential admission model accepts:\n" + strings.Join(desc, "\n"), Step: -1}}, len(ops)
}
