package drv

import (
	"bytes"
	"encoding/json"
	"fmt"
	"io"
	"math/rand"
	"net"
	"net/http"
	"os"
	"os/exec"
	"path/filepath"
	"sort"
	"strings"
	"syscall"
	"time"

	"github.com/Flowpack/prunner/store"
)

// RunBinaryCase runs the REAL cmd/prunner binary: jobs are scheduled over HTTP with a real token, then the process gets
// SIGINT (graceful) or SIGTERM (forced); afterwards the store must load, hold only terminal jobs that match the signal's
// semantics, and no task process may be left
func RunBinaryCase(seed int64, bin, workDir string, forced bool) *HistResult {
	res := &HistResult{Seed: seed, Situations: map[string]map[string]struct{}{}, Evaluations: map[string]int{}}
	find := func(sig, format string, args ...any) {
		res.Findings = append(res.Findings, Finding{Props: []string{"C11"}, Sig: sig, Detail: fmt.Sprintf(format, args...), Step: -1})
	}
	dir, err := os.MkdirTemp(workDir, "bin-")
	if err != nil {
		res.Inconclusive = err.Error()
		return res
	}
	defer os.RemoveAll(dir)
	mark := fmt.Sprintf("bin%d-%d", os.Getpid(), seed&0xffffff)
	yml := fmt.Sprintf(`pipelines:
  chain:
    concurrency: 1
    tasks:
      a:
        script: ["PXV_MARK=%s sleep 0.4"]
      b:
        script: ["PXV_MARK=%s sleep 0.4"]
        depends_on: [a]
  delayed:
    start_delay: 1h
    tasks:
      x:
        script: ["true"]
`, mark, mark)
	if err := os.WriteFile(filepath.Join(dir, "pipelines.yml"), []byte(yml), 0o644); err != nil {
		res.Inconclusive = err.Error()
		return res
	}
	l, err := net.Listen("tcp", "127.0.0.1:0")
	if err != nil {
		res.Inconclusive = "no loopback listener: " + err.Error()
		return res
	}
	addr := l.Addr().String()
	l.Close()
	secret := "binary-test-secret-0123456789"
	cmd := exec.Command(bin, "--path", dir, "--data", filepath.Join(dir, "data"), "--address", addr, "--jwt-secret", secret, "--env-files", "", "--config", filepath.Join(dir, "cfg.yml"))
	cmd.Dir = dir
	logf, _ := os.Create(filepath.Join(dir, "prunner.log"))
	cmd.Stdout, cmd.Stderr = logf, logf
	if err := cmd.Start(); err != nil {
		res.Inconclusive = "cannot start the prunner binary: " + err.Error()
		return res
	}
	exited := make(chan error, 1)
	go func() { exited <- cmd.Wait() }()
	defer func() {
		_ = cmd.Process.Kill()
		for _, pid := range scanMarked(mark) {
			if p, err := os.FindProcess(pid); err == nil {
				_ = p.Kill()
			}
		}
	}()
	token := signHS256(secret)
	do := func(method, path string, body any) (int, []byte) {
		var rd io.Reader
		if body != nil {
			b, _ := json.Marshal(body)
			rd = bytes.NewReader(b)
		}
		req, _ := http.NewRequest(method, "http://"+addr+path, rd)
		req.Header.Set("Authorization", "Bearer "+token)
		resp, err := http.DefaultClient.Do(req)
		if err != nil {
			return 0, nil
		}
		defer resp.Body.Close()
		b, _ := io.ReadAll(resp.Body)
		return resp.StatusCode, b
	}
	up := false
	for i := 0; i < 400; i++ {
		if code, _ := do("GET", "/pipelines/", nil); code == 200 {
			up = true
			break
		}
		time.Sleep(10 * time.Millisecond)
	}
	if !up {
		b, _ := os.ReadFile(filepath.Join(dir, "prunner.log"))
		res.Inconclusive = "the prunner binary did not come up: " + truncate(string(b), 300)
		return res
	}
	var ids []string
	for _, p := range []string{"chain", "chain", "delayed"} {
		code, body := do("POST", "/pipelines/schedule", map[string]any{"pipeline": p})
		var r struct{ JobID string }
		_ = json.Unmarshal(body, &r)
		if code != 202 {
			res.Inconclusive = fmt.Sprintf("schedule %s over HTTP: %d %s", p, code, body)
			return res
		}
		ids = append(ids, r.JobID)
	}
	// wait until the first task of the first job runs
	for i := 0; i < 300 && len(scanMarked(mark)) == 0; i++ {
		time.Sleep(5 * time.Millisecond)
	}
	time.Sleep(100 * time.Millisecond)
	sig := syscall.SIGINT
	if forced {
		sig = syscall.SIGTERM
	}
	tSig := time.Now()
	_ = cmd.Process.Signal(sig)
	lostProbe := false
	if !forced && seed%2 == 0 {
		// an impatient operator repeats the interrupt while the graceful shutdown is waiting for the running job (the
		// shutdown has begun when schedule requests are refused with 503): it stays a graceful shutdown
		for i := 0; i < 200; i++ {
			code, body := do("POST", "/pipelines/schedule", map[string]any{"pipeline": "chain"})
			if code == 0 {
				// no answer: the request may or may not have been accepted before the server went away
				lostProbe = true
			}
			if code == 503 || code == 0 {
				break
			}
			if code == 202 {
				// the signal had not reached the runner yet: the probe is one more accepted job
				var r struct{ JobID string }
				_ = json.Unmarshal(body, &r)
				ids = append(ids, r.JobID)
			}
			time.Sleep(5 * time.Millisecond)
		}
		_ = cmd.Process.Signal(syscall.SIGINT)
		res.sit("C11", "binary: SIGINT repeated during the graceful shutdown")
	}
	select {
	case <-exited:
	case <-time.After(30 * time.Second):
		find("C11:binary-did-not-exit-after-signal", "the prunner process did not exit within 30 s after %v", sig)
		return res
	}
	took := time.Since(tSig)
	res.sit("C11", fmt.Sprintf("binary forced=%v exit after ~%dms", forced, took.Milliseconds()/100*100))
	res.Evaluations["C11"]++
	if left := scanMarked(mark); len(left) > 0 {
		find("C11:task-process-left-after-exit", "%d task processes are alive after the prunner process exited (%v): %s", len(left), sig, describePids(left))
	}
	js, _ := store.NewJSONDataStore(filepath.Join(dir, "data"))
	data, err := js.Load()
	if err != nil {
		find("C11:store-not-loadable-after-exit", "after %v the store does not load: %v", sig, err)
		return res
	}
	byID := map[string]store.PersistedJob{}
	for _, j := range data.Jobs {
		byID[j.ID.String()] = j
	}
	if len(byID) != len(ids) && !(lostProbe && len(byID) == len(ids)+1) {
		find("C11:store-differs-from-final-state", "%d jobs were accepted over HTTP, the store holds %d after exit", len(ids), len(byID))
	}
	for i, id := range ids {
		j, ok := byID[id]
		if !ok {
			find("C11:store-differs-from-final-state", "job %d accepted over HTTP is not in the store after exit", i)
			continue
		}
		if !(j.Completed || j.Canceled) {
			find("C11:job-not-terminal-when-shutdown-returned", "after %v job %d (%s) is stored neither completed nor canceled", sig, i, j.Pipeline)
		}
		switch i {
		case 0: // was running
			if !forced {
				if !j.Completed || j.Canceled {
					find("C11:graceful-shutdown-running-job-verdict", "SIGINT: the running job is stored completed=%v canceled=%v", j.Completed, j.Canceled)
				}
				for _, t := range j.Tasks {
					if t.Status != "done" {
						find("C11:graceful-shutdown-did-not-run-all-tasks", "SIGINT: task %s of the running job is stored %q", t.Name, t.Status)
					}
				}
			} else if !j.Canceled {
				find("C11:forced-shutdown-did-not-cancel", "SIGTERM: the running job is stored completed=%v canceled=%v", j.Completed, j.Canceled)
			}
		default: // waiting / delayed
			if !j.Canceled || j.Start != nil {
				find("C11:waiting-job-not-canceled-by-shutdown", "%v: waiting job %d (%s) is stored canceled=%v started=%v", sig, i, j.Pipeline, j.Canceled, j.Start != nil)
			}
		}
	}
	if forced && took > 10*time.Second {
		find("C11:forced-shutdown-slow", "SIGTERM: exit took %v", took)
	}
	return res
}

func signHS256(secret string) string {
	return signHS256Claims(secret, map[string]any{"sub": "binary-test"})
}

// RunReloadBinaryCase drives the REAL reload path of the binary (SIGUSR1 -> LoadRecursively -> Equals ->
// ReplaceDefinitions): a sequence of edits of the pipeline files, including edits back to an earlier content, edits that
// change a single scalar (concurrency, start_delay) and files replaced by renaming an OLDER file over them, must each be
// applied - the pipeline list, the tasks of jobs accepted afterwards, the concurrency limit and the start delay in force
// must follow the files
func RunReloadBinaryCase(seed int64, bin, workDir string) *HistResult {
	r := rand.New(rand.NewSource(seed))
	res := &HistResult{Seed: seed, Situations: map[string]map[string]struct{}{}, Evaluations: map[string]int{}}
	reloadProps := []string{"C16", "C17", "C01", "C07", "C02"}
	find := func(sig, format string, args ...any) {
		res.Findings = append(res.Findings, Finding{Props: reloadProps, Sig: sig, Detail: fmt.Sprintf(format, args...), Step: -1})
	}
	dir, err := os.MkdirTemp(workDir, "reload-")
	if err != nil {
		res.Inconclusive = err.Error()
		return res
	}
	defer os.RemoveAll(dir)
	// versions of the definitions: each names its pipelines and the single task of pipeline "main"; every version also
	// has a pipeline "limited" (its concurrency varies) and a pipeline "delayed" (its start delay varies)
	type version struct {
		name    string
		pipes   []string
		task    string
		yml     string
		limited int
		delay   time.Duration
	}
	mk := func(name string, pipes []string, task string, extra string, limited int, delay time.Duration) version {
		y := "pipelines:\n"
		script := "echo ver=$PXV_VER" // (the pipeline-level environment of this version, seen by a command; only B sets the variable)
		for _, p := range pipes {
			y += fmt.Sprintf("  %s:\n    concurrency: 5\n%s    tasks:\n      %s:\n        script: [\"%s\"]\n", p, extra, task, script)
		}
		y += fmt.Sprintf("  limited:\n    concurrency: %d\n    tasks:\n      hold:\n        script: [\"sleep 4\"]\n", limited)
		y += fmt.Sprintf("  delayed:\n    concurrency: 1\n    queue_limit: 1\n    queue_strategy: replace\n    start_delay: %s\n    tasks:\n      t:\n        script: [\"true\"]\n", delay)
		return version{name, append(append([]string(nil), pipes...), "limited", "delayed"), task, y, limited, delay}
	}
	const short, long = 100 * time.Millisecond, 4 * time.Second
	versions := []version{
		mk("A", []string{"main"}, "task_a", "", 1, short),
		mk("B", []string{"main", "second"}, "task_b", "    env:\n      PXV_VER: \"B\"\n", 3, short),
		mk("C", []string{"main"}, "task_a", "    env:\n      K: \"\"\n", 1, short),
		mk("D", []string{"main"}, "task_a", "    env:\n      L: \"\"\n", 1, short),
		mk("E", []string{"main"}, "task_a", "    queue_limit: 0\n", 1, short),
		mk("G", []string{"main"}, "task_a", "", 1, long), // differs from A in the start delay only
	}
	file := filepath.Join(dir, "pipelines.yml")
	nWrites := 0
	write := func(v version) string {
		nWrites++
		if nWrites%2 == 0 {
			// replace the file by renaming a file over it that was "prepared earlier" (its modification time is older
			// than the one of the file it replaces)
			tmp := filepath.Join(dir, "prepared.tmp")
			_ = os.WriteFile(tmp, []byte(v.yml), 0o644)
			old := time.Now().Add(-2 * time.Hour)
			_ = os.Chtimes(tmp, old, old)
			_ = os.Rename(tmp, file)
			return "renamed over, older mtime"
		}
		_ = os.WriteFile(file, []byte(v.yml), 0o644)
		return "written in place"
	}
	_ = os.WriteFile(file, []byte(versions[0].yml), 0o644)
	l, err := net.Listen("tcp", "127.0.0.1:0")
	if err != nil {
		res.Inconclusive = "no loopback listener: " + err.Error()
		return res
	}
	addr := l.Addr().String()
	l.Close()
	secret := "binary-test-secret-0123456789"
	cmd := exec.Command(bin, "--path", dir, "--data", filepath.Join(dir, "data"), "--address", addr, "--jwt-secret", secret, "--env-files", "", "--config", filepath.Join(dir, "cfg.yml"))
	cmd.Dir = dir
	logf, _ := os.Create(filepath.Join(dir, "prunner.log"))
	cmd.Stdout, cmd.Stderr = logf, logf
	if err := cmd.Start(); err != nil {
		res.Inconclusive = "cannot start the prunner binary: " + err.Error()
		return res
	}
	defer func() { _ = cmd.Process.Kill(); _, _ = cmd.Process.Wait() }()
	token := signHS256(secret)
	do := func(method, path string, body any) (int, []byte) {
		var rd io.Reader
		if body != nil {
			b, _ := json.Marshal(body)
			rd = bytes.NewReader(b)
		}
		req, _ := http.NewRequest(method, "http://"+addr+path, rd)
		req.Header.Set("Authorization", "Bearer "+token)
		resp, err := http.DefaultClient.Do(req)
		if err != nil {
			return 0, nil
		}
		defer resp.Body.Close()
		b, _ := io.ReadAll(resp.Body)
		return resp.StatusCode, b
	}
	listed := func() ([]string, bool) {
		code, body := do("GET", "/pipelines/", nil)
		if code != 200 {
			return nil, false
		}
		var pr struct {
			Pipelines []struct{ Pipeline string }
		}
		_ = json.Unmarshal(body, &pr)
		var names []string
		for _, p := range pr.Pipelines {
			names = append(names, p.Pipeline)
		}
		sort.Strings(names)
		return names, true
	}
	up := false
	for i := 0; i < 400; i++ {
		if _, ok := listed(); ok {
			up = true
			break
		}
		time.Sleep(10 * time.Millisecond)
	}
	if !up {
		res.Inconclusive = "the prunner binary did not come up"
		return res
	}
	type detail struct {
		ID       string
		Start    *time.Time
		Canceled bool
		Tasks    []struct{ Name string }
	}
	schedule := func(pipeline string) (string, int) {
		code, body := do("POST", "/pipelines/schedule", map[string]any{"pipeline": pipeline})
		var sr struct{ JobID string }
		_ = json.Unmarshal(body, &sr)
		return sr.JobID, code
	}
	jobDetail := func(id string) detail {
		_, body := do("GET", "/job/detail?id="+id, nil)
		var jd detail
		_ = json.Unmarshal(body, &jd)
		return jd
	}
	taskOfNewJob := func() string {
		id, code := schedule("main")
		if code != 202 {
			return fmt.Sprintf("schedule answered %d", code)
		}
		jd := jobDetail(id)
		if len(jd.Tasks) != 1 {
			return fmt.Sprintf("%d tasks", len(jd.Tasks))
		}
		return jd.Tasks[0].Name
	}
	cancel := func(id string) { do("POST", "/job/cancel?id="+id, nil) }
	// the concurrency of "limited" that is in force, observed through two jobs: with limit 1 the second must wait
	limitInForce := func(want int, label string) {
		a, c1 := schedule("limited")
		b, c2 := schedule("limited")
		if c1 != 202 || c2 != 202 {
			res.Inconclusive = fmt.Sprintf("schedule on 'limited' answered %d / %d", c1, c2)
			return
		}
		defer func() {
			cancel(a)
			cancel(b)
			// the slots must be free again for the next probe (bounded wait, shaping only)
			for i := 0; i < 500; i++ {
				_, body := do("GET", "/pipelines/", nil)
				var pr struct {
					Pipelines []struct {
						Pipeline string
						Running  bool
					}
				}
				_ = json.Unmarshal(body, &pr)
				busy := false
				for _, p := range pr.Pipelines {
					if p.Pipeline == "limited" && p.Running {
						busy = true
					}
				}
				if !busy {
					return
				}
				time.Sleep(10 * time.Millisecond)
			}
		}()
		res.sit("C01", fmt.Sprintf("limit %d in force after reload (%s)", want, label))
		res.Evaluations["C01"]++
		time.Sleep(300 * time.Millisecond)
		da, db := jobDetail(a), jobDetail(b)
		started := 0
		if da.Start != nil {
			started++
		}
		if db.Start != nil {
			started++
		}
		if want == 1 && started > 1 {
			res.Findings = append(res.Findings, Finding{Props: []string{"C01", "C16"}, Sig: "C01:limit-of-reloaded-definition-not-in-force", Detail: fmt.Sprintf("%s: the files say concurrency 1 for pipeline 'limited' and the reload was applied (the API lists the new pipelines), but two jobs scheduled afterwards both started", label), Step: -1})
		}
	}
	// the start delay of "delayed" that is in force, observed through jobs: bounded wait until a job behaves as the file says
	delayInForce := func(want time.Duration, label string) bool {
		res.sit("C07", fmt.Sprintf("start delay %v in force after reload (%s)", want, label))
		res.Evaluations["C07"]++
		deadline := time.Now().Add(12 * time.Second)
		for time.Now().Before(deadline) {
			id, code := schedule("delayed")
			if code != 202 {
				time.Sleep(50 * time.Millisecond)
				continue
			}
			time.Sleep(1200 * time.Millisecond)
			jd := jobDetail(id)
			if want == long && jd.Start == nil && !jd.Canceled {
				cancel(id)
				return true // not started 1.2 s after acceptance: the long delay governs
			}
			if want == short && jd.Start != nil {
				return true
			}
			cancel(id)
		}
		return false
	}
	// edit sequence: always includes going back to the content the process started with, pairs that differ only in an env
	// key with an empty value, and pairs that differ only in the start delay
	seq := []int{1, 0, 5, 0, 1, 0, 2, 3, 2, 0, 4, 0}
	if r.Intn(2) == 0 {
		seq = []int{2, 3, 0, 5, 0, 1, 0, 1, 4, 0, 3, 2, 0}
	}
	cur := versions[0]
	for step, vi := range seq {
		next := versions[vi]
		how := write(next)
		_ = cmd.Process.Signal(syscall.SIGUSR1)
		for _, p := range reloadProps {
			res.sit(p, fmt.Sprintf("reload %s->%s (%s)", cur.name, next.name, how))
		}
		label := fmt.Sprintf("step %d, version %s -> %s, file %s", step, cur.name, next.name, how)
		onlyDelay := eqStr(cur.pipes, next.pipes) && cur.task == next.task && cur.limited == next.limited && cur.delay != next.delay && (cur.name == "G" || next.name == "G")
		if onlyDelay {
			// nothing in the listings changes: the reload shows in the behaviour of jobs accepted afterwards (bounded wait)
			if !delayInForce(next.delay, label) {
				find("C17:edit-ignored-by-reload", "%s: only start_delay of pipeline 'delayed' changed (%v -> %v) and SIGUSR1 was sent, but for 12 s every job accepted afterwards still behaved as under the old delay", label, cur.delay, next.delay)
				break
			}
			cur = next
			continue
		}
		// the reload is asynchronous: wait (bounded) until the API reflects the file; what must change depends on the pair
		want := append([]string(nil), next.pipes...)
		sort.Strings(want)
		ok := false
		var got []string
		var gotTask string
		for i := 0; i < 1000; i++ {
			got, _ = listed()
			if eqStr(got, want) {
				ok = true
				break
			}
			time.Sleep(10 * time.Millisecond)
		}
		if ok {
			// a job accepted after the reload uses the new definition
			for i := 0; i < 1000; i++ {
				gotTask = taskOfNewJob()
				if gotTask == next.task {
					break
				}
				time.Sleep(10 * time.Millisecond)
			}
			if gotTask != next.task {
				ok = false
			}
		}
		if !ok {
			find("C17:edit-ignored-by-reload", "%s: SIGUSR1 was sent, but 10 s later the API still lists pipelines %v (file: %v) and a new job of 'main' has task %q (file: %q)", label, got, want, gotTask, next.task)
			if cur.name == "B" || next.name == "B" {
				// the ignored edit changes the pipeline-level environment: commands of later jobs get an environment that is
				// in no file any more (seed C18-m)
				res.Findings[len(res.Findings)-1].Props = append(append([]string(nil), reloadProps...), "C18")
			}
			break
		}
		{
			// the commands of a job accepted after the reload see the pipeline-level environment of the NEW definition
			// (PXV_VER=B in version B, not set in every other version - also directly after B), in a pipeline that was
			// changed ("main") and in one that the reload added ("second")
			wantOut := "ver=\n"
			if next.name == "B" {
				wantOut = "ver=B\n"
			}
			for _, p := range next.pipes {
				if p != "main" && p != "second" {
					continue
				}
				id, code := schedule(p)
				if code != 202 {
					continue
				}
				var out struct{ Stdout string }
				for i := 0; i < 500; i++ {
					_, body := do("GET", "/job/logs?id="+id+"&task="+next.task, nil)
					_ = json.Unmarshal(body, &out)
					if strings.HasPrefix(out.Stdout, "ver=") && strings.HasSuffix(out.Stdout, "\n") {
						break
					}
					time.Sleep(10 * time.Millisecond)
				}
				res.sit("C18", fmt.Sprintf("pipeline-level environment of a definition that arrived through a reload (%s, %s->%s)", p, cur.name, next.name))
				res.Evaluations["C18"]++
				if out.Stdout != wantOut {
					res.Findings = append(res.Findings, Finding{Props: []string{"C18", "C16"}, Sig: "C18:environment-of-reloaded-definition-not-in-force", Detail: fmt.Sprintf("%s: the reload was applied and the files give pipeline %q the environment of version %s, but the command of a job accepted afterwards printed %q (expected %q)", label, p, next.name, out.Stdout, wantOut), Step: -1})
				}
			}
		}
		if cur.limited != next.limited && (cur.name == "B" || next.name == "B") {
			// the listing changed, so the new definitions are in force: so is their concurrency limit
			limitInForce(next.limited, label)
			if res.Inconclusive != "" {
				break
			}
		}
		cur = next
	}
	return res
}

// RunProfilingBinaryCase (C14): "with profiling disabled the profiling routes do not exist", as the BINARY is configured:
// flag absent, --enable-profiling=false, PRUNNER_ENABLE_PROFILING=false / 0 (disabled in every one of these), and
// --enable-profiling as the positive control. Requests carry no token.
func RunProfilingBinaryCase(seed int64, bin, workDir string) *HistResult {
	res := &HistResult{Seed: seed, Situations: map[string]map[string]struct{}{}, Evaluations: map[string]int{}}
	find := func(sig, format string, args ...any) {
		res.Findings = append(res.Findings, Finding{Props: []string{"C14"}, Sig: sig, Detail: fmt.Sprintf(format, args...), Step: -1})
	}
	type cfg struct {
		name    string
		args    []string
		env     []string
		enabled bool
	}
	cfgs := []cfg{
		{"flag absent", nil, nil, false},
		{"--enable-profiling=false", []string{"--enable-profiling=false"}, nil, false},
		{"PRUNNER_ENABLE_PROFILING=false", nil, []string{"PRUNNER_ENABLE_PROFILING=false"}, false},
		{"PRUNNER_ENABLE_PROFILING=0", nil, []string{"PRUNNER_ENABLE_PROFILING=0"}, false},
		{"--enable-profiling", []string{"--enable-profiling"}, nil, true},
	}
	for ci, c := range cfgs {
		dir, err := os.MkdirTemp(workDir, "prof-")
		if err != nil {
			res.Inconclusive = err.Error()
			return res
		}
		_ = os.WriteFile(filepath.Join(dir, "pipelines.yml"), []byte("pipelines:\n  p:\n    tasks:\n      t:\n        script: [\"true\"]\n"), 0o644)
		l, err := net.Listen("tcp", "127.0.0.1:0")
		if err != nil {
			res.Inconclusive = "no loopback listener: " + err.Error()
			os.RemoveAll(dir)
			return res
		}
		addr := l.Addr().String()
		l.Close()
		secret := "binary-test-secret-0123456789"
		args := append([]string{"--path", dir, "--data", filepath.Join(dir, "data"), "--address", addr, "--jwt-secret", secret, "--env-files", "", "--config", filepath.Join(dir, "cfg.yml")}, c.args...)
		cmd := exec.Command(bin, args...)
		cmd.Dir = dir
		cmd.Env = append(os.Environ(), c.env...)
		logf, _ := os.Create(filepath.Join(dir, "prunner.log"))
		cmd.Stdout, cmd.Stderr = logf, logf
		if err := cmd.Start(); err != nil {
			res.Inconclusive = "cannot start the prunner binary: " + err.Error()
			os.RemoveAll(dir)
			return res
		}
		token := signHS256(secret)
		get := func(path string, withToken bool) int {
			req, _ := http.NewRequest("GET", "http://"+addr+path, nil)
			if withToken {
				req.Header.Set("Authorization", "Bearer "+token)
			}
			resp, err := http.DefaultClient.Do(req)
			if err != nil {
				return 0
			}
			resp.Body.Close()
			return resp.StatusCode
		}
		up := false
		for i := 0; i < 400; i++ {
			if get("/pipelines/", true) == 200 {
				up = true
				break
			}
			time.Sleep(10 * time.Millisecond)
		}
		if !up {
			b, _ := os.ReadFile(filepath.Join(dir, "prunner.log"))
			res.Inconclusive = fmt.Sprintf("the prunner binary did not come up with %s: %s", c.name, truncate(string(b), 300))
		} else {
			for _, p := range []string{"/debug/pprof/", "/debug/pprof/cmdline", "/debug/vars", "/debug/pprof/goroutine?debug=1"} {
				code := get(p, false)
				res.sit("C14", fmt.Sprintf("binary started with %s: GET %s", c.name, p))
				res.Evaluations["C14"]++
				if !c.enabled && code != 404 {
					find("C14:profiling-route-exists-although-disabled", "the binary was started with %s (profiling disabled), yet GET %s without a token answers %d", c.name, p, code)
				}
				if c.enabled && code == 404 && p == "/debug/pprof/" {
					res.Inconclusive = "positive control failed: --enable-profiling does not mount /debug/pprof/"
				}
			}
			// the API itself stays closed without a token in every configuration
			if code := get("/pipelines/", false); code != 401 {
				find("C14:request-without-valid-token-not-401", "binary started with %s: GET /pipelines/ without a token answers %d", c.name, code)
			}
		}
		_ = cmd.Process.Kill()
		_, _ = cmd.Process.Wait()
		os.RemoveAll(dir)
		_ = ci
		if len(res.Findings) > 0 {
			res.Inconclusive = ""
		}
	}
	return res
}

// RunSecretSourceBinaryCase (C14; seed C14-n): "signed with the configured secret", as the BINARY is configured. The secret
// given on the command line (or through PRUNNER_JWT_SECRET) is the configured one even if a config file from an earlier run
// holds another, valid secret; without one the secret of the config file is; without a file one is generated and written.
// In every configuration a token signed with any OTHER secret - in particular with the one that is NOT in force - is
// refused on every route, by header and by cookie, and schedules nothing.
func RunSecretSourceBinaryCase(seed int64, bin, workDir string) *HistResult {
	res := &HistResult{Seed: seed, Situations: map[string]map[string]struct{}{}, Evaluations: map[string]int{}}
	find := func(sig, format string, args ...any) {
		res.Findings = append(res.Findings, Finding{Props: []string{"C14"}, Sig: sig, Detail: fmt.Sprintf(format, args...), Step: -1})
	}
	const fileSecret, cliSecret = "secret-from-the-config-file-0001", "secret-given-at-start-up-000002"
	type cfg struct {
		name     string
		file     bool
		args     []string
		env      []string
		inForce  string // "" = read the generated secret from the file the binary writes
		stranger []string
	}
	cfgs := []cfg{
		{"config file with a secret + --jwt-secret", true, []string{"--jwt-secret", cliSecret}, nil, cliSecret, []string{fileSecret}},
		{"config file with a secret + PRUNNER_JWT_SECRET", true, nil, []string{"PRUNNER_JWT_SECRET=" + cliSecret}, cliSecret, []string{fileSecret}},
		{"config file with a secret only", true, nil, nil, fileSecret, []string{cliSecret}},
		{"no config file, no secret given", false, nil, nil, "", []string{fileSecret, cliSecret}},
	}
	c := cfgs[int(seed)%len(cfgs)]
	dir, err := os.MkdirTemp(workDir, "secret-")
	if err != nil {
		res.Inconclusive = err.Error()
		return res
	}
	defer os.RemoveAll(dir)
	_ = os.WriteFile(filepath.Join(dir, "pipelines.yml"), []byte("pipelines:\n  p:\n    tasks:\n      t:\n        script: [\"true\"]\n"), 0o644)
	cfgFile := filepath.Join(dir, "cfg.yml")
	if c.file {
		_ = os.WriteFile(cfgFile, []byte("jwt_secret: "+fileSecret+"\n"), 0o600)
	}
	l, err := net.Listen("tcp", "127.0.0.1:0")
	if err != nil {
		res.Inconclusive = "no loopback listener: " + err.Error()
		return res
	}
	addr := l.Addr().String()
	l.Close()
	args := append([]string{"--path", dir, "--data", filepath.Join(dir, "data"), "--address", addr, "--env-files", "", "--config", cfgFile}, c.args...)
	cmd := exec.Command(bin, args...)
	cmd.Dir = dir
	var env []string
	for _, e := range os.Environ() {
		if !strings.HasPrefix(e, "PRUNNER_") {
			env = append(env, e)
		}
	}
	cmd.Env = append(env, c.env...)
	logf, _ := os.Create(filepath.Join(dir, "prunner.log"))
	cmd.Stdout, cmd.Stderr = logf, logf
	if err := cmd.Start(); err != nil {
		res.Inconclusive = "cannot start the prunner binary: " + err.Error()
		return res
	}
	defer func() { _ = cmd.Process.Kill(); _, _ = cmd.Process.Wait() }()
	do := func(method, path, secret string, cookie bool, body string) (int, string) {
		var rd io.Reader
		if body != "" {
			rd = strings.NewReader(body)
		}
		req, _ := http.NewRequest(method, "http://"+addr+path, rd)
		if secret != "" {
			if cookie {
				req.AddCookie(&http.Cookie{Name: "jwt", Value: signHS256(secret)})
			} else {
				req.Header.Set("Authorization", "Bearer "+signHS256(secret))
			}
		}
		resp, err := http.DefaultClient.Do(req)
		if err != nil {
			return 0, ""
		}
		defer resp.Body.Close()
		b, _ := io.ReadAll(resp.Body)
		return resp.StatusCode, string(b)
	}
	up := false
	for i := 0; i < 400; i++ {
		if code, _ := do("GET", "/pipelines/", "", false, ""); code != 0 {
			up = true
			break
		}
		time.Sleep(10 * time.Millisecond)
	}
	if !up {
		b, _ := os.ReadFile(filepath.Join(dir, "prunner.log"))
		res.Inconclusive = fmt.Sprintf("the prunner binary did not come up with %s: %s", c.name, truncate(string(b), 300))
		return res
	}
	inForce := c.inForce
	if inForce == "" {
		b, _ := os.ReadFile(cfgFile)
		var y struct {
			JWTSecret string `yaml:"jwt_secret"`
		}
		for _, line := range strings.Split(string(b), "\n") {
			if strings.HasPrefix(line, "jwt_secret:") {
				y.JWTSecret = strings.Trim(strings.TrimSpace(strings.TrimPrefix(line, "jwt_secret:")), "\"'")
			}
		}
		inForce = y.JWTSecret
		if len(inForce) < 16 {
			res.Inconclusive = "no generated secret found in the config file the binary wrote"
			return res
		}
	}
	res.sit("C14", "binary started with "+c.name)
	// positive control: the secret in force opens the API
	if code, _ := do("GET", "/pipelines/", inForce, false, ""); code != 200 {
		find("C14:token-signed-with-the-configured-secret-refused", "binary started with %s: a token signed with the secret that is in force answers %d on GET /pipelines/", c.name, code)
	}
	jobsBefore := ""
	if code, body := do("GET", "/pipelines/jobs", inForce, false, ""); code == 200 {
		jobsBefore = body
	}
	routes := [][3]string{{"GET", "/pipelines/", ""}, {"GET", "/pipelines/jobs", ""}, {"POST", "/pipelines/schedule", `{"pipeline":"p"}`}, {"GET", "/job/detail?id=00000000-0000-0000-0000-000000000000", ""}, {"GET", "/job/logs?id=00000000-0000-0000-0000-000000000000&task=t", ""}, {"POST", "/job/cancel?id=00000000-0000-0000-0000-000000000000", ""}}
	for _, s := range c.stranger {
		for _, rt := range routes {
			for _, cookie := range []bool{false, true} {
				code, body := do(rt[0], rt[1], s, cookie, rt[2])
				res.Evaluations["C14"]++
				if code != 401 {
					find("C14:request-without-valid-token-not-401", "binary started with %s: %s %s with a token signed with a secret that is NOT the configured one (cookie=%v) answered %d %s", c.name, rt[0], rt[1], cookie, code, truncate(body, 120))
				}
			}
		}
	}
	if code, body := do("GET", "/pipelines/jobs", inForce, false, ""); code == 200 && jobsBefore != "" && body != jobsBefore {
		find("C14:rejected-request-had-an-effect", "binary started with %s: the job list changed while only requests with foreign tokens were sent", c.name)
	}
	return res
}
