package drv

import (
	"bytes"
	"encoding/json"
	"fmt"
	"io"
	"math/rand"
	"net"
	"net/http"
	"os"
	"os/exec"
	"path/filepath"
	"sort"
	"syscall"
	"time"

	"github.com/Flowpack/prunner/store"
)

// RunBinaryCase runs the REAL cmd/prunner binary: jobs are scheduled over HTTP with a real token, then the process gets
// SIGINT (graceful) or SIGTERM (forced); afterwards the store must load, hold only terminal jobs that match the signal's
// semantics, and no task process may be left
func RunBinaryCase(seed int64, bin, workDir string, forced bool) *HistResult {
	res := &HistResult{Seed: seed, Situations: map[string]map[string]struct{}{}, Evaluations: map[string]int{}}
	find := func(sig, format string, args ...any) {
		res.Findings = append(res.Findings, Finding{Props: []string{"C11"}, Sig: sig, Detail: fmt.Sprintf(format, args...), Step: -1})
	}
	dir, err := os.MkdirTemp(workDir, "bin-")
	if err != nil {
		res.Inconclusive = err.Error()
		return res
	}
	defer os.RemoveAll(dir)
	mark := fmt.Sprintf("bin%d-%d", os.Getpid(), seed&0xffffff)
	yml := fmt.Sprintf(`pipelines:
  chain:
    concurrency: 1
    tasks:
      a:
        script: ["PXV_MARK=%s sleep 0.4"]
      b:
        script: ["PXV_MARK=%s sleep 0.4"]
        depends_on: [a]
  delayed:
    start_delay: 1h
    tasks:
      x:
        script: ["true"]
`, mark, mark)
	if err := os.WriteFile(filepath.Join(dir, "pipelines.yml"), []byte(yml), 0o644); err != nil {
		res.Inconclusive = err.Error()
		return res
	}
	l, err := net.Listen("tcp", "127.0.0.1:0")
	if err != nil {
		res.Inconclusive = "no loopback listener: " + err.Error()
		return res
	}
	addr := l.Addr().String()
	l.Close()
	secret := "binary-test-secret-0123456789"
	cmd := exec.Command(bin, "--path", dir, "--data", filepath.Join(dir, "data"), "--address", addr, "--jwt-secret", secret, "--env-files", "", "--config", filepath.Join(dir, "cfg.yml"))
	cmd.Dir = dir
	logf, _ := os.Create(filepath.Join(dir, "prunner.log"))
	cmd.Stdout, cmd.Stderr = logf, logf
	if err := cmd.Start(); err != nil {
		res.Inconclusive = "cannot start the prunner binary: " + err.Error()
		return res
	}
	exited := make(chan error, 1)
	go func() { exited <- cmd.Wait() }()
	defer func() {
		_ = cmd.Process.Kill()
		for _, pid := range scanMarked(mark) {
			if p, err := os.FindProcess(pid); err == nil {
				_ = p.Kill()
			}
		}
	}()
	token := signHS256(secret)
	do := func(method, path string, body any) (int, []byte) {
		var rd io.Reader
		if body != nil {
			b, _ := json.Marshal(body)
			rd = bytes.NewReader(b)
		}
		req, _ := http.NewRequest(method, "http://"+addr+path, rd)
		req.Header.Set("Authorization", "Bearer "+token)
		resp, err := http.DefaultClient.Do(req)
		if err != nil {
			return 0, nil
		}
		defer resp.Body.Close()
		b, _ := io.ReadAll(resp.Body)
		return resp.StatusCode, b
	}
	up := false
	for i := 0; i < 400; i++ {
		if code, _ := do("GET", "/pipelines/", nil); code == 200 {
			up = true
			break
		}
		time.Sleep(10 * time.Millisecond)
	}
	if !up {
		b, _ := os.ReadFile(filepath.Join(dir, "prunner.log"))
		res.Inconclusive = "the prunner binary did not come up: " + truncate(string(b), 300)
		return res
	}
	var ids []string
	for _, p := range []string{"chain", "chain", "delayed"} {
		code, body := do("POST", "/pipelines/schedule", map[string]any{"pipeline": p})
		var r struct{ JobID string }
		_ = json.Unmarshal(body, &r)
		if code != 202 {
			res.Inconclusive = fmt.Sprintf("schedule %s over HTTP: %d %s", p, code, body)
			return res
		}
		ids = append(ids, r.JobID)
	}
	// wait until the first task of the first job runs
	for i := 0; i < 300 && len(scanMarked(mark)) == 0; i++ {
		time.Sleep(5 * time.Millisecond)
	}
	time.Sleep(100 * time.Millisecond)
	sig := syscall.SIGINT
	if forced {
		sig = syscall.SIGTERM
	}
	tSig := time.Now()
	_ = cmd.Process.Signal(sig)
	select {
	case <-exited:
	case <-time.After(30 * time.Second):
		find("C11:binary-did-not-exit-after-signal", "the prunner process did not exit within 30 s after %v", sig)
		return res
	}
	took := time.Since(tSig)
	res.sit("C11", fmt.Sprintf("binary forced=%v exit after ~%dms", forced, took.Milliseconds()/100*100))
	res.Evaluations["C11"]++
	if left := scanMarked(mark); len(left) > 0 {
		find("C11:task-process-left-after-exit", "%d task processes are alive after the prunner process exited (%v): %s", len(left), sig, describePids(left))
	}
	js, _ := store.NewJSONDataStore(filepath.Join(dir, "data"))
	data, err := js.Load()
	if err != nil {
		find("C11:store-not-loadable-after-exit", "after %v the store does not load: %v", sig, err)
		return res
	}
	byID := map[string]store.PersistedJob{}
	for _, j := range data.Jobs {
		byID[j.ID.String()] = j
	}
	if len(byID) != 3 {
		find("C11:store-differs-from-final-state", "3 jobs were accepted over HTTP, the store holds %d after exit", len(byID))
	}
	for i, id := range ids {
		j, ok := byID[id]
		if !ok {
			find("C11:store-differs-from-final-state", "job %d accepted over HTTP is not in the store after exit", i)
			continue
		}
		if !(j.Completed || j.Canceled) {
			find("C11:job-not-terminal-when-shutdown-returned", "after %v job %d (%s) is stored neither completed nor canceled", sig, i, j.Pipeline)
		}
		switch i {
		case 0: // was running
			if !forced {
				if !j.Completed || j.Canceled {
					find("C11:graceful-shutdown-running-job-verdict", "SIGINT: the running job is stored completed=%v canceled=%v", j.Completed, j.Canceled)
				}
				for _, t := range j.Tasks {
					if t.Status != "done" {
						find("C11:graceful-shutdown-did-not-run-all-tasks", "SIGINT: task %s of the running job is stored %q", t.Name, t.Status)
					}
				}
			} else if !j.Canceled {
				find("C11:forced-shutdown-did-not-cancel", "SIGTERM: the running job is stored completed=%v canceled=%v", j.Completed, j.Canceled)
			}
		default: // waiting / delayed
			if !j.Canceled || j.Start != nil {
				find("C11:waiting-job-not-canceled-by-shutdown", "%v: waiting job %d (%s) is stored canceled=%v started=%v", sig, i, j.Pipeline, j.Canceled, j.Start != nil)
			}
		}
	}
	if forced && took > 10*time.Second {
		find("C11:forced-shutdown-slow", "SIGTERM: exit took %v", took)
	}
	return res
}

func signHS256(secret string) string {
	return signHS256Claims(secret, map[string]any{"sub": "binary-test"})
}

// RunReloadBinaryCase drives the REAL reload path of the binary (SIGUSR1 -> LoadRecursively -> Equals ->
// ReplaceDefinitions): a sequence of edits of the pipeline files, including edits back to an earlier content, must each be
// applied - the pipeline list and the tasks of jobs accepted afterwards must follow the files
func RunReloadBinaryCase(seed int64, bin, workDir string) *HistResult {
	r := rand.New(rand.NewSource(seed))
	res := &HistResult{Seed: seed, Situations: map[string]map[string]struct{}{}, Evaluations: map[string]int{}}
	find := func(sig, format string, args ...any) {
		res.Findings = append(res.Findings, Finding{Props: []string{"C16", "C17"}, Sig: sig, Detail: fmt.Sprintf(format, args...), Step: -1})
	}
	dir, err := os.MkdirTemp(workDir, "reload-")
	if err != nil {
		res.Inconclusive = err.Error()
		return res
	}
	defer os.RemoveAll(dir)
	// versions of the definitions: each names its pipelines and the single task of pipeline "main"
	type version struct {
		name  string
		pipes []string
		task  string
		yml   string
	}
	mk := func(name string, pipes []string, task string, extra string) version {
		y := "pipelines:\n"
		for _, p := range pipes {
			y += fmt.Sprintf("  %s:\n    concurrency: 5\n%s    tasks:\n      %s:\n        script: [\"true\"]\n", p, extra, task)
		}
		return version{name, pipes, task, y}
	}
	versions := []version{
		mk("A", []string{"main"}, "task_a", ""),
		mk("B", []string{"main", "second"}, "task_b", ""),
		mk("C", []string{"main"}, "task_a", "    env:\n      K: \"\"\n"),
		mk("D", []string{"main"}, "task_a", "    env:\n      L: \"\"\n"),
		mk("E", []string{"main"}, "task_a", "    queue_limit: 0\n"),
	}
	write := func(v version) { _ = os.WriteFile(filepath.Join(dir, "pipelines.yml"), []byte(v.yml), 0o644) }
	write(versions[0])
	l, err := net.Listen("tcp", "127.0.0.1:0")
	if err != nil {
		res.Inconclusive = "no loopback listener: " + err.Error()
		return res
	}
	addr := l.Addr().String()
	l.Close()
	secret := "binary-test-secret-0123456789"
	cmd := exec.Command(bin, "--path", dir, "--data", filepath.Join(dir, "data"), "--address", addr, "--jwt-secret", secret, "--env-files", "", "--config", filepath.Join(dir, "cfg.yml"))
	cmd.Dir = dir
	logf, _ := os.Create(filepath.Join(dir, "prunner.log"))
	cmd.Stdout, cmd.Stderr = logf, logf
	if err := cmd.Start(); err != nil {
		res.Inconclusive = "cannot start the prunner binary: " + err.Error()
		return res
	}
	defer func() { _ = cmd.Process.Kill(); _, _ = cmd.Process.Wait() }()
	token := signHS256(secret)
	do := func(method, path string, body any) (int, []byte) {
		var rd io.Reader
		if body != nil {
			b, _ := json.Marshal(body)
			rd = bytes.NewReader(b)
		}
		req, _ := http.NewRequest(method, "http://"+addr+path, rd)
		req.Header.Set("Authorization", "Bearer "+token)
		resp, err := http.DefaultClient.Do(req)
		if err != nil {
			return 0, nil
		}
		defer resp.Body.Close()
		b, _ := io.ReadAll(resp.Body)
		return resp.StatusCode, b
	}
	listed := func() ([]string, bool) {
		code, body := do("GET", "/pipelines/", nil)
		if code != 200 {
			return nil, false
		}
		var pr struct {
			Pipelines []struct{ Pipeline string }
		}
		_ = json.Unmarshal(body, &pr)
		var names []string
		for _, p := range pr.Pipelines {
			names = append(names, p.Pipeline)
		}
		sort.Strings(names)
		return names, true
	}
	up := false
	for i := 0; i < 400; i++ {
		if _, ok := listed(); ok {
			up = true
			break
		}
		time.Sleep(10 * time.Millisecond)
	}
	if !up {
		res.Inconclusive = "the prunner binary did not come up"
		return res
	}
	taskOfNewJob := func() string {
		code, body := do("POST", "/pipelines/schedule", map[string]any{"pipeline": "main"})
		var sr struct{ JobID string }
		_ = json.Unmarshal(body, &sr)
		if code != 202 {
			return fmt.Sprintf("schedule answered %d", code)
		}
		_, body = do("GET", "/job/detail?id="+sr.JobID, nil)
		var jd struct {
			Tasks []struct{ Name string }
		}
		_ = json.Unmarshal(body, &jd)
		if len(jd.Tasks) != 1 {
			return fmt.Sprintf("%d tasks", len(jd.Tasks))
		}
		return jd.Tasks[0].Name
	}
	// edit sequence: always includes going back to the content the process started with, and pairs that differ only in an
	// env key with an empty value
	seq := []int{1, 0, 1, 0, 2, 3, 2, 0, 4, 0}
	if r.Intn(2) == 0 {
		seq = []int{2, 3, 0, 1, 0, 1, 4, 0, 3, 2, 0}
	}
	cur := versions[0]
	for step, vi := range seq {
		next := versions[vi]
		write(next)
		_ = cmd.Process.Signal(syscall.SIGUSR1)
		res.sit("C16", fmt.Sprintf("reload %s->%s", cur.name, next.name))
		res.sit("C17", fmt.Sprintf("reload %s->%s", cur.name, next.name))
		res.Evaluations["C16"]++
		res.Evaluations["C17"]++
		// the reload is asynchronous: wait (bounded) until the API reflects the file; what must change depends on the pair
		want := append([]string(nil), next.pipes...)
		sort.Strings(want)
		ok := false
		var got []string
		var gotTask string
		for i := 0; i < 1000; i++ {
			got, _ = listed()
			if eqStr(got, want) {
				ok = true
				break
			}
			time.Sleep(10 * time.Millisecond)
		}
		if ok && next.name == "E" {
			// queue_limit 0 with 5 free slots still starts jobs; nothing more to observe here
		}
		if ok {
			// a job accepted after the reload uses the new definition
			for i := 0; i < 1000; i++ {
				gotTask = taskOfNewJob()
				if gotTask == next.task {
					break
				}
				time.Sleep(10 * time.Millisecond)
			}
			if gotTask != next.task {
				ok = false
			}
		}
		if !ok {
			find("C17:edit-ignored-by-reload", "step %d: the files were changed from version %s to version %s and SIGUSR1 was sent, but 10 s later the API still lists pipelines %v (file: %v) and a new job of 'main' has task %q (file: %q)", step, cur.name, next.name, got, want, gotTask, next.task)
			break
		}
		cur = next
	}
	return res
}
