package drv

import (
	"fmt"
	"math/rand"
	"sort"
	"sync"
	"time"

	"github.com/Flowpack/prunner/definition"

	"pxverif/core"
	"pxverif/gen"
)

// DelayOpts selects one real-timer scenario (C07)
type DelayOpts struct {
	Delay    time.Duration
	Replace  bool
	Limit    int // -1 nil
	Conc     int
	Burst    int
	Busy     bool // a job is executing while the burst arrives
	Stress   bool // concurrent clients instead of one sequential burst
	Watchdog time.Duration
}

// RunDelayCase runs bursts of schedule requests against a pipeline with a REAL start delay (time.AfterFunc)
func RunDelayCase(seed int64, o DelayOpts) *HistResult {
	r := rand.New(rand.NewSource(seed))
	res := &HistResult{Seed: seed, Situations: map[string]map[string]struct{}{}, Evaluations: map[string]int{}}
	if o.Watchdog == 0 {
		o.Watchdog = 30 * time.Second
	}
	d := o.Delay
	def := definition.PipelineDef{Concurrency: o.Conc, StartDelay: d, Tasks: map[string]definition.TaskDef{"only": {Script: []string{"echo run"}}}, SourcePath: "gen/delay.yml"}
	if o.Limit >= 0 {
		l := o.Limit
		def.QueueLimit = &l
	}
	if o.Replace {
		def.QueueStrategy = definition.QueueStrategyReplace
	}
	spec := gen.PipeSpec{Name: "p0", Def: def, Graph: gen.Graph{Names: []string{"only"}, Deps: map[string][]string{}}}
	sys, err := core.NewSys(gen.BuildDefs([]gen.PipeSpec{spec}), nil, nil)
	if err != nil {
		res.Inconclusive = err.Error()
		return res
	}
	defer sys.Close()
	q := &seqRun{o: HistOpts{Watchdog: o.Watchdog}, r: r, sys: sys, specs: []gen.PipeSpec{spec}, byID: map[string]*JobRec{}, res: res}
	find := func(props []string, sig, format string, args ...any) {
		res.Findings = append(res.Findings, Finding{Props: props, Sig: sig, Detail: fmt.Sprintf(format, args...), Step: -1})
	}
	var mu sync.Mutex
	var accepted []*acc
	schedule := func(client int) *acc {
		t0 := time.Now()
		id, cls := sys.Schedule(client, "p0", map[string]interface{}{"i": float64(len(accepted))}, "u")
		t1 := time.Now()
		if cls != "ok" {
			q.journal("schedule -> %s", cls)
			return nil
		}
		a := &acc{id: id, callT: t0, retT: t1}
		mu.Lock()
		accepted = append(accepted, a)
		rec := &JobRec{Ord: len(q.jobs) + 1, ID: id, Pipe: "p0", Spec: spec}
		q.jobs = append(q.jobs, rec)
		q.byID[id] = rec
		q.journal("+%.2fms schedule -> J%d", float64(t0.Sub(sys.Log.Start()).Microseconds())/1000, rec.Ord)
		mu.Unlock()
		return a
	}
	gaps := []time.Duration{0, d / 4, d / 2, d - d/10, d + d/10, 2 * d}
	key := fmt.Sprintf("d=%s replace=%v limit=%d conc=%d busy=%v stress=%v", d, o.Replace, o.Limit, o.Conc, o.Busy, o.Stress)
	waitFor := func(what string, cond func() bool) bool {
		deadline := time.Now().Add(o.Watchdog)
		for !cond() {
			if time.Now().After(deadline) {
				res.Inconclusive = "watchdog: " + what
				return false
			}
			time.Sleep(50 * time.Microsecond)
		}
		return true
	}
	var blockers []*acc
	if o.Busy {
		for i := 0; i < o.Conc; i++ {
			b := schedule(0)
			if b == nil {
				res.Inconclusive = "blocker rejected"
				return res
			}
			blockers = append(blockers, b)
			if !waitFor("blocker running", func() bool { return sys.Gates.AtGate(b.id, "only") }) {
				return res
			}
		}
	}
	gapSig := ""
	if !o.Stress {
		for i := 0; i < o.Burst; i++ {
			g := gaps[r.Intn(len(gaps))]
			gapSig += fmt.Sprintf("%d", int(4*g/d))
			if g > 0 {
				time.Sleep(g)
			}
			a := schedule(0)
			if a != nil && r.Intn(7) == 0 {
				// cancel the waiter inside the burst
				time.Sleep(time.Duration(r.Int63n(int64(d))))
				cls := sys.Cancel(0, a.id)
				if j, ok := sys.ReadJob(a.id); ok && j.Start == nil && cls == "ok" {
					a.canceled = true
				}
				q.journal("cancel %s -> %s", q.jn(a.id), cls)
				gapSig += "c"
			}
		}
	} else {
		var wg sync.WaitGroup
		for c := 1; c <= 4; c++ {
			wg.Add(1)
			rr := rand.New(rand.NewSource(seed + int64(c)))
			go func(c int) {
				defer wg.Done()
				for i := 0; i < o.Burst; i++ {
					time.Sleep(time.Duration(rr.Int63n(int64(d))))
					a := schedule(c)
					if a != nil && rr.Intn(4) == 0 {
						time.Sleep(time.Duration(rr.Int63n(int64(d + d/2))))
						sys.Cancel(c, a.id)
					}
				}
			}(c)
		}
		// a finisher lets running jobs end at random times so that timers expire while the pipeline is busy / free
		stop := make(chan struct{})
		var fw sync.WaitGroup
		fw.Add(1)
		go func() {
			defer fw.Done()
			fr := rand.New(rand.NewSource(seed + 99))
			for {
				select {
				case <-stop:
					return
				default:
				}
				for _, k := range sys.Gates.Waiting() {
					if fr.Intn(3) == 0 {
						sys.Release(k[0], k[1], core.Outcome{Kind: core.OutOK})
					}
				}
				time.Sleep(time.Duration(fr.Int63n(int64(d))))
			}
		}()
		wg.Wait()
		close(stop)
		fw.Wait()
	}
	// let the blockers go at a point relative to the last request
	if o.Busy {
		after := []time.Duration{0, d / 3, d - d/10, d + d/5, 2 * d}[r.Intn(5)]
		gapSig += fmt.Sprintf("/free@%d", int(4*after/d))
		time.Sleep(after)
		for _, b := range blockers {
			sys.Release(b.id, "only", core.Outcome{Kind: core.OutOK})
		}
	}
	res.sit("C07", key)
	if len(gapSig) <= 6 {
		res.sit("C07", key+" gaps="+gapSig)
	}

	// drive to quiescence, waiting for the delay handler of every job that is still waiting (hook H2), then finish
	// running jobs one round at a time and check "no additional delay" at every logical quiescence
	for round := 0; round < 64; round++ {
		var waitIDs []string
		mu.Lock()
		for _, a := range accepted {
			waitIDs = append(waitIDs, a.id)
		}
		mu.Unlock()
		v, err := sys.Quiesce(core.QuiesceOpts{Watchdog: o.Watchdog, WaitDelayHandlers: waitIDs})
		if err != nil {
			res.Inconclusive = err.Error()
			break
		}
		// no additional delay: with every pending delay handler returned, a free slot and a waiting job cannot coexist
		nExec := 0
		var waiting []*core.JobSnap
		for i := range v.Jobs {
			if v.Jobs[i].Executing() {
				nExec++
			}
			if v.Jobs[i].Waiting() {
				waiting = append(waiting, &v.Jobs[i])
			}
		}
		res.sit("C07", fmt.Sprintf("quiescent exec=%d waiting=%d conc=%d", nExec, len(waiting), o.Conc))
		if nExec < o.Conc && len(waiting) > 0 {
			sort.Slice(waiting, func(a, b int) bool { return waiting[a].Created.Before(waiting[b].Created) })
			find([]string{"C07", "C03"}, "C07:delay-expired-and-slot-free-but-not-started", "%s waits although its start delay handler has returned and only %d of %d slots are used", q.jn(waiting[0].ID), nExec, o.Conc)
		}
		if nExec == 0 && len(waiting) == 0 {
			break
		}
		for _, k := range sys.Gates.Waiting() {
			sys.Release(k[0], k[1], core.Outcome{Kind: core.OutOK})
		}
	}
	final := sys.Snapshot(-1)
	evs := sys.Log.Events()
	firstEnter := map[string]time.Time{}
	for _, e := range evs {
		if e.Kind == core.KRunEnter {
			if _, ok := firstEnter[e.Job]; !ok {
				firstEnter[e.Job] = e.T
			}
		}
	}
	// (1) lower bound
	for _, a := range accepted {
		j := final.ByID(a.id)
		if j == nil {
			find([]string{"C07", "C15"}, "C07:accepted-job-lost", "%s accepted but not reported", q.jn(a.id))
			continue
		}
		if j.Start != nil {
			res.sit("C07", "lower-bound-checked "+key)
			if gap := j.Start.Sub(j.Created); gap < d {
				find([]string{"C07"}, "C07:started-before-delay-expired", "%s started %v after it was accepted, start_delay is %v", q.jn(a.id), gap, d)
			}
			if fe, ok := firstEnter[a.id]; ok {
				if gap := fe.Sub(a.callT); gap < d {
					find([]string{"C07"}, "C07:task-began-before-delay-expired", "first task of %s began %v after the schedule request was issued, start_delay is %v", q.jn(a.id), gap, d)
				}
			}
		}
		if !j.Terminal() && res.Inconclusive == "" {
			find([]string{"C07", "C03"}, "C07:job-not-terminal-after-drain", "%s neither ran nor was canceled", q.jn(a.id))
		}
	}
	// (2)+(3) replace debounces to the newest
	if o.Replace && !o.Stress && res.Inconclusive == "" {
		// the model of the burst: waiting slot holds the most recently accepted job
		var lastAccepted *acc
		for _, a := range accepted {
			if len(blockers) > 0 && containsAcc(blockers, a) {
				continue
			}
			lastAccepted = a
		}
		if lastAccepted != nil && !lastAccepted.canceled {
			j := final.ByID(lastAccepted.id)
			res.sit("C07", fmt.Sprintf("newest-runs burst=%d", o.Burst))
			if j != nil && (j.Start == nil || !j.Completed) {
				find([]string{"C07"}, "C07:newest-job-did-not-run", "%s is the most recently accepted job of the burst but did not run: canceled=%v started=%v", q.jn(lastAccepted.id), j.Canceled, j.Start != nil)
			}
		}
	}
	// replaced / canceled-while-waiting jobs never run a task
	for _, a := range accepted {
		j := final.ByID(a.id)
		if j == nil {
			continue
		}
		if j.Canceled && j.Start == nil {
			if _, ran := firstEnter[a.id]; ran {
				find([]string{"C07", "C04"}, "C07:replaced-or-canceled-job-ran", "%s is reported canceled without start but a task of it entered the runner", q.jn(a.id))
			}
		}
	}
	// under replace at most one job of a burst may have run per "generation": an older waiter must never run after a newer was accepted
	if o.Replace && !o.Stress {
		for i, a := range accepted {
			ja := final.ByID(a.id)
			if ja == nil || ja.Start == nil || containsAcc(blockers, a) {
				continue
			}
			for _, b := range accepted[i+1:] {
				jb := final.ByID(b.id)
				if jb == nil {
					continue
				}
				// b accepted while a was still waiting => a must have been replaced, not started
				if ja.Start.After(jb.Created) {
					find([]string{"C07", "C05"}, "C07:older-job-ran-although-replaced-by-newer", "%s started at +%v although %s was accepted while it was still waiting", q.jn(a.id), ja.Start.Sub(ja.Created), q.jn(b.id))
				}
			}
		}
	}
	q.offline()
	var keep []Finding
	for _, f := range res.Findings {
		if f.Has("C07") || f.Has("C01") {
			keep = append(keep, f)
		}
	}
	res.Findings = keep
	res.Events = len(evs)
	if len(res.Findings) > 0 || res.Inconclusive != "" {
		res.Sample = map[string]any{"journal": res.Journal, "events": compactEvents(evs, q)}
	}
	return res
}

type acc struct {
	id       string
	callT    time.Time
	retT     time.Time
	canceled bool // canceled by the driver
}

func containsAcc(l []*acc, a *acc) bool {
	for _, x := range l {
		if x == a {
			return true
		}
	}
	return false
}
