package drv

import (
	"bufio"
	"fmt"
	"math/rand"
	"os"
	"strconv"
	"strings"
	"time"
)

// EmitPlan describes what one `pxcheck emit` command writes; the harness recomputes the expected streams from it
type EmitPlan struct {
	Seed     int64
	Tag      string // job tag
	Task     string
	Cmd      int
	Size     int  // payload bytes per stream (approximately; chunk headers are extra)
	Lines    bool // line-structured text payload
	NoNL     bool // do not end with a newline
	ExitAt   int  // if > 0: exit with status 3 after that many chunks
	SlowMs   int  // sleep between chunks (for cancel tests)
	MaxChunk int
}

func (p EmitPlan) Args() []string {
	return []string{"emit", fmt.Sprint(p.Seed), p.Tag, p.Task, fmt.Sprint(p.Cmd), fmt.Sprint(p.Size), fmt.Sprint(b2i(p.Lines)), fmt.Sprint(b2i(p.NoNL)), fmt.Sprint(p.ExitAt), fmt.Sprint(p.SlowMs), fmt.Sprint(p.MaxChunk)}
}

func b2i(b bool) int {
	if b {
		return 1
	}
	return 0
}

// ParseEmitArgs is the inverse of Args (without the leading "emit")
func ParseEmitArgs(a []string) (EmitPlan, error) {
	if len(a) < 10 {
		return EmitPlan{}, fmt.Errorf("emit: need 10 arguments")
	}
	n := func(i int) int { v, _ := strconv.Atoi(a[i]); return v }
	seed, _ := strconv.ParseInt(a[0], 10, 64)
	return EmitPlan{Seed: seed, Tag: a[1], Task: a[2], Cmd: n(3), Size: n(4), Lines: n(5) == 1, NoNL: n(6) == 1, ExitAt: n(7), SlowMs: n(8), MaxChunk: n(9)}, nil
}

// chunk is one write to one stream
type emitChunk struct {
	stream int // 1 stdout, 2 stderr
	data   []byte
}

// chunks generates the deterministic sequence of writes
func (p EmitPlan) chunks() []emitChunk {
	r := rand.New(rand.NewSource(p.Seed))
	maxChunk := p.MaxChunk
	if maxChunk <= 0 {
		maxChunk = 256 * 1024
	}
	var out []emitChunk
	written := [3]int{}
	offs := [3]int{}
	letters := []rune("abcdefghijklmnopqrstuvwxyzABCDEFGHIJKLMNOPQRSTUVWXYZ0123456789 äö€𝄞\t")
	for written[1] < p.Size || written[2] < p.Size {
		st := 1 + r.Intn(2)
		if written[st] >= p.Size {
			st = 3 - st
		}
		n := 1 + r.Intn(maxChunk)
		if r.Intn(3) == 0 {
			n = 1 + r.Intn(64)
		}
		if n > p.Size-written[st] {
			n = p.Size - written[st]
		}
		// every chunk is tagged: foreign bytes are recognisable wherever they land
		hdr := fmt.Sprintf("[%s|%s|%d|s%d|@%d]", p.Tag, p.Task, p.Cmd, st, offs[st])
		buf := make([]byte, 0, len(hdr)+n+1)
		buf = append(buf, hdr...)
		if p.Lines {
			for len(buf) < len(hdr)+n {
				ll := 1 + r.Intn(120)
				for i := 0; i < ll && len(buf) < len(hdr)+n; i++ {
					buf = append(buf, string(letters[r.Intn(len(letters))])...)
				}
				buf = append(buf, '\n')
			}
		} else {
			pl := make([]byte, n)
			r.Read(pl)
			buf = append(buf, pl...)
		}
		out = append(out, emitChunk{st, buf})
		written[st] += n
		offs[st] += len(buf)
	}
	if p.Size > 0 && !p.NoNL {
		out = append(out, emitChunk{1, []byte("\n")}, emitChunk{2, []byte("\n")})
	}
	return out
}

// Expected returns what the command writes to stdout and stderr (up to the planned failure) and its exit status
func (p EmitPlan) Expected() (stdout, stderr []byte, exit int) {
	for i, c := range p.chunks() {
		if p.ExitAt > 0 && i >= p.ExitAt {
			return stdout, stderr, 3
		}
		if c.stream == 1 {
			stdout = append(stdout, c.data...)
		} else {
			stderr = append(stderr, c.data...)
		}
	}
	if p.ExitAt > 0 {
		return stdout, stderr, 3
	}
	return stdout, stderr, 0
}

// ExpectedMerged returns what the command writes when both descriptors refer to the same stream (`2>&1` / `1>&2`):
// every write in the order the single-threaded command issued them
func (p EmitPlan) ExpectedMerged() (all []byte, exit int) {
	for i, c := range p.chunks() {
		if p.ExitAt > 0 && i >= p.ExitAt {
			return all, 3
		}
		all = append(all, c.data...)
	}
	if p.ExitAt > 0 {
		return all, 3
	}
	return all, 0
}

// EmitMain is the task command: writes the planned output
func EmitMain(args []string) int {
	p, err := ParseEmitArgs(args)
	if err != nil {
		fmt.Fprintln(os.Stderr, err)
		return 2
	}
	so := bufio.NewWriterSize(os.Stdout, 1)
	se := bufio.NewWriterSize(os.Stderr, 1)
	_ = so
	_ = se
	for i, c := range p.chunks() {
		if p.ExitAt > 0 && i >= p.ExitAt {
			return 3
		}
		f := os.Stdout
		if c.stream == 2 {
			f = os.Stderr
		}
		// one write system call per chunk (as far as the kernel takes it)
		data := c.data
		for len(data) > 0 {
			n, err := f.Write(data)
			if err != nil {
				return 4
			}
			data = data[n:]
		}
		if p.SlowMs > 0 {
			time.Sleep(time.Duration(p.SlowMs) * time.Millisecond)
		}
	}
	if p.ExitAt > 0 {
		return 3
	}
	return 0
}

// DumpEnvMain is the task command of C18: writes its complete environment and its arguments, NUL separated
func DumpEnvMain(args []string) int {
	var b strings.Builder
	b.WriteString("\x01BEGIN\x00")
	for _, kv := range os.Environ() {
		b.WriteString(kv)
		b.WriteByte(0)
	}
	b.WriteString("\x02ARGS\x00")
	for _, a := range args {
		b.WriteString(a)
		b.WriteByte(0)
	}
	b.WriteString("\x03END\x00")
	os.Stdout.WriteString(b.String())
	return 0
}

// ParseDumps splits the stdout of a task into the dumps of its commands
type EnvDump struct {
	Env  map[string]string
	Args []string
}

func ParseDumps(out string) ([]EnvDump, error) {
	var dumps []EnvDump
	for _, part := range strings.Split(out, "\x01BEGIN\x00")[1:] {
		end := strings.Index(part, "\x03END\x00")
		if end < 0 {
			return dumps, fmt.Errorf("truncated dump")
		}
		part = part[:end]
		ai := strings.Index(part, "\x02ARGS\x00")
		if ai < 0 {
			return dumps, fmt.Errorf("dump without args section")
		}
		d := EnvDump{Env: map[string]string{}}
		for _, kv := range strings.Split(part[:ai], "\x00") {
			if kv == "" {
				continue
			}
			if i := strings.Index(kv, "="); i >= 0 {
				d.Env[kv[:i]] = kv[i+1:]
			}
		}
		as := strings.Split(part[ai+len("\x02ARGS\x00"):], "\x00")
		if len(as) > 0 && as[len(as)-1] == "" {
			as = as[:len(as)-1]
		}
		d.Args = as
		dumps = append(dumps, d)
	}
	return dumps, nil
}
