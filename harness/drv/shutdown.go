package drv

import (
	"context"
	"fmt"

	"github.com/Flowpack/prunner/definition"
	"os"
	"path/filepath"

	"github.com/Flowpack/prunner/store"
	"math/rand"
	"reflect"
	"sort"
	"sync"
	"sync/atomic"
	"time"

	"pxverif/core"
	"pxverif/gen"
)

// ShutdownOpts selects one shutdown scenario (C11)
type ShutdownOpts struct {
	Forced     bool
	SlowSave   bool // the store's Save takes 0-2 ms, a saver client keeps saves in flight
	Clients    bool // schedule / cancel / save clients race with the shutdown
	HTTP       bool
	NoStore    bool // the runner is used without a store (no persistence): Shutdown must still return
	NoFinisher bool // nothing lets tasks end during the shutdown: a forced shutdown has to cancel every running job
	// RaiseBefore: directly before the shutdown a reload raises the concurrency of every pipeline. A reload starts nothing by
	// itself, so jobs WAIT next to free slots when the shutdown begins: they are canceled like every waiting job, not started
	// (seed C11-n: the purge of the wait list goes through the cancel path, which hands the freed place to the next waiter)
	RaiseBefore bool
	Watchdog   time.Duration
}

type jobAtBegin struct {
	id      string
	running bool
	waiting bool
	tasks   []string
	pipe    string
}

// RunShutdownCase builds a state (running jobs parked at various task boundaries, waiting, delayed, finished jobs),
// shuts the runner down while clients keep issuing requests, and checks what is left when Shutdown returns
func RunShutdownCase(seed int64, o ShutdownOpts) *HistResult {
	r := rand.New(rand.NewSource(seed))
	res := &HistResult{Seed: seed, Situations: map[string]map[string]struct{}{}, Evaluations: map[string]int{}}
	if o.Watchdog == 0 {
		o.Watchdog = 30 * time.Second
		if o.Forced && o.NoFinisher {
			o.Watchdog = 10 * time.Second
		}
	}
	find := func(sig, format string, args ...any) {
		res.Findings = append(res.Findings, Finding{Props: []string{"C11"}, Sig: sig, Detail: fmt.Sprintf(format, args...), Step: -1})
	}
	specs := GenSpecs(r, HistOpts{NPipes: 1 + r.Intn(3), Pipe: gen.PipeOpts{MaxTasks: 4, DelayProb: 0.3}})
	for i := range specs {
		if specs[i].Graph.Cyclic {
			specs[i] = gen.RandPipe(r, specs[i].Name, gen.PipeOpts{MaxTasks: 3})
		}
		if specs[i].Def.StartDelay > 0 {
			specs[i].Def.StartDelay = gen.LongDelay
			if specs[i].Def.QueueLimit != nil && *specs[i].Def.QueueLimit == 0 {
				specs[i].Def.QueueLimit = nil
			}
		}
		specs[i].Def.ContinueRunningTasksAfterFailure = true
		for n, t := range specs[i].Def.Tasks {
			t.AllowFailure = false
			specs[i].Def.Tasks[n] = t
		}
	}
	rec := &core.RecStore{}
	if o.SlowSave {
		rec.Delay = time.Duration(200+r.Intn(1800)) * time.Microsecond
	}
	var st store.DataStore = rec
	if o.NoStore {
		st = nil
	}
	sys, err := core.NewSys(gen.BuildDefs(specs), st, core.NewMemOutputStore())
	if err != nil {
		res.Inconclusive = err.Error()
		return res
	}
	defer sys.Close()
	var api *core.API
	if o.HTTP {
		api = core.NewAPI(sys.R, nil, "0123456789abcdef-harness-secret", false)
	}
	quiesce := func() bool {
		if _, err := sys.Quiesce(core.QuiesceOpts{Watchdog: o.Watchdog}); err != nil {
			res.Inconclusive = err.Error()
			return false
		}
		return true
	}
	// ---- prefix: build the state ----
	nSched := 2 + r.Intn(7)
	for i := 0; i < nSched; i++ {
		sp := specs[r.Intn(len(specs))]
		id, cls := sys.Schedule(0, sp.Name, map[string]interface{}{"i": float64(i)}, "u")
		if cls == "ok" && sp.Def.StartDelay > 0 && r.Intn(2) == 0 {
			sys.FireDelay(0, id)
		}
	}
	if !quiesce() {
		return res
	}
	for step := 0; step < r.Intn(6); step++ {
		w := sys.Gates.Waiting()
		if len(w) == 0 {
			break
		}
		sort.Slice(w, func(a, b int) bool { return w[a][0]+w[a][1] < w[b][0]+w[b][1] })
		k := w[r.Intn(len(w))]
		sys.Release(k[0], k[1], core.Outcome{Kind: core.OutOK})
		if !quiesce() {
			return res
		}
	}
	if o.RaiseBefore {
		for i := range specs {
			specs[i].Def.Concurrency += 2
		}
		sys.Replace(0, gen.BuildDefs(specs), "raise the concurrency of every pipeline")
		if !quiesce() {
			return res
		}
	}
	begin := sys.Snapshot(-1)
	var atBegin []jobAtBegin
	nRun, nWait, nFin := 0, 0, 0
	for i := range begin.Jobs {
		j := &begin.Jobs[i]
		jb := jobAtBegin{id: j.ID, running: j.Executing(), waiting: j.Waiting(), pipe: j.Pipeline}
		for _, t := range j.Tasks {
			jb.tasks = append(jb.tasks, t.Name)
		}
		atBegin = append(atBegin, jb)
		switch {
		case jb.running:
			nRun++
		case jb.waiting:
			nWait++
		default:
			nFin++
		}
	}
	res.sit("C11", fmt.Sprintf("forced=%v slowSave=%v clients=%v running=%d waiting=%d finished=%d", o.Forced, o.SlowSave, o.Clients, min(nRun, 3), min(nWait, 3), min(nFin, 2)))
	if o.RaiseBefore && nWait > 0 {
		res.sit("C11", fmt.Sprintf("jobs wait next to free slots when the shutdown begins (forced=%v, waiting=%d)", o.Forced, min(nWait, 3)))
	}

	// ---- shutdown with concurrent traffic ----
	var stopClients atomic.Bool
	var wg sync.WaitGroup
	type schedRes struct {
		id      string
		cls     string
		callSeq int64
		retSeq  int64
	}
	var srMu sync.Mutex
	var scheduled []schedRes
	canceledByClient := map[string]bool{}
	if o.Clients {
		for c := 1; c <= 2; c++ {
			wg.Add(1)
			rr := rand.New(rand.NewSource(seed + int64(c)*17))
			go func(c int) {
				defer wg.Done()
				for k := 0; k < 400 && !stopClients.Load(); k++ {
					switch rr.Intn(6) {
					case 0, 1, 2:
						sp := specs[rr.Intn(len(specs))]
						cs := sys.Log.NextSeq()
						var id, cls string
						if api != nil && rr.Intn(2) == 0 {
							id, cls = sys.ScheduleHTTP(c, api, sp.Name, nil)
						} else {
							id, cls = sys.Schedule(c, sp.Name, nil, "u")
						}
						rs := sys.Log.NextSeq()
						srMu.Lock()
						scheduled = append(scheduled, schedRes{id, cls, cs, rs})
						srMu.Unlock()
					case 3:
						if rr.Intn(4) == 0 && len(atBegin) > 0 {
							jb := atBegin[rr.Intn(len(atBegin))]
							if sys.Cancel(c, jb.id) == "ok" {
								srMu.Lock()
								canceledByClient[jb.id] = true
								srMu.Unlock()
							}
						}
					case 4:
						sys.Save(c)
					case 5:
						sys.Snapshot(c)
					}
					time.Sleep(time.Duration(rr.Intn(150)) * time.Microsecond)
				}
			}(c)
		}
	}
	// the finisher lets tasks end one at a time: multi-task jobs must get their later tasks launched during a graceful shutdown
	finisherStop := make(chan struct{})
	var fwg sync.WaitGroup
	fwg.Add(1)
	go func() {
		defer fwg.Done()
		fr := rand.New(rand.NewSource(seed + 5))
		for {
			select {
			case <-finisherStop:
				return
			default:
			}
			w := sys.Gates.Waiting()
			if len(w) > 0 && !o.NoFinisher {
				k := w[fr.Intn(len(w))]
				sys.Release(k[0], k[1], core.Outcome{Kind: core.OutOK})
			}
			time.Sleep(time.Duration(50+fr.Intn(250)) * time.Microsecond)
		}
	}()
	time.Sleep(time.Duration(r.Intn(400)) * time.Microsecond)
	ctx := context.Background()
	var cancel context.CancelFunc = func() {}
	if o.Forced {
		ctx, cancel = context.WithTimeout(ctx, time.Duration(r.Intn(1500))*time.Microsecond)
	}
	beginSeq := sys.Log.NextSeq()
	sdDone := make(chan error, 1)
	go func() { sdDone <- sys.Shutdown(99, ctx, map[bool]string{false: "graceful", true: "forced"}[o.Forced]) }()
	var sdErr error
	select {
	case sdErr = <-sdDone:
	case <-time.After(o.Watchdog):
		cancel()
		stopClients.Store(true)
		close(finisherStop)
		if o.Forced && o.NoFinisher {
			// the deadline expired long ago and nothing lets tasks end: a job that is still executing and whose runner was
			// never told to stop will never be canceled - this state is permanent, the watchdog only bounded the wait
			told := map[string]bool{}
			for _, e := range sys.Log.Events() {
				if e.Kind == core.KCancelEnter {
					told[e.Job] = true
				}
			}
			v := sys.Snapshot(-1)
			for i := range v.Jobs {
				if j := &v.Jobs[i]; j.Executing() && !told[j.ID] {
					find("C11:forced-shutdown-did-not-cancel-running-job", "forced shutdown (deadline long expired, tasks blocked): job %s of %s is still executing and its tasks were never told to stop; Shutdown does not return", j.ID[:8], j.Pipeline)
				}
			}
		}
		if len(res.Findings) == 0 {
			res.Inconclusive = "watchdog: Shutdown did not return"
		}
		for _, k := range sys.Gates.Waiting() {
			sys.Gates.Release(k[0], k[1], core.Outcome{Kind: core.OutOK})
		}
		return res
	}
	cancel()
	retSeq := sys.Log.NextSeq()
	atR := sys.Snapshot(-1)
	savesAtR := rec.SaveCount()
	// requests issued after Shutdown returned must not be accepted
	for _, sp := range specs {
		if id, cls := sys.Schedule(0, sp.Name, nil, "late"); cls == "ok" {
			find("C11:request-accepted-after-shutdown", "a schedule request for %s issued after Shutdown returned was accepted (job %s)", sp.Name, id)
		}
		if api != nil {
			if code, _, _ := api.ScheduleHTTP(sp.Name, nil); code != 503 {
				find("C11:http-schedule-after-shutdown-not-503", "POST /pipelines/schedule after shutdown answered %d, expected 503", code)
			}
		}
	}
	stopClients.Store(true)
	wg.Wait()
	close(finisherStop)
	fwg.Wait()
	for _, k := range sys.Gates.Waiting() {
		sys.Gates.Release(k[0], k[1], core.Outcome{Kind: core.OutOK})
	}
	_ = sdErr
	// let in-flight saves of the clients land, then look again: nothing may change after Shutdown returned
	deadline := time.Now().Add(2 * time.Second)
	for time.Now().Before(deadline) {
		evs := sys.Log.Events()
		open := 0
		for _, e := range evs {
			if e.Kind == core.KSaveBegin {
				open++
			} else if e.Kind == core.KSaveEnd {
				open--
			}
		}
		if open == 0 {
			break
		}
		time.Sleep(200 * time.Microsecond)
	}
	time.Sleep(2 * time.Millisecond)
	later := sys.Snapshot(-1)
	evs := sys.Log.Events()

	// ---- oracles ----
	for i := range atR.Jobs {
		j := &atR.Jobs[i]
		if !j.Terminal() {
			find("C11:job-not-terminal-when-shutdown-returned", "job %s of %s is neither completed nor canceled when Shutdown returned (started=%v)", j.ID[:8], j.Pipeline, j.Start != nil)
		}
		if j.Executing() {
			find("C11:job-running-when-shutdown-returned", "job %s of %s is still executing when Shutdown returned", j.ID[:8], j.Pipeline)
		}
	}
	// no task executing at R, none begins after R
	open := map[[2]string]int64{}
	for _, e := range evs {
		k := [2]string{e.Job, e.Task}
		switch e.Kind {
		case core.KRunEnter:
			open[k] = e.Seq
			if e.Seq > retSeq {
				find("C11:task-began-after-shutdown-returned", "task %s of job %s entered the runner after Shutdown had returned", e.Task, e.Job[:8])
			}
		case core.KRunExit:
			if e.Seq < retSeq {
				delete(open, k)
			} else if en, ok := open[k]; ok && en < retSeq {
				find("C11:task-executing-when-shutdown-returned", "task %s of job %s was still inside the runner when Shutdown returned", e.Task, e.Job[:8])
				delete(open, k)
			}
		}
	}
	for k, en := range open {
		if en < retSeq {
			find("C11:task-executing-when-shutdown-returned", "task %s of job %s never left the runner", k[1], k[0][:8])
		}
	}
	// the view does not change after R
	if !reflect.DeepEqual(atR.Jobs, later.Jobs) {
		find("C11:state-changed-after-shutdown-returned", "the reported jobs changed after Shutdown had returned (%d -> %d jobs)", len(atR.Jobs), len(later.Jobs))
	}
	// the store holds exactly the final reported state
	saves := rec.Saves()
	if o.NoStore {
		res.sit("C11", "shutdown without a store")
	} else if len(saves) == 0 {
		find("C11:no-final-save", "nothing was saved by Shutdown")
	} else {
		if len(saves) > savesAtR {
			res.sit("C11", "save landed after shutdown returned")
		}
		// two instants: what the store held when Shutdown returned (the last save that had been completed by then - saves
		// are serialized, so this is Shutdown's own final save or a later one of the same state; seed C11-m: the final save
		// is dropped because another one "is queued anyway") and what it holds in the end
		cmpStore := func(when string, last *core.SaveRecord) {
			if len(last.Jobs) != len(atR.Jobs) {
				find("C11:store-differs-from-final-state", "%s the store holds %d jobs, the runner reports %d when Shutdown returned (saves: %d at return, %d in the end)", when, len(last.Jobs), len(atR.Jobs), savesAtR, len(saves))
			}
			for i := range atR.Jobs {
				j := &atR.Jobs[i]
				pj, ok := last.Jobs[j.ID]
				if !ok {
					find("C11:store-differs-from-final-state", "%s job %s is reported but missing in the store", when, j.ID[:8])
					continue
				}
				if pj.Completed != j.Completed || pj.Canceled != j.Canceled || (pj.End != nil) != (j.End != nil) || (pj.Start != nil) != (j.Start != nil) {
					find("C11:store-differs-from-final-state", "%s job %s: store says completed=%v canceled=%v end=%v, the runner reported completed=%v canceled=%v end=%v when Shutdown returned (saves: %d at return, %d in the end)", when, j.ID[:8], pj.Completed, pj.Canceled, pj.End != nil, j.Completed, j.Canceled, j.End != nil, savesAtR, len(saves))
					continue
				}
				for ti, t := range j.Tasks {
					if ti < len(pj.Tasks) && pj.Tasks[ti].Status != t.Status {
						find("C11:store-differs-from-final-state", "%s job %s task %s: store status %q, reported %q", when, j.ID[:8], t.Name, pj.Tasks[ti].Status, t.Status)
					}
				}
			}
		}
		if savesAtR == 0 {
			find("C11:no-final-save", "no save had been completed when Shutdown returned (%d in the end)", len(saves))
		} else {
			cmpStore("when Shutdown returned", saves[savesAtR-1])
		}
		if n := len(res.Findings); n == 0 || len(saves) > savesAtR {
			cmpStore("in the end", saves[len(saves)-1])
		}
	}
	// requests racing with the shutdown: accepted ones are terminal at R; none accepted after R
	srMu.Lock()
	for _, s := range scheduled {
		if s.cls != "ok" {
			continue
		}
		if s.callSeq > retSeq {
			find("C11:request-accepted-after-shutdown", "a schedule request issued after Shutdown returned was accepted (job %s)", s.id[:8])
		}
		if j := atR.ByID(s.id); j != nil && !j.Terminal() && s.retSeq < retSeq {
			find("C11:accepted-job-left-unfinished", "job %s was accepted while the shutdown was in progress and is not terminal when Shutdown returned", s.id[:8])
		}
		if s.callSeq > beginSeq && s.retSeq < retSeq {
			res.sit("C11", "request accepted during shutdown")
		}
	}
	cbc := canceledByClient
	srMu.Unlock()
	// graceful / forced semantics for the jobs that existed when shutdown began
	cancelEnter := map[string]bool{}
	ran := map[string]map[string]string{}
	for _, e := range evs {
		if e.Kind == core.KCancelEnter {
			cancelEnter[e.Job] = true
		}
		if e.Kind == core.KRunExit {
			if ran[e.Job] == nil {
				ran[e.Job] = map[string]string{}
			}
			ran[e.Job][e.Task] = e.Res
		}
	}
	for _, jb := range atBegin {
		j := atR.ByID(jb.id)
		if j == nil {
			find("C11:job-lost-during-shutdown", "job %s existed when shutdown began and is not reported any more", jb.id[:8])
			continue
		}
		if cbc[jb.id] {
			continue
		}
		if !o.Forced {
			if jb.running {
				res.sit("C11", fmt.Sprintf("graceful: running job with %d tasks", len(jb.tasks)))
				if cancelEnter[jb.id] {
					find("C11:graceful-shutdown-canceled-running-job", "graceful shutdown: job %s was running when shutdown began and its tasks were told to stop", jb.id[:8])
				}
				for _, t := range jb.tasks {
					if ran[jb.id][t] != "ok" {
						find("C11:graceful-shutdown-did-not-run-all-tasks", "graceful shutdown: task %s of the running job %s did not run to its natural end (%q)", t, jb.id[:8], ran[jb.id][t])
					}
				}
				if !j.Completed || j.Canceled {
					find("C11:graceful-shutdown-running-job-verdict", "graceful shutdown: job %s was running when shutdown began; reported completed=%v canceled=%v", jb.id[:8], j.Completed, j.Canceled)
				}
			}
			if jb.waiting {
				res.sit("C11", "graceful: waiting job")
				if len(ran[jb.id]) > 0 || !j.Canceled {
					// it may legitimately have started before the shutdown flag was set only if a slot freed before: the
					// clients / finisher can free slots between the snapshot and the begin of the shutdown
					if j.Start != nil && j.Completed {
						res.sit("C11", "waiting job started before the shutdown took effect")
					} else if !j.Canceled {
						find("C11:waiting-job-not-canceled-by-shutdown", "graceful shutdown: waiting job %s is reported canceled=%v completed=%v", jb.id[:8], j.Canceled, j.Completed)
					}
				}
			}
		} else if jb.running || jb.waiting {
			res.sit("C11", fmt.Sprintf("forced: job running=%v nofinisher=%v", jb.running, o.NoFinisher))
			if o.NoFinisher && jb.running {
				// its tasks cannot end by themselves: a forced shutdown cancels running jobs too
				if !cancelEnter[jb.id] || !j.Canceled {
					find("C11:forced-shutdown-did-not-cancel-running-job", "forced shutdown: job %s was running (tasks blocked) when the deadline expired; told to stop=%v, reported completed=%v canceled=%v", jb.id[:8], cancelEnter[jb.id], j.Completed, j.Canceled)
				}
			}
		}
	}
	res.Events = len(evs)
	res.Evaluations["C11"] += len(atR.Jobs) + len(scheduled)
	if len(res.Findings) > 0 {
		var tail []string
		for _, e := range evs {
			if e.Kind == core.KCall || e.Kind == core.KRet {
				if e.Op != "shutdown" && e.Op != "save" {
					continue
				}
			}
			tail = append(tail, fmt.Sprintf("#%d %s %s %s %.8s %s %s", e.Seq, e.Kind, e.Op, e.Pipe, e.Job, e.Task, e.Res))
		}
		if len(tail) > 250 {
			tail = tail[len(tail)-250:]
		}
		res.Sample = map[string]any{"seed": seed, "opts": fmt.Sprintf("%+v", o), "shutdownBeginSeq": beginSeq, "shutdownReturnSeq": retSeq, "events": tail}
	}
	return res
}

// RunPersistCase: while the runner is alive every acknowledged change reaches the store within the persist interval
// without an explicit save. The loop's period is 3 s; the limit is 10 s counted in heartbeats of this process.
func RunPersistCase(seed int64, slowSave bool) *HistResult {
	r := rand.New(rand.NewSource(seed))
	res := &HistResult{Seed: seed, Situations: map[string]map[string]struct{}{}, Evaluations: map[string]int{}}
	find := func(sig, format string, args ...any) {
		res.Findings = append(res.Findings, Finding{Props: []string{"C11"}, Sig: sig, Detail: fmt.Sprintf(format, args...), Step: -1})
	}
	specs := GenSpecs(r, HistOpts{NPipes: 1, Pipe: gen.PipeOpts{MaxTasks: 2}, Classes: []gen.ConfigClass{{Concurrency: 2, Limit: -1}}})
	if specs[0].Graph.Cyclic {
		specs = GenSpecs(rand.New(rand.NewSource(seed+1)), HistOpts{NPipes: 1, Pipe: gen.PipeOpts{MaxTasks: 1}, Classes: []gen.ConfigClass{{Concurrency: 2, Limit: -1}}})
	}
	rec := &core.RecStore{}
	if slowSave {
		rec.Delay = 200 * time.Millisecond
	}
	sys, err := core.NewSys(gen.BuildDefs(specs), rec, core.NewMemOutputStore())
	if err != nil {
		res.Inconclusive = err.Error()
		return res
	}
	defer sys.Close()
	// heartbeat clock: a stalled machine stalls the clock
	var beats atomic.Int64
	stop := make(chan struct{})
	go func() {
		tk := time.NewTicker(10 * time.Millisecond)
		defer tk.Stop()
		for {
			select {
			case <-stop:
				return
			case <-tk.C:
				beats.Add(1)
			}
		}
	}()
	defer close(stop)
	const limitBeats = 1000 // 10 s
	waitSaved := func(what string, pred func(s *core.SaveRecord) bool) bool {
		start := beats.Load()
		for beats.Load()-start < limitBeats {
			for _, s := range rec.Saves() {
				if s.Err == nil && pred(s) {
					res.sit("C11", fmt.Sprintf("persisted %s after ~%ds slowSave=%v", what, (beats.Load()-start)/100, slowSave))
					return true
				}
			}
			time.Sleep(5 * time.Millisecond)
		}
		find("C11:change-not-persisted-within-interval", "%s was acknowledged but no save carrying it reached the store within 10 s (persist interval is 3 s; %d saves so far)", what, rec.SaveCount())
		return false
	}
	p := specs[0].Name
	idA, cls := sys.Schedule(0, p, nil, "u")
	if cls != "ok" {
		res.Inconclusive = "schedule: " + cls
		return res
	}
	waitSaved("schedule of job A", func(s *core.SaveRecord) bool { _, ok := s.Jobs[idA]; return ok })
	// a change that lands while the loop sleeps - or, with the slow store, while the next save is being written: the
	// request for it must not be lost
	if slowSave {
		// request another save, wait until the persist loop has begun to write it (observed: save-begin event), and land
		// the next change inside that 200 ms store write
		nBegin := func() int {
			n := 0
			for _, e := range sys.Log.Events() {
				if e.Kind == core.KSaveBegin {
					n++
				}
			}
			return n
		}
		base := nBegin()
		idC, _ := sys.Schedule(0, p, nil, "u")
		_ = idC
		for start := beats.Load(); beats.Load()-start < limitBeats && nBegin() <= base; {
			time.Sleep(2 * time.Millisecond)
		}
		time.Sleep(time.Duration(20+r.Intn(100)) * time.Millisecond)
		res.sit("C11", "change landed while a save was being written")
	} else {
		time.Sleep(time.Duration(r.Intn(900)) * time.Millisecond)
	}
	idB, cls := sys.Schedule(0, p, nil, "u")
	if cls != "ok" {
		idB = ""
	} else {
		waitSaved("schedule of job B", func(s *core.SaveRecord) bool { _, ok := s.Jobs[idB]; return ok })
	}
	time.Sleep(time.Duration(r.Intn(300)) * time.Millisecond)
	if sys.Cancel(0, idA) == "ok" {
		waitSaved("cancel of job A", func(s *core.SaveRecord) bool { j, ok := s.Jobs[idA]; return ok && j.Canceled && j.Completed })
	}
	if idB != "" {
		// let job B run to its end (observed, not assumed)
		bDone := false
		for start := beats.Load(); beats.Load()-start < limitBeats; {
			for _, k := range sys.Gates.Waiting() {
				sys.Gates.Release(k[0], k[1], core.Outcome{Kind: core.OutOK})
			}
			if j, ok := sys.ReadJob(idB); ok && j.Completed {
				bDone = true
				break
			}
			time.Sleep(time.Millisecond)
		}
		if !bDone {
			res.Inconclusive = "job B did not complete"
			return res
		}
		waitSaved("completion of job B", func(s *core.SaveRecord) bool { j, ok := s.Jobs[idB]; return ok && j.Completed })
	}
	res.Evaluations["C11"] += 4
	res.Events = sys.Log.Len()
	return res
}

// RunPersistKindsCase: "every acknowledged change reaches the store within the persist interval without an explicit
// save" for every KIND of change, one at a time with nothing else going on (so that no other change's persist request can
// carry it along): start, queue, replace (new job + the replaced one canceled), cancel of a waiting job, a task ending,
// cancel of a running job, a delayed job being accepted and started by its timer.
func RunPersistKindsCase(seed int64, delayed bool) *HistResult {
	res := &HistResult{Seed: seed, Situations: map[string]map[string]struct{}{}, Evaluations: map[string]int{}}
	find := func(sig, format string, args ...any) {
		res.Findings = append(res.Findings, Finding{Props: []string{"C11"}, Sig: sig, Detail: fmt.Sprintf(format, args...), Step: -1})
	}
	def := definition.PipelineDef{Concurrency: 1, QueueStrategy: definition.QueueStrategyReplace, Tasks: map[string]definition.TaskDef{
		"a": {Script: []string{"true"}}, "b": {Script: []string{"true"}, DependsOn: []string{"a"}}}, SourcePath: "gen"}
	if delayed {
		def.StartDelay = 300 * time.Millisecond
		one := 1
		def.QueueLimit = &one
	}
	defs := &definition.PipelinesDef{Pipelines: map[string]definition.PipelineDef{"p": def}}
	rec := &core.RecStore{}
	sys, err := core.NewSys(defs, rec, core.NewMemOutputStore())
	if err != nil {
		res.Inconclusive = err.Error()
		return res
	}
	defer sys.Close()
	defer DrainAll(sys)
	var beats atomic.Int64
	stop := make(chan struct{})
	go func() {
		tk := time.NewTicker(10 * time.Millisecond)
		defer tk.Stop()
		for {
			select {
			case <-stop:
				return
			case <-tk.C:
				beats.Add(1)
			}
		}
	}()
	defer close(stop)
	const limitBeats = 1000 // 10 s for a 3 s interval
	waitSaved := func(what string, pred func(s *core.SaveRecord) bool) bool {
		start := beats.Load()
		n0 := rec.SaveCount()
		for beats.Load()-start < limitBeats {
			saves := rec.Saves()
			if len(saves) > 0 {
				// the store holds what the LAST successful save wrote
				if s := saves[len(saves)-1]; s.Err == nil && pred(s) {
					res.sit("C11", fmt.Sprintf("persisted: %s (delayed pipeline=%v)", what, delayed))
					res.Evaluations["C11"]++
					return true
				}
			}
			time.Sleep(5 * time.Millisecond)
		}
		find("C11:change-not-persisted-within-interval", "%s was acknowledged, nothing else happened afterwards, and the store still does not hold it 10 s later (persist interval 3 s; %d saves since)", what, rec.SaveCount()-n0)
		return false
	}
	sched := func() string {
		id, cls := sys.Schedule(0, "p", nil, "u")
		if cls != "ok" {
			res.Inconclusive = "schedule: " + cls
		}
		return id
	}
	has := func(id string, f func(j store.PersistedJob) bool) func(s *core.SaveRecord) bool {
		return func(s *core.SaveRecord) bool { j, ok := s.Jobs[id]; return ok && f(j) }
	}
	any := func(store.PersistedJob) bool { return true }
	a := sched()
	if res.Inconclusive != "" {
		return res
	}
	if delayed {
		waitSaved("a job accepted under a start delay", has(a, any))
		waitSaved("the start of that job by its timer", has(a, func(j store.PersistedJob) bool { return j.Start != nil }))
	} else {
		waitSaved("a job that starts at once", has(a, func(j store.PersistedJob) bool { return j.Start != nil }))
	}
	b := sched()
	waitSaved("a job that is queued", has(b, any))
	c := sched()
	if res.Inconclusive != "" {
		return res
	}
	ok1 := waitSaved("a job that replaces a waiting one", has(c, any))
	if ok1 {
		waitSaved("the cancellation of the replaced job", has(b, func(j store.PersistedJob) bool { return j.Canceled }))
	}
	if sys.Cancel(0, c) == "ok" {
		waitSaved("the cancel of a waiting job", has(c, func(j store.PersistedJob) bool { return j.Canceled }))
	}
	// a task of the running job ends
	for i := 0; i < 2000 && !sys.Gates.AtGate(a, "a"); i++ {
		time.Sleep(time.Millisecond)
	}
	sys.Release(a, "a", core.Outcome{Kind: core.OutOK})
	waitSaved("the end of a task", has(a, func(j store.PersistedJob) bool {
		for _, t := range j.Tasks {
			if t.Name == "a" && t.Status == "done" {
				return true
			}
		}
		return false
	}))
	if sys.Cancel(0, a) == "ok" {
		waitSaved("the cancel of a running job", has(a, func(j store.PersistedJob) bool { return j.Canceled && j.Completed }))
	}
	res.Events = sys.Log.Len()
	return res
}

// RunShutdownDirectedCase: two directed shutdown scenarios.
//
//	variant 0 (C08): a task of a fail-fast job fails WHILE a graceful shutdown is waiting for the job: the job's other
//	  running tasks are told to stop, as at any other time.
//	variant 1 (C11): a forced Shutdown is issued while a graceful one is still waiting (escalation): the running jobs are
//	  canceled and both calls return.
func RunShutdownDirectedCase(seed int64, variant int) *HistResult {
	res := &HistResult{Seed: seed, Situations: map[string]map[string]struct{}{}, Evaluations: map[string]int{}}
	r := rand.New(rand.NewSource(seed))
	conc := 1 + r.Intn(2)
	def := definition.PipelineDef{Concurrency: conc, SourcePath: "gen", Tasks: map[string]definition.TaskDef{
		"a": {Script: []string{"true"}}, "b": {Script: []string{"true"}}, "c": {Script: []string{"true"}, DependsOn: []string{"a"}}}}
	sys, err := core.NewSys(&definition.PipelinesDef{Pipelines: map[string]definition.PipelineDef{"p": def}}, &core.RecStore{}, core.NewMemOutputStore())
	if err != nil {
		res.Inconclusive = err.Error()
		return res
	}
	defer sys.Close()
	defer DrainAll(sys)
	count := func(k core.Kind, job string) int {
		n := 0
		for _, e := range sys.Log.Events() {
			if e.Kind == k && (job == "" || e.Job == job) {
				n++
			}
		}
		return n
	}
	var running []string
	for i := 0; i < conc; i++ {
		id, cls := sys.Schedule(0, "p", nil, "u")
		if cls != "ok" {
			res.Inconclusive = "schedule: " + cls
			return res
		}
		running = append(running, id)
	}
	waiting, _ := sys.Schedule(0, "p", nil, "u")
	if _, err := sys.Quiesce(core.QuiesceOpts{Watchdog: 20 * time.Second}); err != nil {
		res.Inconclusive = err.Error()
		return res
	}
	graceful := make(chan struct{})
	go func() { defer close(graceful); _ = sys.Shutdown(5, context.Background(), "graceful") }()
	observed := false
	for i := 0; i < 4000; i++ {
		if _, cls := sys.Schedule(8, "no-such-pipeline-probe", nil, "probe"); cls == "shutting-down" {
			observed = true
			break
		}
		time.Sleep(50 * time.Microsecond)
	}
	// (the waiting job is canceled by the shutdown)
	_ = waiting
	switch variant % 2 {
	case 0:
		prop := []string{"C08", "C11"}
		res.sit("C08", fmt.Sprintf("a task fails while a graceful shutdown waits (shutdown observed=%v, %d running jobs)", observed, conc))
		job := running[0]
		sys.Release(job, "a", core.Outcome{Kind: core.OutExitFail, Code: 1})
		// fail-fast: the runner of the job is told to stop (the stop is initiated synchronously with the task's failure
		// being handled; bounded wait for the delivery), unless nothing happens any more (logical quiescence with b inside)
		told := false
		for i := 0; i < 3000; i++ {
			if count(core.KCancelEnter, job) > 0 || count(core.KCancelSpawned, job) > 0 {
				told = true
				break
			}
			time.Sleep(time.Millisecond)
		}
		if !told {
			if _, err := sys.Quiesce(core.QuiesceOpts{Watchdog: 10 * time.Second}); err == nil && sys.Gates.AtGate(job, "b") {
				res.Findings = append(res.Findings, Finding{Props: prop, Sig: "C08:fail-fast-did-not-stop-siblings", Detail: "task a of a fail-fast job failed while a graceful shutdown was waiting for the job: its sibling b, which was running, was never told to stop (the system is quiescent with b still inside the runner)", Step: -1})
			} else if err != nil {
				res.Inconclusive = err.Error()
			}
		}
		res.Evaluations["C08"]++
	case 1:
		prop := []string{"C11"}
		res.sit("C11", fmt.Sprintf("forced shutdown issued while a graceful one waits (%d running jobs)", conc))
		ctx, cancel := context.WithCancel(context.Background())
		cancel()
		forced := make(chan error, 1)
		go func() { forced <- sys.Shutdown(6, ctx, "forced during graceful") }()
		told := false
		for i := 0; i < 5000; i++ {
			n := 0
			for _, id := range running {
				if count(core.KCancelEnter, id) > 0 {
					n++
				}
			}
			if n == len(running) {
				told = true
				break
			}
			time.Sleep(time.Millisecond)
		}
		if !told {
			if _, err := sys.Quiesce(core.QuiesceOpts{Watchdog: 10 * time.Second}); err == nil {
				res.Findings = append(res.Findings, Finding{Props: prop, Sig: "C11:forced-shutdown-did-not-cancel-running-job", Detail: fmt.Sprintf("a forced Shutdown (deadline already passed) was issued while a graceful Shutdown was waiting for %d running jobs: the jobs were never told to stop (the system is quiescent with their tasks still inside the runner)", len(running)), Step: -1})
			} else {
				res.Inconclusive = err.Error()
			}
			DrainAll(sys)
		}
		select {
		case err := <-forced:
			if told && err == nil {
				res.Findings = append(res.Findings, Finding{Props: prop, Sig: "C11:forced-shutdown-returned-nil", Detail: "a forced Shutdown that had to cancel running jobs returned nil instead of the context's error", Step: -1})
			}
		case <-time.After(20 * time.Second):
			if res.Inconclusive == "" && len(res.Findings) == 0 {
				res.Inconclusive = "forced shutdown did not return"
			}
		}
		if told {
			for _, id := range running {
				if j, ok := sys.ReadJob(id); ok && !(j.Completed && j.Canceled) {
					res.Findings = append(res.Findings, Finding{Props: prop, Sig: "C11:job-not-terminal-when-shutdown-returned", Detail: fmt.Sprintf("after the forced Shutdown returned, job %s is reported completed=%v canceled=%v", id[:8], j.Completed, j.Canceled), Step: -1})
				}
			}
		}
		res.Evaluations["C11"]++
	}
	DrainAll(sys)
	select {
	case <-graceful:
	case <-time.After(20 * time.Second):
		if res.Inconclusive == "" && len(res.Findings) == 0 {
			res.Inconclusive = "graceful shutdown did not return"
		}
	}
	res.Events = sys.Log.Len()
	return res
}

// RunShutdownVsRemovingSaves (C13, meant for the -race build): a forced Shutdown walks over the jobs while saves keep
// REMOVING finished jobs (a retention period that jobs cross one after the other makes every save delete a few). The
// two paths must be synchronised with each other; the race detector is the oracle, this driver only produces the overlap
// and reports how much of it there was.
func RunShutdownVsRemovingSaves(seed int64) *HistResult {
	res := &HistResult{Seed: seed, Situations: map[string]map[string]struct{}{}, Evaluations: map[string]int{}}
	period := 25 * time.Millisecond
	quick := definition.PipelineDef{Concurrency: 40, RetentionPeriod: period, SourcePath: "gen", Tasks: map[string]definition.TaskDef{"t": {Script: []string{"true"}}}}
	block := definition.PipelineDef{Concurrency: 4, SourcePath: "gen", Tasks: map[string]definition.TaskDef{"t": {Script: []string{"true"}}}}
	sys, err := core.NewSys(&definition.PipelinesDef{Pipelines: map[string]definition.PipelineDef{"quick": quick, "block": block}}, &core.RecStore{}, core.NewMemOutputStore())
	if err != nil {
		res.Inconclusive = err.Error()
		return res
	}
	defer sys.Close()
	defer DrainAll(sys)
	// tasks of "quick" end by themselves; tasks of "block" stay inside the runner until they are told to stop
	sys.Gates.Auto = func(job, pipeline, taskName string) (core.Outcome, time.Duration, bool) {
		if pipeline == "quick" {
			return core.Outcome{Kind: core.OutOK}, 0, true
		}
		return core.Outcome{}, 0, false
	}
	for i := 0; i < 4; i++ {
		sys.Schedule(0, "block", nil, "u")
	}
	// finished jobs whose ages are spread over ~30 ms
	for i := 0; i < 160; i++ {
		sys.Schedule(0, "quick", nil, "u")
		if i%8 == 7 {
			time.Sleep(time.Millisecond)
		}
	}
	var wg sync.WaitGroup
	stop := make(chan struct{})
	removed := 0
	wg.Add(1)
	go func() {
		defer wg.Done()
		last := len(sys.Snapshot(-1).Jobs)
		for {
			select {
			case <-stop:
				return
			default:
			}
			sys.Save(1)
			if n := len(sys.Snapshot(-1).Jobs); n < last {
				removed++
				last = n
			}
		}
	}()
	time.Sleep(period/2 + time.Duration(seed%7)*time.Millisecond)
	ctx, cancel := context.WithCancel(context.Background())
	cancel()
	_ = sys.Shutdown(2, ctx, "forced while saves remove jobs")
	time.Sleep(5 * time.Millisecond)
	close(stop)
	wg.Wait()
	res.sit("C13", fmt.Sprintf("forced shutdown while saves remove jobs (saves that removed something: %d+)", min(removed, 3)))
	res.Evaluations["C13"] += removed
	res.Events = sys.Log.Len()
	return res
}

// RunFailedSaveThenShutdownCase (C11 on the REAL JsonDataStore): a save of the live runner fails because of the operating
// system (the data directory is away for a moment: an unmounted volume, a deployment that swaps directories), the
// directory comes back, the job goes on and the runner is shut down. Whatever a failed save left behind inside the store
// object, the store a fresh process loads afterwards is the final reported state.
func RunFailedSaveThenShutdownCase(seed int64, workDir string) *HistResult {
	res := &HistResult{Seed: seed, Situations: map[string]map[string]struct{}{}, Evaluations: map[string]int{}}
	find := func(sig, format string, args ...any) {
		res.Findings = append(res.Findings, Finding{Props: []string{"C11", "C10"}, Sig: sig, Detail: fmt.Sprintf(format, args...), Step: -1})
	}
	dir, err := os.MkdirTemp(workDir, "failsave-")
	if err != nil {
		res.Inconclusive = err.Error()
		return res
	}
	defer os.RemoveAll(dir)
	dataDir := filepath.Join(dir, "data")
	js, err := store.NewJSONDataStore(dataDir)
	if err != nil {
		res.Inconclusive = err.Error()
		return res
	}
	def := definition.PipelineDef{Concurrency: 1, SourcePath: "gen", Tasks: map[string]definition.TaskDef{
		"a": {Script: []string{"true"}}, "b": {Script: []string{"true"}, DependsOn: []string{"a"}}}}
	sys, err := core.NewSys(&definition.PipelinesDef{Pipelines: map[string]definition.PipelineDef{"p": def}}, js, core.NewMemOutputStore())
	if err != nil {
		res.Inconclusive = err.Error()
		return res
	}
	defer sys.Close()
	defer DrainAll(sys)
	q := func() bool {
		if _, err := sys.Quiesce(core.QuiesceOpts{Watchdog: 20 * time.Second}); err != nil {
			res.Inconclusive = err.Error()
			return false
		}
		return true
	}
	j1, cls := sys.Schedule(0, "p", nil, "u")
	if cls != "ok" || !q() {
		return res
	}
	okSavesBefore := int(seed % 3) // successful saves before the failing one
	for i := 0; i < okSavesBefore; i++ {
		sys.Save(1)
	}
	away := dataDir + ".away"
	if err := os.Rename(dataDir, away); err != nil {
		res.Inconclusive = err.Error()
		return res
	}
	sys.Release(j1, "a", core.Outcome{Kind: core.OutOK})
	if !q() {
		_ = os.Rename(away, dataDir)
		return res
	}
	failing := 1 + int(seed/3)%2
	for i := 0; i < failing; i++ {
		sys.Save(1) // fails: the directory is gone
	}
	if err := os.Rename(away, dataDir); err != nil {
		res.Inconclusive = err.Error()
		return res
	}
	j2, _ := sys.Schedule(0, "p", nil, "u") // waits behind j1
	mode := int(seed/6) % 2
	sd := make(chan struct{})
	if mode == 0 {
		// the job ends, then a graceful shutdown
		sys.Release(j1, "b", core.Outcome{Kind: core.OutOK})
		if !q() {
			return res
		}
		DrainAll(sys)
		go func() { defer close(sd); _ = sys.Shutdown(3, context.Background(), "graceful") }()
	} else {
		// forced shutdown while task b runs
		ctx, cancel := context.WithCancel(context.Background())
		cancel()
		go func() { defer close(sd); _ = sys.Shutdown(3, ctx, "forced") }()
	}
	select {
	case <-sd:
	case <-time.After(30 * time.Second):
		res.Inconclusive = "watchdog: Shutdown did not return within 30 s"
		return res
	}
	final := sys.Snapshot(-1)
	res.sit("C11", fmt.Sprintf("%d good saves, %d saves failed while the data directory was away, then %s shutdown", okSavesBefore, failing, []string{"graceful", "forced"}[mode]))
	res.Evaluations["C11"]++
	fresh, _ := store.NewJSONDataStore(dataDir)
	data, err := fresh.Load()
	if err != nil {
		find("C11:store-not-loadable-after-shutdown", "after a save that failed (data directory away) and a shutdown the store does not load: %v", err)
		return res
	}
	byID := map[string]store.PersistedJob{}
	for _, pj := range data.Jobs {
		byID[pj.ID.String()] = pj
	}
	if len(byID) != len(final.Jobs) {
		find("C11:store-differs-from-final-state", "the store a fresh process loads holds %d jobs, the runner reported %d when Shutdown returned", len(byID), len(final.Jobs))
	}
	for i := range final.Jobs {
		j := &final.Jobs[i]
		pj, ok := byID[j.ID]
		name := map[string]string{j1: "the job that ran", j2: "the job that waited"}[j.ID]
		if !ok {
			find("C11:store-differs-from-final-state", "%s is reported but missing in the store", name)
			continue
		}
		if !j.Terminal() {
			find("C11:job-not-terminal-when-shutdown-returned", "%s is reported completed=%v canceled=%v when Shutdown returned", name, j.Completed, j.Canceled)
		}
		if pj.Completed != j.Completed || pj.Canceled != j.Canceled || (pj.End != nil) != (j.End != nil) || (pj.Start != nil) != (j.Start != nil) {
			find("C11:store-differs-from-final-state", "%s: a fresh process loads completed=%v canceled=%v started=%v ended=%v, the runner reported completed=%v canceled=%v started=%v ended=%v when Shutdown returned (an earlier save had failed because the data directory was away)", name, pj.Completed, pj.Canceled, pj.Start != nil, pj.End != nil, j.Completed, j.Canceled, j.Start != nil, j.End != nil)
			continue
		}
		for ti := range j.Tasks {
			if ti < len(pj.Tasks) && pj.Tasks[ti].Status != j.Tasks[ti].Status {
				find("C11:store-differs-from-final-state", "%s task %s: a fresh process loads status %q, the runner reported %q", name, j.Tasks[ti].Name, pj.Tasks[ti].Status, j.Tasks[ti].Status)
			}
		}
	}
	return res
}

// RunPersistDuringShutdownCase (C11, persist-interval clause): the runner is alive as long as Shutdown has not returned.
// A graceful shutdown is waiting for a running job when another running job is canceled (acknowledged): that change
// reaches the store within the persist interval like every other one - a process that is killed while it drains must
// not lose it. Elapsed time is counted in heartbeats of the harness (limit 10 s for the 3 s interval).
func RunPersistDuringShutdownCase(seed int64) *HistResult {
	res := &HistResult{Seed: seed, Situations: map[string]map[string]struct{}{}, Evaluations: map[string]int{}}
	find := func(sig, format string, args ...any) {
		res.Findings = append(res.Findings, Finding{Props: []string{"C11"}, Sig: sig, Detail: fmt.Sprintf(format, args...), Step: -1})
	}
	def := definition.PipelineDef{Concurrency: 2, Tasks: map[string]definition.TaskDef{
		"a": {Script: []string{"true"}}, "b": {Script: []string{"true"}, DependsOn: []string{"a"}}}, SourcePath: "gen"}
	rec := &core.RecStore{}
	sys, err := core.NewSys(&definition.PipelinesDef{Pipelines: map[string]definition.PipelineDef{"p": def}}, rec, core.NewMemOutputStore())
	if err != nil {
		res.Inconclusive = err.Error()
		return res
	}
	defer sys.Close()
	defer DrainAll(sys)
	var beats atomic.Int64
	stop := make(chan struct{})
	go func() {
		tk := time.NewTicker(10 * time.Millisecond)
		defer tk.Stop()
		for {
			select {
			case <-stop:
				return
			case <-tk.C:
				beats.Add(1)
			}
		}
	}()
	defer close(stop)
	const limitBeats = 1000
	waitSaved := func(pred func(s *core.SaveRecord) bool) bool {
		start := beats.Load()
		for beats.Load()-start < limitBeats {
			if saves := rec.Saves(); len(saves) > 0 {
				if s := saves[len(saves)-1]; s.Err == nil && pred(s) {
					return true
				}
			}
			time.Sleep(5 * time.Millisecond)
		}
		return false
	}
	x, c1 := sys.Schedule(0, "p", nil, "u")
	y, c2 := sys.Schedule(0, "p", nil, "u")
	if c1 != "ok" || c2 != "ok" {
		res.Inconclusive = "schedule: " + c1 + " " + c2
		return res
	}
	// the persist loop catches up: both jobs are stored as started, no request is pending
	if !waitSaved(func(s *core.SaveRecord) bool {
		jx, okx := s.Jobs[x]
		jy, oky := s.Jobs[y]
		return okx && oky && jx.Start != nil && jy.Start != nil
	}) {
		res.Inconclusive = "the start of the two jobs was not persisted within 10 s (judged by the persist cases)"
		return res
	}
	// ... and the loop is idle: no save for more than one interval (a request that was still pending would have been served
	// within 3 s of the previous save and would carry the change made below by accident)
	for idleSince, n := beats.Load(), rec.SaveCount(); beats.Load()-idleSince < 350; {
		if m := rec.SaveCount(); m != n {
			n, idleSince = m, beats.Load()
		}
		time.Sleep(10 * time.Millisecond)
	}
	sd := make(chan struct{})
	go func() { defer close(sd); _ = sys.Shutdown(5, context.Background(), "graceful") }()
	began := false
	for i := 0; i < 4000 && !began; i++ {
		if _, cls := sys.Schedule(8, "no-such-pipeline-probe", nil, "probe"); cls == "shutting-down" {
			began = true
		} else {
			time.Sleep(100 * time.Microsecond)
		}
	}
	if !began {
		res.Inconclusive = "the graceful shutdown did not begin"
		return res
	}
	var change string
	var pred func(j store.PersistedJob) bool
	if seed%2 == 0 {
		change = "the acknowledged cancel of a running job"
		if c := sys.Cancel(0, x); c != "ok" {
			res.Inconclusive = "cancel during a graceful shutdown: " + c
			return res
		}
		pred = func(j store.PersistedJob) bool { return j.Canceled }
	} else {
		change = "the end of a task (and the launch of the next one)"
		sys.Release(x, "a", core.Outcome{Kind: core.OutOK})
		pred = func(j store.PersistedJob) bool {
			for _, t := range j.Tasks {
				if t.Name == "a" && t.Status == "done" {
					return true
				}
			}
			return false
		}
	}
	n0 := rec.SaveCount()
	ok := waitSaved(func(s *core.SaveRecord) bool { j, has := s.Jobs[x]; return has && pred(j) })
	select {
	case <-sd:
		res.Inconclusive = "the graceful shutdown returned although a job is still running"
		return res
	default:
	}
	res.sit("C11", "persisted while a graceful shutdown is waiting: "+change)
	res.Evaluations["C11"]++
	if !ok {
		find("C11:change-not-persisted-within-interval", "%s happened while a graceful shutdown was waiting for another running job; 10 s later (persist interval 3 s, %d saves since) the store still does not hold it and Shutdown has not returned - a process killed now loses it", change, rec.SaveCount()-n0)
	}
	return res
}

// RunShutdownWithSavesInFlightCase (C11; seed C11-m): the store is slow. One save is inside the store (held there by the
// harness), k further SaveToStore calls wait for their turn, the last running job ends, and a graceful Shutdown is issued.
// "When shutdown returns the store holds exactly the final reported state": if Shutdown returns while the harness still
// holds the first save inside the store, the store cannot hold the final state (nothing was written since) - Shutdown's
// own final save must have waited for its turn. After the release the usual comparison is made at the instant of return.
func RunShutdownWithSavesInFlightCase(seed int64) *HistResult {
	res := &HistResult{Seed: seed, Situations: map[string]map[string]struct{}{}, Evaluations: map[string]int{}}
	find := func(sig, format string, args ...any) {
		res.Findings = append(res.Findings, Finding{Props: []string{"C11"}, Sig: sig, Detail: fmt.Sprintf(format, args...), Step: -1})
	}
	var hold atomic.Bool
	entered := make(chan struct{}, 64)
	release := make(chan struct{})
	st := &core.RecStore{}
	st.Fail = func(n int) error {
		if hold.Load() {
			entered <- struct{}{}
			<-release
		}
		return nil
	}
	def := definition.PipelineDef{Concurrency: 2, SourcePath: "gen", Tasks: map[string]definition.TaskDef{"t": {Script: []string{"true"}}}}
	sys, err := core.NewSys(&definition.PipelinesDef{Pipelines: map[string]definition.PipelineDef{"p": def}}, st, core.NewMemOutputStore())
	if err != nil {
		res.Inconclusive = err.Error()
		return res
	}
	defer sys.Close()
	defer DrainAll(sys)
	released := false
	rel := func() {
		if !released {
			released = true
			hold.Store(false)
			close(release)
		}
	}
	defer rel()
	queued := int(seed % 3)      // SaveToStore calls waiting behind the one in the store: 0, 1, 2
	endBefore := (seed/3)%2 == 0 // the running job ends before / after Shutdown was called
	job, cls := sys.Schedule(0, "p", nil, "u")
	if cls != "ok" {
		res.Inconclusive = "schedule: " + cls
		return res
	}
	if _, err := sys.Quiesce(core.QuiesceOpts{Watchdog: 20 * time.Second}); err != nil {
		res.Inconclusive = err.Error()
		return res
	}
	hold.Store(true)
	go sys.Save(1)
	select {
	case <-entered:
	case <-time.After(20 * time.Second):
		res.Inconclusive = "the save did not reach the store"
		return res
	}
	hold.Store(false) // only the first save is held; those that follow pass through once it is released
	for i := 0; i < queued; i++ {
		go sys.Save(2 + i)
	}
	time.Sleep(20 * time.Millisecond) // (shaping: lets the further savers reach the point where they wait for their turn)
	if endBefore {
		sys.Release(job, "t", core.Outcome{Kind: core.OutOK})
		for i := 0; i < 5000; i++ {
			if j, ok := sys.ReadJob(job); ok && j.Completed {
				break
			}
			time.Sleep(time.Millisecond)
		}
	}
	sd := make(chan error, 1)
	go func() { sd <- sys.Shutdown(5, context.Background(), "graceful, saves in flight") }()
	if !endBefore {
		for i := 0; i < 4000; i++ {
			if _, cls := sys.Schedule(8, "no-such-pipeline-probe", nil, "probe"); cls == "shutting-down" {
				break
			}
			time.Sleep(50 * time.Microsecond)
		}
		sys.Release(job, "t", core.Outcome{Kind: core.OutOK})
	}
	res.sit("C11", fmt.Sprintf("graceful shutdown with a save inside a slow store and %d more waiting (job ends before the call: %v)", queued, endBefore))
	res.Evaluations["C11"]++
	compare := func(when string) {
		atR := sys.Snapshot(-1)
		saves := st.Saves()
		if len(saves) == 0 {
			find("C11:store-differs-from-final-state", "%s: Shutdown has returned and the store has not completed a single save (the runner reports %d jobs)", when, len(atR.Jobs))
			return
		}
		last := saves[len(saves)-1]
		for i := range atR.Jobs {
			j := &atR.Jobs[i]
			pj, ok := last.Jobs[j.ID]
			if !ok || pj.Completed != j.Completed || pj.Canceled != j.Canceled || (pj.End != nil) != (j.End != nil) {
				find("C11:store-differs-from-final-state", "%s: job %s is reported completed=%v canceled=%v when Shutdown returned, the last snapshot the store completed (%d so far) has it as present=%v completed=%v canceled=%v", when, j.ID[:8], j.Completed, j.Canceled, len(saves), ok, pj.Completed, pj.Canceled)
			}
		}
	}
	select {
	case <-sd:
		// Shutdown returned although the first save is still inside the store
		compare("a save is still held inside the slow store")
		rel()
	case <-time.After(1500 * time.Millisecond):
		// (the expected course: Shutdown waits for the store) - let the store go on
		rel()
		select {
		case <-sd:
			compare("after the slow store had finished")
		case <-time.After(30 * time.Second):
			res.Inconclusive = "graceful shutdown did not return after the store was released"
		}
	}
	res.Events = sys.Log.Len()
	return res
}

// RunShutdownWithFreeSlotsCase (C11; seed C11-n): jobs WAIT next to free slots when the shutdown begins (a reload raised
// the concurrency; a reload starts nothing by itself). Nothing else is going on - no client, no task ends - so every job
// that waits when Shutdown is called is canceled by it and never runs a task, graceful or forced; the running job is
// left alone by a graceful shutdown. Decided at a logical quiescence after the runner refuses requests ("shutting down").
func RunShutdownWithFreeSlotsCase(seed int64) *HistResult {
	res := &HistResult{Seed: seed, Situations: map[string]map[string]struct{}{}, Evaluations: map[string]int{}}
	find := func(sig, format string, args ...any) {
		res.Findings = append(res.Findings, Finding{Props: []string{"C11"}, Sig: sig, Detail: fmt.Sprintf(format, args...), Step: -1})
	}
	nWait := 2 + int(seed%3)
	forced := (seed/3)%2 == 1
	raiseTo := 2 + int(seed/6)%3
	def := definition.PipelineDef{Concurrency: 1, SourcePath: "gen", Tasks: map[string]definition.TaskDef{"t": {Script: []string{"true"}}}}
	sys, err := core.NewSys(&definition.PipelinesDef{Pipelines: map[string]definition.PipelineDef{"p": def}}, &core.RecStore{}, core.NewMemOutputStore())
	if err != nil {
		res.Inconclusive = err.Error()
		return res
	}
	defer sys.Close()
	defer DrainAll(sys)
	running, cls := sys.Schedule(0, "p", nil, "u")
	if cls != "ok" {
		res.Inconclusive = "schedule: " + cls
		return res
	}
	var waiting []string
	for i := 0; i < nWait; i++ {
		id, cls := sys.Schedule(0, "p", nil, "u")
		if cls != "ok" {
			res.Inconclusive = "schedule: " + cls
			return res
		}
		waiting = append(waiting, id)
	}
	def.Concurrency = raiseTo
	sys.Replace(0, &definition.PipelinesDef{Pipelines: map[string]definition.PipelineDef{"p": def}}, fmt.Sprintf("raise concurrency to %d", raiseTo))
	v, err := sys.Quiesce(core.QuiesceOpts{Watchdog: 20 * time.Second})
	if err != nil {
		res.Inconclusive = err.Error()
		return res
	}
	for _, id := range waiting {
		if j := v.ByID(id); j == nil || !j.Waiting() {
			res.Inconclusive = "a job that should wait does not (the reload started it?)"
			return res
		}
	}
	ctx, cancel := context.WithCancel(context.Background())
	defer cancel()
	if forced {
		cancel()
	}
	sd := make(chan struct{})
	go func() { defer close(sd); _ = sys.Shutdown(5, ctx, "jobs wait next to free slots") }()
	observed := false
	for deadline := time.Now().Add(5 * time.Second); time.Now().Before(deadline); {
		if _, cls := sys.Schedule(8, "no-such-pipeline-probe", nil, "probe"); cls == "shutting-down" {
			observed = true
			break
		}
		time.Sleep(50 * time.Microsecond)
	}
	if !observed {
		// (a runner that does not refuse the probe while it shuts down: judged by the other scenarios, not here)
		res.Inconclusive = "the shutdown was not observed to begin"
		return res
	}
	if !forced {
		if _, err := sys.Quiesce(core.QuiesceOpts{Watchdog: 20 * time.Second}); err != nil {
			res.Inconclusive = err.Error()
			return res
		}
	} else {
		select {
		case <-sd:
		case <-time.After(20 * time.Second):
			res.Inconclusive = "forced shutdown did not return"
			return res
		}
	}
	res.sit("C11", fmt.Sprintf("%d jobs wait next to %d free slots when a shutdown begins (forced=%v)", nWait, raiseTo-1, forced))
	res.Evaluations["C11"] += nWait
	entered := map[string]bool{}
	for _, e := range sys.Log.Events() {
		if e.Kind == core.KRunEnter || e.Kind == core.KNewRunner {
			entered[e.Job] = true
		}
	}
	for i, id := range waiting {
		j, ok := sys.ReadJob(id)
		if !ok {
			find("C11:job-lost-during-shutdown", "waiting job %d is not reported any more", i)
			continue
		}
		if entered[id] || j.Start != nil {
			find("C11:waiting-job-started-by-shutdown", "job %d of %d was waiting (next to %d free slots, after a reload had raised the concurrency) when the shutdown began with nothing else going on; it was started during the shutdown (start=%v, task entered the runner=%v, canceled=%v) instead of being canceled (forced=%v)", i+1, nWait, raiseTo-1, j.Start != nil, entered[id], j.Canceled, forced)
		} else if !j.Canceled {
			find("C11:waiting-job-not-canceled-by-shutdown", "job %d of %d was waiting when the shutdown began and is reported canceled=%v started=%v after the runner refuses requests", i+1, nWait, j.Canceled, j.Start != nil)
		}
	}
	if !forced {
		if j, ok := sys.ReadJob(running); ok && (j.Canceled || sys.Log.CancelEntered(running)) {
			find("C11:graceful-shutdown-canceled-running-job", "graceful shutdown: the running job was told to stop or is reported canceled")
		}
		DrainAll(sys)
		select {
		case <-sd:
		case <-time.After(20 * time.Second):
			if len(res.Findings) == 0 {
				res.Inconclusive = "graceful shutdown did not return after the running job had ended"
			}
		}
	}
	res.Events = sys.Log.Len()
	return res
}
