// Package drv contains the workload drivers. seq.go is the sequential conformance driver: one client issues one
// operation at a time, drives the real runner to logical quiescence after each, and compares every observable with the
// executable reference model (DESIGN.md 3.5).
package drv

import (
	"encoding/json"
	"errors"
	"fmt"
	"math/rand"
	"os"
	"path/filepath"
	"reflect"
	"sort"
	"strings"
	"time"

	"github.com/Flowpack/prunner"
	"github.com/Flowpack/prunner/store"
	"github.com/Flowpack/prunner/taskctl"

	"pxverif/core"
	"pxverif/gen"
	"pxverif/model"
)

// Finding is a violation candidate found by an oracle
type Finding struct {
	Props  []string `json:"props"`
	Sig    string   `json:"sig"`
	Detail string   `json:"detail"`
	Step   int      `json:"step"`
}

func (f Finding) Has(prop string) bool {
	for _, p := range f.Props {
		if p == prop {
			return true
		}
	}
	return false
}

// HistOpts configures the history generator
type HistOpts struct {
	NPipes       int
	MaxOps       int
	Pipe         gen.PipeOpts
	Classes      []gen.ConfigClass // if set, pipeline i gets class Classes[i]
	SlowStopProb float64
	BadVarProb   float64 // probability that a schedule request carries the reserved variable (job cannot be started)
	FailProb     float64
	AvoidAmbig   bool
	EndCtxAt     int // step at which the context handed to NewPipelineRunner ends (0 = not during the history)
	Watchdog     time.Duration
	WSchedule    int
	WFinish      int
	WCancel      int
	WFire        int
	WStopRel     int
	WRead        int
	WReload      int    // weight of definition reload operations (C16)
	ReloadPipe   string // if set, reloads only ever change / remove this pipeline (the others keep an unchanged definition)
	WSave        int    // weight of explicit SaveToStore operations (needs StoreDir)
	StoreDir     string // if set the runner persists to a real JsonDataStore in this directory (wrapped by a recording store)
	RichVars     bool   // job variables are arbitrary JSON values
	Retention    bool   // pipelines get a retention_count (1-2): saves remove finished jobs
	HTTP         bool   // observe (and drive half of the requests) through the real HTTP handler with a valid token
}

func (o *HistOpts) defaults() {
	if o.NPipes == 0 {
		o.NPipes = 2
	}
	if o.MaxOps == 0 {
		o.MaxOps = 25
	}
	if o.Watchdog == 0 {
		o.Watchdog = 30 * time.Second
	}
	if o.WSchedule == 0 {
		o.WSchedule, o.WFinish, o.WCancel, o.WFire, o.WStopRel, o.WRead = 36, 30, 12, 12, 8, 2
	}
}

// JobRec is the driver's record of an accepted job
type JobRec struct {
	Ord      int
	ID       string
	Pipe     string
	Spec     gen.PipeSpec // deep copy of the definition in force when the job was accepted
	BadVar   bool
	Vars     map[string]interface{}
	CallSeq  int64
	RetSeq   int64
	Accepted time.Time
}

// HistResult is what one history produced
type HistResult struct {
	Seed         int64
	Findings     []Finding
	Situations   map[string]map[string]struct{} // per property: distinct abstract situations the oracles were evaluated in
	Evaluations  map[string]int                 // per property: number of oracle evaluations
	Journal      []string
	Inconclusive string
	Ops          int
	Jobs         int
	Events       int
	Sample       any
}

type seqRun struct {
	o            HistOpts
	r            *rand.Rand
	sys          *core.Sys
	m            *model.Model
	specs        []gen.PipeSpec
	jobs         []*JobRec
	byID         map[string]*JobRec
	res          *HistResult
	step         int
	view         core.View
	dead         bool // a watchdog fired: stop driving
	api          *core.API
	orders       map[string][]string
	orderChecked map[string]bool
	reloaded     bool
	removed      []gen.PipeSpec  // pipelines removed by a reload (may be re-added)
	fired        map[string]bool // jobs whose delay was fired by the driver
	everRemoved  map[string]bool // pipelines that did not remain defined throughout the history
	changedPipes map[string]bool // pipelines whose definition a reload edited
	maxConc      map[string]int  // largest concurrency in force for a pipeline during the history
	flaggedOrder map[string]bool
	finishedAt   map[string]int // step at which the model saw the job finished / canceled
	rec          *core.RecStore
	snapDir      string
}

func (h *HistResult) sit(prop, s string) {
	if h.Situations[prop] == nil {
		h.Situations[prop] = map[string]struct{}{}
	}
	h.Situations[prop][s] = struct{}{}
	h.Evaluations[prop]++
}

func (q *seqRun) find(props []string, sig, format string, args ...any) {
	q.res.Findings = append(q.res.Findings, Finding{Props: props, Sig: sig, Detail: fmt.Sprintf(format, args...), Step: q.step})
}

func (q *seqRun) jn(id string) string {
	if j := q.byID[id]; j != nil {
		return fmt.Sprintf("J%d", j.Ord)
	}
	if id == "" {
		return "-"
	}
	return "?" + id[:8]
}

func (q *seqRun) jns(ids []string) string {
	out := make([]string, len(ids))
	for i, id := range ids {
		out[i] = q.jn(id)
	}
	return "[" + strings.Join(out, " ") + "]"
}

func (q *seqRun) journal(format string, args ...any) {
	q.res.Journal = append(q.res.Journal, fmt.Sprintf("%02d ", q.step)+fmt.Sprintf(format, args...))
}

// GenSpecs generates the pipelines of a history
func GenSpecs(r *rand.Rand, o HistOpts) []gen.PipeSpec {
	var specs []gen.PipeSpec
	for i := 0; i < o.NPipes; i++ {
		po := o.Pipe
		if i < len(o.Classes) {
			c := o.Classes[i]
			po.ForceClass = &c
		}
		specs = append(specs, gen.RandPipe(r, fmt.Sprintf("p%d", i), po))
	}
	return specs
}

// RunHistory executes one generated history against the real runner and returns what the oracles found
func RunHistory(seed int64, o HistOpts) *HistResult {
	o.defaults()
	r := rand.New(rand.NewSource(seed))
	res := &HistResult{Seed: seed, Situations: map[string]map[string]struct{}{}, Evaluations: map[string]int{}}
	specs := GenSpecs(r, o)
	if o.Retention {
		for i := range specs {
			specs[i].Def.RetentionCount = 1 + r.Intn(2)
		}
	}
	var rec *core.RecStore
	var st store.DataStore
	var outStore taskctl.OutputStore
	snapDir := ""
	if o.StoreDir != "" {
		dataDir := filepath.Join(o.StoreDir, fmt.Sprintf("data-%d", seed))
		snapDir = filepath.Join(o.StoreDir, fmt.Sprintf("snaps-%d", seed))
		_ = os.MkdirAll(snapDir, 0o755)
		defer os.RemoveAll(dataDir)
		defer os.RemoveAll(snapDir)
		js, err := store.NewJSONDataStore(dataDir)
		if err != nil {
			res.Inconclusive = err.Error()
			return res
		}
		rec = &core.RecStore{Inner: js}
		rec.OnSave = func(n int) {
			if b, err := os.ReadFile(filepath.Join(dataDir, "data.json")); err == nil {
				_ = os.WriteFile(filepath.Join(snapDir, fmt.Sprintf("snap-%d.json", n)), b, 0o644)
			}
		}
		st = rec
		outStore = core.NewMemOutputStore()
	}
	sys, err := core.NewSys(gen.BuildDefs(specs), st, outStore)
	if err != nil {
		res.Inconclusive = "NewSys: " + err.Error()
		return res
	}
	defer sys.Close()
	q := &seqRun{o: o, r: r, sys: sys, m: model.New(gen.ModelCfg(specs)), specs: specs, byID: map[string]*JobRec{}, res: res, rec: rec, snapDir: snapDir}
	for _, s := range specs {
		q.journal("pipeline %s: %s failfast=%v tasks=%v deps=%v cyclic=%v", s.Name, classOf(s), !s.Def.ContinueRunningTasksAfterFailure, s.Graph.Names, s.Graph.Deps, s.Graph.Cyclic)
	}
	if o.HTTP {
		q.api = core.NewAPI(sys.R, nil, "0123456789abcdef-harness-secret", false)
	}
	q.noteConcurrency()
	q.view = sys.Snapshot(-1)
	for q.step = 1; q.step <= o.MaxOps && !q.dead; q.step++ {
		if o.EndCtxAt > 0 && q.step == o.EndCtxAt {
			// the context the runner was constructed with ends (it only governs the periodic persist loop)
			q.journal("the context handed to NewPipelineRunner ends")
			sys.EndConstructorContext()
		}
		q.doOp()
	}
	if !q.dead {
		q.drain()
	}
	q.offline()
	if rec != nil && !q.dead {
		q.checkRestarts()
	}
	if q.reloaded {
		// C06 speaks about jobs that wait and start under an UNCHANGED definition: order findings about pipelines whose
		// definition was edited, removed or re-added are dropped; those about untouched pipelines stay
		var keep []Finding
		for _, f := range res.Findings {
			drop := false
			if strings.HasPrefix(f.Sig, "C06:") {
				for p := range q.changedPipes {
					if strings.HasPrefix(f.Detail, "pipeline "+p+":") {
						drop = true
					}
				}
				for p := range q.everRemoved {
					if strings.HasPrefix(f.Detail, "pipeline "+p+":") {
						drop = true
					}
				}
			}
			if !drop {
				keep = append(keep, f)
			}
		}
		res.Findings = keep
	}
	res.Ops = q.step - 1
	res.Jobs = len(q.jobs)
	res.Events = sys.Log.Len()
	if len(res.Findings) > 0 || res.Inconclusive != "" {
		res.Sample = map[string]any{"journal": res.Journal, "events": compactEvents(sys.Log.Events(), q)}
	}
	return res
}

func classOf(s gen.PipeSpec) string {
	c := gen.ConfigClass{Concurrency: s.Def.Concurrency, Limit: -1, Replace: s.Def.QueueStrategy == 1, Delay: s.Def.StartDelay > 0}
	if s.Def.QueueLimit != nil {
		c.Limit = *s.Def.QueueLimit
	}
	return c.String()
}

func compactEvents(evs []core.Event, q *seqRun) []string {
	var out []string
	for _, e := range evs {
		if e.Kind == core.KNote {
			continue
		}
		out = append(out, fmt.Sprintf("#%d %s %s %s %s %s %s", e.Seq, e.Kind, e.Op, e.Pipe, q.jn(e.Job), e.Task, e.Res))
	}
	if len(out) > 400 {
		out = out[len(out)-400:]
	}
	return out
}

func (q *seqRun) spec(p string) *gen.PipeSpec {
	for i := range q.specs {
		if q.specs[i].Name == p {
			return &q.specs[i]
		}
	}
	return nil
}

// ---- operations ----

type opKind int

const (
	opSchedule opKind = iota
	opFinish
	opCancel
	opFire
	opStopRel
	opRead
	opReload
	opSave
	opRaceReload
)

func (q *seqRun) doOp() {
	// feasible operations and their weights
	var runningTasks [][2]string // (job, task) at gate per model
	var stopping [][2]string
	var pendingTimers []string
	for _, j := range q.jobs {
		mj := q.m.Jobs[j.ID]
		if mj == nil {
			continue
		}
		if mj.State == model.JRunning && mj.Sim != nil {
			for _, t := range mj.Sim.RunningTasks() {
				runningTasks = append(runningTasks, [2]string{j.ID, t})
			}
			for _, t := range mj.Sim.StoppingTasks() {
				stopping = append(stopping, [2]string{j.ID, t})
			}
		}
		if mj.State == model.JWaiting && mj.TimerPending {
			pendingTimers = append(pendingTimers, j.ID)
		}
	}
	w := map[opKind]int{opSchedule: q.o.WSchedule, opRead: q.o.WRead, opReload: q.o.WReload}
	if q.rec != nil {
		w[opSave] = q.o.WSave
	}
	if q.o.WReload > 0 {
		w[opRaceReload] = (q.o.WReload + 2) / 3
		if q.o.ReloadPipe != "" {
			w[opRaceReload] = 0 // (that operation edits the very pipeline it schedules)
		}
	}
	if len(runningTasks) > 0 {
		w[opFinish] = q.o.WFinish
	}
	if len(q.jobs) > 0 {
		w[opCancel] = q.o.WCancel
	}
	if len(pendingTimers) > 0 {
		w[opFire] = q.o.WFire
	} else if len(q.jobs) > 0 {
		w[opFire] = 1 // firing a timer of a job that is not waiting for one must be a no-op
	}
	if len(stopping) > 0 {
		w[opStopRel] = q.o.WStopRel
	}
	total := 0
	for _, x := range w {
		total += x
	}
	pick := q.r.Intn(total)
	var op opKind
	for _, k := range []opKind{opSchedule, opFinish, opCancel, opFire, opStopRel, opRead, opReload, opSave, opRaceReload} {
		if pick < w[k] {
			op = k
			break
		}
		pick -= w[k]
	}
	switch op {
	case opSchedule:
		q.opSchedule()
	case opFinish:
		jt := runningTasks[q.r.Intn(len(runningTasks))]
		q.opFinish(jt[0], jt[1])
	case opCancel:
		q.opCancel()
	case opFire:
		if len(pendingTimers) > 0 && q.r.Intn(10) > 0 {
			q.opFire(pendingTimers[q.r.Intn(len(pendingTimers))])
		} else {
			// a spurious / late timer event: must be harmless
			var cands []string
			for _, j := range q.jobs {
				mj := q.m.Jobs[j.ID]
				if mj == nil {
					continue
				}
				if mj.State == model.JFinished && mj.Sim != nil && mj.Sim.Verdict().Canceled == model.Either {
					continue
				}
				cands = append(cands, j.ID)
			}
			if len(cands) == 0 {
				q.journal("read")
				q.settle(nil)
				return
			}
			q.opFire(cands[q.r.Intn(len(cands))])
		}
	case opStopRel:
		jt := stopping[q.r.Intn(len(stopping))]
		q.opStopRelease(jt[0], jt[1])
	case opRead:
		q.journal("read")
		q.settle(nil)
	case opReload:
		q.opReload()
	case opRaceReload:
		q.opRaceReload()
	case opSave:
		q.journal("save")
		live := q.view
		q.sys.Save(0)
		// the snapshot handed to the store is the reported state of that (quiescent) instant
		if saves := q.rec.Saves(); len(saves) > 0 {
			last := saves[len(saves)-1]
			q.res.sit("C10", fmt.Sprintf("explicit save of %d jobs compared with the reported state", min(len(live.Jobs), 8)))
			for i := range live.Jobs {
				lj := &live.Jobs[i]
				pj, ok := last.Jobs[lj.ID]
				if !ok {
					if q.o.Retention && (lj.Completed || lj.Canceled) {
						continue // the save itself applied the retention settings to this finished job
					}
					q.find([]string{"C10", "C12"}, "C10:snapshot-differs-from-reported-state", "%s is reported but missing in the snapshot handed to the store", q.jn(lj.ID))
					continue
				}
				var diffs []string
				if pj.Completed != lj.Completed || pj.Canceled != lj.Canceled {
					diffs = append(diffs, fmt.Sprintf("completed/canceled %v/%v vs reported %v/%v", pj.Completed, pj.Canceled, lj.Completed, lj.Canceled))
				}
				if (pj.Start != nil) != (lj.Start != nil) || (pj.End != nil) != (lj.End != nil) {
					diffs = append(diffs, fmt.Sprintf("start/end set %v/%v vs reported %v/%v", pj.Start != nil, pj.End != nil, lj.Start != nil, lj.End != nil))
				}
				if (pj.LastError != nil) != lj.HasError {
					diffs = append(diffs, fmt.Sprintf("lastError set %v vs reported %v", pj.LastError != nil, lj.HasError))
				}
				for ti, t := range lj.Tasks {
					if ti < len(pj.Tasks) && (pj.Tasks[ti].Status != t.Status || pj.Tasks[ti].Name != t.Name) {
						diffs = append(diffs, fmt.Sprintf("task %s status %q vs reported %q", t.Name, pj.Tasks[ti].Status, t.Status))
					}
				}
				if len(diffs) > 0 {
					q.find([]string{"C10"}, "C10:snapshot-differs-from-reported-state", "the snapshot saved at step %d holds %s differently from what the runner reports at that instant: %v", q.step, q.jn(lj.ID), diffs)
				}
			}
			// and the other direction: what the store holds after the save returned (the last snapshot it was handed) contains
			// no job that the runner no longer reports - a restart would bring it back (seed C10-m: a save whose snapshot is
			// empty is skipped, so the jobs that this very save removed stay in the store)
			after := q.sys.Snapshot(-1)
			q.res.sit("C10", fmt.Sprintf("store after an explicit save compared with the %d jobs reported afterwards", min(len(after.Jobs), 3)))
			for id := range last.Jobs {
				if after.ByID(id) == nil {
					q.find([]string{"C10", "C12"}, "C10:store-holds-a-job-that-is-no-longer-reported", "after the save of step %d returned, the store still holds job %s (last snapshot it was handed: %d jobs), which the runner does not report any more (%d jobs reported): a restart would bring it back", q.step, q.jn(id), len(last.Jobs), len(after.Jobs))
					break
				}
			}
		}
		q.settle(nil)
	}
}

// confProps: which properties a model mismatch refutes (after a reload the unchanged-definition clauses do not apply)
func (q *seqRun) confProps() []string {
	if q.reloaded {
		return []string{"C16"}
	}
	return conformanceProps
}

// opReload replaces the definitions with a mutated copy at the current point of every job's life
func (q *seqRun) opReload() {
	var descs []string
	n := 1 + q.r.Intn(2)
	for i := 0; i < n; i++ {
		switch {
		case len(q.removed) > 0 && q.r.Intn(3) == 0:
			// re-add a removed pipeline (possibly changed)
			sp := q.removed[len(q.removed)-1]
			q.removed = q.removed[:len(q.removed)-1]
			q.specs = append(q.specs, sp)
			descs = append(descs, "re-add "+sp.Name)
		case len(q.specs) > 1 && q.r.Intn(8) == 0:
			k := q.r.Intn(len(q.specs))
			if q.o.ReloadPipe != "" {
				k = -1
				for i := range q.specs {
					if q.specs[i].Name == q.o.ReloadPipe {
						k = i
					}
				}
				if k < 0 {
					continue
				}
			}
			sp := q.specs[k]
			q.specs = append(q.specs[:k:k], q.specs[k+1:]...)
			q.removed = append(q.removed, sp)
			if q.everRemoved == nil {
				q.everRemoved = map[string]bool{}
			}
			q.everRemoved[sp.Name] = true
			descs = append(descs, "remove "+sp.Name)
		default:
			k := q.r.Intn(len(q.specs))
			if q.o.ReloadPipe != "" {
				k = -1
				for i := range q.specs {
					if q.specs[i].Name == q.o.ReloadPipe {
						k = i
					}
				}
				if k < 0 {
					descs = append(descs, "nothing ("+q.o.ReloadPipe+" is not defined)")
					continue
				}
			}
			if q.changedPipes == nil {
				q.changedPipes = map[string]bool{}
			}
			q.changedPipes[q.specs[k].Name] = true
			ns, d := gen.MutateSpec(q.r, q.specs[k])
			q.specs[k] = ns
			descs = append(descs, q.specs[k].Name+": "+d)
		}
	}
	// optionally park a running job between two tasks while the definitions are swapped
	parked := ""
	for _, j := range q.jobs {
		mj := q.m.Jobs[j.ID]
		if mj != nil && mj.State == model.JRunning && !mj.CancelAsked && q.r.Intn(3) == 0 {
			q.sys.ParkWhen(j.ID, func(int64, map[string]int32) bool { return true })
			deadline := time.Now().Add(q.o.Watchdog)
			for {
				if p, _ := q.sys.Parked(j.ID); p || time.Now().After(deadline) {
					break
				}
				time.Sleep(50 * time.Microsecond)
			}
			parked = j.ID
			break
		}
	}
	before := q.view
	q.journal("reload: %s%s", strings.Join(descs, "; "), map[bool]string{true: " (while " + q.jn(parked) + " is parked between tasks)", false: ""}[parked != ""])
	q.res.sit("C16", "reload "+strings.Join(descs, ";")[:min(40, len(strings.Join(descs, ";")))])
	q.reloaded = true
	q.noteConcurrency()
	q.sys.Replace(0, gen.BuildDefs(q.specs), strings.Join(descs, "; "))
	q.m.SetCfg(gen.ModelCfg(q.specs))
	after := q.sys.Snapshot(-1)
	// across the ReplaceDefinitions call itself no job is canceled, started, duplicated or lost
	if !reflect.DeepEqual(before.Jobs, after.Jobs) {
		q.find([]string{"C16"}, "C16:reload-changed-existing-jobs", "the job list differs across ReplaceDefinitions (%s): %d jobs before, %d after", strings.Join(descs, "; "), len(before.Jobs), len(after.Jobs))
	}
	if parked != "" {
		q.sys.Unpark(parked)
	}
	q.settle(nil)
}

func (q *seqRun) listFlags() map[string]prunner.PipelineInfo {
	out := map[string]prunner.PipelineInfo{}
	for _, pi := range q.sys.ListPipelines(-1) {
		out[pi.Pipeline] = pi
	}
	return out
}

func (q *seqRun) opSchedule() {
	spec := q.specs[q.r.Intn(len(q.specs))]
	p := spec.Name
	badVar := q.r.Float64() < q.o.BadVarProb
	vars := map[string]interface{}{"n": float64(len(q.jobs) + 1), "tag": fmt.Sprintf("v%d", q.r.Intn(1000))}
	if q.o.RichVars {
		vars = gen.RandVars(q.r)
		if badVar && vars == nil {
			vars = map[string]interface{}{}
		}
	}
	if badVar {
		vars["__jobID"] = "00000000-0000-0000-0000-000000000000"
	}
	viaHTTP := q.api != nil && q.r.Intn(2) == 0
	if viaHTTP && q.o.RichVars {
		// number LITERALS as a client may write them (not the shortest form, more digits than a float64 holds): whatever
		// the API makes of them when the request is accepted is what it must still report after a restart
		if vars == nil {
			vars = map[string]interface{}{}
		}
		lits := []string{"1.10", "1E3", "12345678901234567890", "9007199254740993", "1e-9", "0.1000000000000000055511151231257827", "-0.0", "100", "2.50e+2"}
		vars["literal"] = json.RawMessage(lits[q.r.Intn(len(lits))])
		vars["nested"] = map[string]interface{}{"lit": json.RawMessage(lits[q.r.Intn(len(lits))]), "list": []interface{}{json.RawMessage(lits[q.r.Intn(len(lits))]), "x"}}
		if q.r.Intn(6) == 0 {
			// a number no float64 can hold: refused, or else handled so that the store stays loadable (checked by the restarts)
			code, _, _ := q.api.ScheduleHTTP(p, map[string]interface{}{"huge": json.RawMessage("1e400")})
			q.res.sit("C10", fmt.Sprintf("schedule request with the literal 1e400 answered %d", code))
		}
	}
	if q.api != nil && q.r.Intn(10) == 0 {
		// a schedule request whose body is not what the API accepts (malformed number literal, a number no float64 holds,
		// truncated JSON, wrong types) is refused and leaves no trace: every job stays reported, the listing stays readable
		bodies := []string{
			`{"pipeline":"` + p + `","variables":{"version":1.2.3}}`,
			`{"pipeline":"` + p + `","variables":{"huge":1e400}}`,
			`{"pipeline":"` + p + `","variables":{"n":01}}`,
			`{"pipeline":"` + p + `","variables":{"n":1}`,
			`{"pipeline":"` + p + `","variables":[1,2]}`,
			`{"pipeline":"` + p + `","variables":{"n":--1}}`,
		}
		b := bodies[q.r.Intn(len(bodies))]
		n0 := len(q.sys.Snapshot(-1).Jobs)
		code, _ := q.api.DoRaw("POST", "/pipelines/schedule", []byte(b))
		q.res.sit("C15", "malformed schedule request over HTTP")
		q.res.sit("C05", "malformed schedule request over HTTP")
		q.res.sit("C10", "malformed schedule request over HTTP")
		props := []string{"C15", "C05", "C10"}
		if code >= 200 && code < 300 {
			q.find(props, "C05:malformed-request-accepted", "POST /pipelines/schedule with the body %s was answered %d", b, code)
			q.dead = true // (the model does not know the job)
		}
		if n1 := len(q.sys.Snapshot(-1).Jobs); n1 != n0 {
			q.find(props, "C05:rejected-leaves-trace", "POST /pipelines/schedule with the body %s (answered %d) changed the number of jobs from %d to %d", b, code, n0, n1)
			q.dead = true
		}
		if _, _, err := q.api.PipelinesJobs(); err != nil {
			q.find(props, "C15:job-list-unreadable", "after POST /pipelines/schedule with the body %s (answered %d) GET /pipelines/jobs cannot be decoded any more: %v", b, code, err)
			q.dead = true
		}
		if q.dead {
			return
		}
	}
	predicted := q.m.Decide(p)
	cfg := q.m.Cfg[p]
	sitKey := fmt.Sprintf("%s R%d W%d canceledWaiters%d -> %s", classOf(spec), len(q.m.Running[p]), len(q.m.Waiting[p]), q.canceledUnstarted(p), predicted)
	// C15: the schedulable flag must predict the outcome of the request issued next in the same state
	flags := q.listFlags()
	if fl, ok := flags[p]; ok {
		q.res.sit("C15", "schedulable "+sitKey)
		if fl.Schedulable != model.Accepted(predicted) {
			q.find([]string{"C15", "C05"}, "C15:schedulable-flag-vs-model", "pipeline %s listed schedulable=%v but the model predicts %s for the next request (state %s)", p, fl.Schedulable, predicted, q.m)
		}
	}
	before := q.view
	saveBefore := 0
	callSeq := q.sys.Log.NextSeq()
	t0 := time.Now()
	var id, cls string
	if viaHTTP {
		id, cls = q.sys.ScheduleHTTP(0, q.api, p, vars)
	} else {
		id, cls = q.sys.Schedule(0, p, vars, fmt.Sprintf("user%d", q.r.Intn(3)))
	}
	retSeq := q.sys.Log.NextSeq()
	_ = saveBefore
	q.res.sit("C05", sitKey)
	obsAccepted := cls == "ok"
	if fl, ok := flags[p]; ok && fl.Schedulable != obsAccepted {
		q.find([]string{"C15"}, "C15:schedulable-flag-vs-request", "pipeline %s listed schedulable=%v but the immediately following request returned %q", p, fl.Schedulable, cls)
	}
	if obsAccepted != model.Accepted(predicted) || (!obsAccepted && cls != predicted) {
		q.find([]string{"C05"}, "C05:decision", "schedule(%s) returned %q, the admission table says %s in state %s (%s, concurrency %d)", p, cls, predicted, q.m, classOf(spec), cfg.Concurrency)
	}
	if !obsAccepted {
		q.journal("schedule %s -> rejected %s", p, cls)
		v, ok := q.settle(nil)
		if ok {
			// a rejected request leaves no trace
			if !reflect.DeepEqual(before.Jobs, v.Jobs) {
				q.find([]string{"C05"}, "C05:rejected-leaves-trace", "rejected schedule(%s)=%s changed the job list: before %d jobs, after %d jobs", p, cls, len(before.Jobs), len(v.Jobs))
			}
		}
		return
	}
	unstartable := badVar || spec.Graph.Cyclic
	rec := &JobRec{Ord: len(q.jobs) + 1, ID: id, Pipe: p, Spec: gen.PipeSpec{Name: spec.Name, Def: gen.CopyPipeDef(spec.Def), Graph: spec.Graph}, BadVar: badVar, Vars: vars, CallSeq: callSeq, RetSeq: retSeq, Accepted: t0}
	q.jobs = append(q.jobs, rec)
	q.byID[id] = rec
	if !model.Accepted(predicted) {
		// the model rejects: it cannot follow this history any further
		q.journal("schedule %s -> accepted J%d although the model rejects (%s)", p, rec.Ord, predicted)
		q.dead = true
		return
	}
	sim := model.NewJobSim(spec.SimTasks(), !spec.Def.ContinueRunningTasksAfterFailure)
	mres, victim := q.m.Schedule(p, id, unstartable, sim)
	q.journal("schedule %s%s -> J%d %s%s", p, map[bool]string{true: " (reserved variable)", false: ""}[badVar], rec.Ord, mres, map[bool]string{true: " victim " + q.jn(victim), false: ""}[victim != ""])
	// the job must be reported from the moment the request returned
	if _, ok := q.sys.ReadJob(id); !ok {
		q.find([]string{"C15"}, "C15:accepted-job-not-reported", "J%d accepted but ReadJob does not find it right after the request returned", rec.Ord)
	}
	q.settle(nil)
	if victim != "" {
		if vj := q.view.ByID(victim); vj != nil && (!vj.Canceled || vj.Start != nil) {
			q.find([]string{"C05", "C07"}, "C05:replaced-job-not-canceled", "%s was replaced by J%d but is reported canceled=%v start=%v", q.jn(victim), rec.Ord, vj.Canceled, vj.Start != nil)
		}
	}
}

func (q *seqRun) canceledUnstarted(p string) int {
	n := 0
	for _, j := range q.m.Jobs {
		if j.Pipe == p && j.State == model.JCanceled {
			n++
		}
	}
	return n
}

func (q *seqRun) opFinish(job, task string) {
	mj := q.m.Jobs[job]
	st := mj.Sim.Tasks[task]
	kind := model.OK
	if q.r.Float64() < q.o.FailProb {
		if q.r.Intn(3) == 0 {
			kind = model.ErrFail
		} else {
			kind = model.ExitFail
		}
		if false && q.o.AvoidAmbig && kind == model.ErrFail && st.AllowFailure && mj.Sim.FailFast {
			kind = model.ExitFail
		}
	}
	out := core.Outcome{Kind: core.OutcomeKind(kind), Code: int16(1 + q.r.Intn(100))}
	q.journal("finish %s.%s %s%s", q.jn(job), task, out.Kind, map[bool]string{true: " (allow_failure)", false: ""}[st.AllowFailure])
	q.res.sit("C08", fmt.Sprintf("finish %s allow=%v failfast=%v running=%d", out.Kind, st.AllowFailure, mj.Sim.FailFast, len(mj.Sim.RunningTasks())))
	mj.Sim.Finish(task, kind)
	q.sys.Release(job, task, out)
	q.settle(nil)
}

func (q *seqRun) opStopRelease(job, task string) {
	q.journal("stop-release %s.%s", q.jn(job), task)
	q.m.Jobs[job].Sim.StopRelease(task)
	q.sys.Gates.ReleaseStop(job, task)
	q.settle(nil)
}

func (q *seqRun) opFire(job string) {
	if q.fired == nil {
		q.fired = map[string]bool{}
	}
	q.fired[job] = true
	mj := q.m.Jobs[job]
	q.journal("fire-delay %s (model: %s pending=%v)", q.jn(job), mj.State, mj.TimerPending)
	q.res.sit("C07", fmt.Sprintf("fire state=%s pending=%v R%d W%d", mj.State, mj.TimerPending, len(q.m.Running[mj.Pipe]), len(q.m.Waiting[mj.Pipe])))
	q.m.FireDelay(job)
	q.sys.FireDelay(0, job)
	q.settle(nil)
}

func (q *seqRun) opCancel() {
	// choose a target class
	var waiting, running, finished, canceled []string
	for _, j := range q.jobs {
		mj := q.m.Jobs[j.ID]
		if mj == nil {
			continue
		}
		switch mj.State {
		case model.JWaiting:
			waiting = append(waiting, j.ID)
		case model.JRunning:
			running = append(running, j.ID)
		case model.JFinished:
			finished = append(finished, j.ID)
		case model.JCanceled:
			canceled = append(canceled, j.ID)
		}
	}
	type cand struct {
		ids []string
		w   int
		n   string
	}
	cands := []cand{{waiting, 35, "waiting"}, {running, 35, "running"}, {finished, 12, "finished"}, {canceled, 10, "canceled"}, {[]string{"ffffffff-ffff-4fff-bfff-ffffffffffff"}, 4, "unknown"}}
	total := 0
	for _, c := range cands {
		if len(c.ids) > 0 {
			total += c.w
		}
	}
	pick := q.r.Intn(total)
	var target, class string
	for _, c := range cands {
		if len(c.ids) == 0 {
			continue
		}
		if pick < c.w {
			target = c.ids[q.r.Intn(len(c.ids))]
			class = c.n
			break
		}
		pick -= c.w
	}
	mj := q.m.Jobs[target]
	slow := map[string]bool{}
	if class == "running" && mj.Sim != nil && !mj.CancelAsked {
		for _, t := range mj.Sim.RunningTasks() {
			if q.r.Float64() < q.o.SlowStopProb {
				slow[t] = true
				q.sys.Gates.MarkSlowStop(target, t)
			}
		}
	}
	predicted := "not-found"
	either := false
	if mj != nil {
		if mj.State == model.JFinished && mj.Sim != nil && mj.Sim.Verdict().Canceled == model.Either {
			either = true
		}
		sitPending := ""
		if mj.State == model.JWaiting {
			sitPending = fmt.Sprintf(" pending=%v head=%v", mj.TimerPending, len(q.m.Waiting[mj.Pipe]) > 0 && q.m.Waiting[mj.Pipe][0] == target)
		}
		q.res.sit("C04", fmt.Sprintf("cancel %s%s slow=%d runningTasks=%d", class, sitPending, len(slow), func() int {
			if mj.Sim != nil {
				return len(mj.Sim.RunningTasks())
			}
			return 0
		}()))
		predicted = q.m.CancelSlow(target, slow)
	} else {
		q.res.sit("C04", "cancel unknown")
	}
	before := q.view
	cls := q.sys.Cancel(0, target)
	q.journal("cancel %s (%s, slow=%v) -> %s", q.jn(target), class, keys(slow), cls)
	if cls != predicted && !(either && (cls == "ok" || cls == "already-completed")) {
		q.find([]string{"C04"}, "C04:cancel-result", "cancel of %s job %s returned %q, expected %q", class, q.jn(target), cls, predicted)
	}
	v, ok := q.settle(nil)
	if ok && (class == "finished" || class == "canceled" || class == "unknown") {
		if !reflect.DeepEqual(before.Jobs, v.Jobs) {
			q.find([]string{"C04"}, "C04:cancel-of-finished-job-changed-state", "cancel of %s job %s changed the reported state", class, q.jn(target))
		}
	}
}

func keys(m map[string]bool) []string {
	var out []string
	for k := range m {
		out = append(out, k)
	}
	sort.Strings(out)
	return out
}

// ---- settle: quiesce, sync the model with predicted completions, compare ----

func (q *seqRun) settle(waitDelay []string) (core.View, bool) {
	v, err := q.sys.Quiesce(core.QuiesceOpts{Watchdog: q.o.Watchdog, WaitDelayHandlers: waitDelay})
	if errors.Is(err, core.ErrCancelNotDelivered) {
		q.find([]string{"C04"}, "C04:acknowledged-cancel-never-delivered", "step %d: %v (the cancel call had returned; other cancels were in flight)", q.step, err)
		q.journal("CANCEL NEVER DELIVERED: %v", err)
		q.dead = true
		q.view = v
		return v, false
	}
	if err != nil {
		q.res.Inconclusive = fmt.Sprintf("step %d: %v", q.step, err)
		q.journal("WATCHDOG: %v", err)
		q.dead = true
		q.view = v
		return v, false
	}
	// model: jobs whose simulation ended are completed; completions start waiting jobs, which may end at once (no tasks)
	for changed := true; changed; {
		changed = false
		for _, j := range q.jobs {
			mj := q.m.Jobs[j.ID]
			if mj != nil && mj.State == model.JRunning && mj.Sim != nil && mj.Sim.Ended() {
				q.m.Complete(j.ID)
				changed = true
			}
		}
	}
	q.view = v
	q.compare(v)
	return v, true
}

var conformanceProps = []string{"C01", "C03", "C05", "C06", "C15"}

func (q *seqRun) compare(v core.View) {
	// no job lost or duplicated
	seen := map[string]int{}
	for i := range v.Jobs {
		seen[v.Jobs[i].ID]++
	}
	for _, j := range q.jobs {
		if seen[j.ID] == 1 {
			continue
		}
		if q.o.Retention && seen[j.ID] == 0 {
			// retention may only have removed finished jobs: every accepted job is reported until then
			if mj := q.m.Jobs[j.ID]; mj != nil && (mj.State == model.JFinished || mj.State == model.JCanceled) {
				// retention removes oldest first: an OLDER finished job of the same pipeline must not be reported any more
				if q.flaggedOrder == nil {
					q.flaggedOrder = map[string]bool{}
				}
				firstSeenGone := !q.flaggedOrder["gone:"+j.ID]
				q.flaggedOrder["gone:"+j.ID] = true
				for _, k := range q.jobs {
					if !firstSeenGone || k.Pipe != j.Pipe || k.Ord >= j.Ord || seen[k.ID] == 0 {
						continue
					}
					// only jobs that were already finished before this step count: the removal happened at a save before
					// the current operation's effects
					if fa, ok := q.finishedAt[k.ID]; ok && fa < q.step && !q.flaggedOrder[j.ID] {
						q.flaggedOrder[j.ID] = true
						q.find([]string{"C15", "C12"}, "C15:newer-finished-job-gone-while-older-still-reported", "J%d (finished) is not reported any more while the older finished job J%d of the same pipeline still is: retention did not remove oldest first", j.Ord, k.Ord)
					}
				}
				continue
			}
			q.find([]string{"C15", "C12", "C03"}, "C15:unfinished-job-no-longer-reported", "J%d is waiting or running but is not reported any more (removed by a save with retention?)", j.Ord)
			continue
		}
		q.find([]string{"C15", "C03"}, "C15:job-missing-or-duplicated", "J%d is reported %d times in the job list", j.Ord, seen[j.ID])
	}
	if len(v.Jobs) > len(q.jobs) || (!q.o.Retention && len(v.Jobs) != len(q.jobs)) {
		q.find([]string{"C15"}, "C15:unknown-jobs-reported", "%d jobs reported, %d accepted", len(v.Jobs), len(q.jobs))
	}
	flags := q.listFlags()
	for _, spec := range q.specs {
		p := spec.Name
		var obsExec, obsWait []string
		obsRunningFlag := false
		for i := range v.Jobs {
			j := &v.Jobs[i]
			if j.Pipeline != p {
				continue
			}
			if j.Executing() {
				obsExec = append(obsExec, j.ID)
			}
			if j.Running() {
				obsRunningFlag = true
			}
			if j.Waiting() {
				obsWait = append(obsWait, j.ID) // view is sorted by creation time
			}
		}
		sort.Strings(obsExec)
		mRun := q.m.RunningIDs(p)
		mWait := q.m.WaitingIDs(p)
		cfg := q.m.Cfg[p]
		q.res.sit("C01", fmt.Sprintf("%s R%d W%d", classOf(spec), len(mRun), len(mWait)))
		if len(obsExec) > cfg.Concurrency && !q.reloaded {
			q.find([]string{"C01"}, "C01:more-executing-than-concurrency", "pipeline %s: %d jobs executing %s with concurrency %d", p, len(obsExec), q.jns(obsExec), cfg.Concurrency)
		}
		if !reflect.DeepEqual(obsExec, mRun) && !(len(obsExec) == 0 && len(mRun) == 0) {
			props := append([]string(nil), q.confProps()...)
			// a job the model has running but the system still shows waiting is stranded (free slot, delay expired)
			for _, id := range mRun {
				if oj := v.ByID(id); oj != nil && oj.Waiting() {
					props = append(props, "C07", "C16")
					q.find(strandProps(q.reloaded), "C03:stranded-with-free-slot", "pipeline %s: %s is still waiting at quiescence although a slot is free and its delay has expired (executing %s, waiting %s)", p, q.jn(id), q.jns(obsExec), q.jns(obsWait))
				}
			}
			for _, id := range obsExec {
				if mj := q.m.Jobs[id]; mj != nil && mj.State == model.JWaiting && !mj.TimerPending && len(mRun) >= cfg.Concurrency {
					// started although the limit in force (possibly changed by a reload) was reached
					q.find([]string{"C01", "C16"}, "C01:job-started-while-limit-in-force-was-reached", "pipeline %s: %s was started while %s were executing and the concurrency in force is %d", p, q.jn(id), q.jns(mRun), cfg.Concurrency)
				}
				if mj := q.m.Jobs[id]; mj != nil && mj.State == model.JWaiting && mj.TimerPending {
					q.find([]string{"C07"}, "C07:started-before-delay-expired", "pipeline %s: %s executes although its start delay has not expired", p, q.jn(id))
				}
			}
			q.find(props, "conformance:executing-set", "pipeline %s: executing %s, model %s (model state %s)", p, q.jns(obsExec), q.jns(mRun), q.m)
		}
		if !reflect.DeepEqual(obsWait, mWait) && !(len(obsWait) == 0 && len(mWait) == 0) {
			q.find(append([]string{"C07"}, q.confProps()...), "conformance:waiting-list", "pipeline %s: waiting %s, model %s (model state %s)", p, q.jns(obsWait), q.jns(mWait), q.m)
		}
		// snapshot invariants of the definition in force: only meaningful while the definitions never changed (jobs
		// queued under an earlier, more generous definition legitimately stay; the exact list is compared with the model)
		if cfg.QueueLimit != nil && len(obsWait) > *cfg.QueueLimit && !q.reloaded {
			q.find([]string{"C05"}, "C05:more-waiting-than-queue-limit", "pipeline %s: %d jobs waiting with queue_limit %d", p, len(obsWait), *cfg.QueueLimit)
		}
		if cfg.Replace && len(obsWait) > 1 && !q.reloaded {
			q.find([]string{"C05", "C07"}, "C05:more-than-one-waiting-under-replace", "pipeline %s: %d jobs waiting under the replace strategy", p, len(obsWait))
		}
		if fl, ok := flags[p]; ok {
			q.res.sit("C15", fmt.Sprintf("flags %s R%d W%d", classOf(spec), len(mRun), len(mWait)))
			if fl.Running != obsRunningFlag {
				q.find([]string{"C15"}, "C15:running-flag-vs-jobs", "pipeline %s listed running=%v but the job list says %v", p, fl.Running, obsRunningFlag)
			}
			if fl.Schedulable != q.m.Schedulable(p) {
				q.find([]string{"C15", "C05"}, "C15:schedulable-flag-vs-model", "pipeline %s listed schedulable=%v, model %v (state %s)", p, fl.Schedulable, q.m.Schedulable(p), q.m)
			}
		} else {
			q.find([]string{"C15"}, "C15:pipeline-not-listed", "pipeline %s missing from ListPipelines", p)
		}
	}
	if q.api != nil {
		q.compareHTTP(v, flags)
	}
	if q.finishedAt == nil {
		q.finishedAt = map[string]int{}
	}
	for _, j := range q.jobs {
		if mj := q.m.Jobs[j.ID]; mj != nil && (mj.State == model.JFinished || mj.State == model.JCanceled) {
			if _, ok := q.finishedAt[j.ID]; !ok {
				q.finishedAt[j.ID] = q.step
			}
		}
	}
	// per job
	for _, j := range q.jobs {
		mj := q.m.Jobs[j.ID]
		oj := v.ByID(j.ID)
		if mj == nil || oj == nil {
			continue
		}
		q.checkTimes(j, oj)
		switch mj.State {
		case model.JCanceled:
			if !oj.Canceled || oj.Start != nil {
				q.find([]string{"C04", "C05"}, "C04:canceled-unstarted-job-report", "J%d should be canceled without start; reported canceled=%v started=%v", j.Ord, oj.Canceled, oj.Start != nil)
			}
			if mj.StartErr {
				q.res.sit("C02", "unstartable job "+map[bool]string{true: "cyclic", false: "reserved-variable"}[j.Spec.Graph.Cyclic])
				if !oj.HasError {
					q.find([]string{"C02"}, "C02:unstartable-job-without-error", "J%d cannot be started (cyclic=%v) but is reported without error", j.Ord, j.Spec.Graph.Cyclic)
				}
			}
		case model.JRunning:
			gotGate := q.tasksAt(j.ID, false)
			gotStop := q.tasksAt(j.ID, true)
			wantGate := mj.Sim.RunningTasks()
			wantStop := mj.Sim.StoppingTasks()
			if !mj.Sim.Ambiguous && (!eqStr(gotGate, wantGate) || !eqStr(gotStop, wantStop)) {
				q.find([]string{"C02", "C08"}, "C02:running-task-set", "J%d: tasks inside the runner %v (stopping %v), expected %v (stopping %v)", j.Ord, gotGate, gotStop, wantGate, wantStop)
			}
			if oj.Completed || oj.Canceled {
				q.find([]string{"C01", "C04"}, "C01:reported-finished-while-tasks-run", "J%d is reported completed=%v canceled=%v while its tasks %v %v are still inside the runner", j.Ord, oj.Completed, oj.Canceled, gotGate, gotStop)
			}
			for _, ts := range oj.Tasks {
				if ts.Status == "running" && !contains(wantGate, ts.Name) && !contains(wantStop, ts.Name) && !mj.Sim.Ambiguous {
					q.find([]string{"C08", "C15"}, "C08:task-reported-running-but-not-running", "J%d: task %s is reported running but is not inside the runner", j.Ord, ts.Name)
				}
			}
		case model.JFinished:
			q.checkVerdict(j, mj, oj)
		}
	}
}

// checkTaskOrder: tasks are listed after the tasks they depend on (acyclic graphs), in an order that depends only on
// the definition (all jobs of the same definition list the same order)
func (q *seqRun) checkTaskOrder(j *JobRec, oj *core.JobSnap) {
	var order []string
	pos := map[string]int{}
	for i, t := range oj.Tasks {
		order = append(order, t.Name)
		pos[t.Name] = i
	}
	if len(order) != len(j.Spec.Graph.Names) {
		q.find([]string{"C15", "C16"}, "C15:task-list-differs-from-definition", "J%d lists tasks %v, its definition has %v", j.Ord, order, j.Spec.Graph.Names)
		return
	}
	if !j.Spec.Graph.Cyclic {
		for _, t := range oj.Tasks {
			for _, d := range j.Spec.Def.Tasks[t.Name].DependsOn {
				if pos[d] > pos[t.Name] {
					q.find([]string{"C15"}, "C15:task-listed-before-its-dependency", "J%d lists task %s before its dependency %s: %v", j.Ord, t.Name, d, order)
				}
			}
		}
	}
	key := j.Pipe + "|" + fmt.Sprint(j.Spec.Graph.Names) + fmt.Sprint(j.Spec.Graph.Deps)
	if q.orders == nil {
		q.orders = map[string][]string{}
	}
	if prev, ok := q.orders[key]; ok {
		if !eqStr(prev, order) {
			q.find([]string{"C15"}, "C15:task-order-not-deterministic", "two jobs of the same definition list their tasks in different orders: %v vs %v", prev, order)
		}
	} else {
		q.orders[key] = order
		q.res.sit("C15", fmt.Sprintf("task order of graph with %d tasks %d edges cyclic=%v", len(order), edgeCount(j.Spec.Graph), j.Spec.Graph.Cyclic))
	}
}

func edgeCount(g gen.Graph) int {
	n := 0
	for _, d := range g.Deps {
		n += len(d)
	}
	return n
}

func (q *seqRun) checkTimes(j *JobRec, oj *core.JobSnap) {
	if !q.orderChecked[j.ID] {
		if q.orderChecked == nil {
			q.orderChecked = map[string]bool{}
		}
		q.orderChecked[j.ID] = true
		q.checkTaskOrder(j, oj)
	}
	if oj.Start != nil && oj.Start.Before(oj.Created) {
		q.find([]string{"C15"}, "C15:start-before-created", "J%d start %v before created %v", j.Ord, oj.Start, oj.Created)
	}
	if oj.End != nil && (oj.Start == nil || oj.End.Before(*oj.Start)) {
		q.find([]string{"C15"}, "C15:end-before-start", "J%d end %v, start %v", j.Ord, oj.End, oj.Start)
	}
	for _, t := range oj.Tasks {
		if t.Start != nil && t.End != nil && t.End.Before(*t.Start) {
			q.find([]string{"C15"}, "C15:task-end-before-start", "J%d task %s", j.Ord, t.Name)
		}
	}
}

func (q *seqRun) tasksAt(job string, stop bool) []string {
	var out []string
	list := q.sys.Gates.Waiting()
	if stop {
		list = q.sys.Gates.Stopping()
	}
	for _, k := range list {
		if k[0] == job {
			out = append(out, k[1])
		}
	}
	sort.Strings(out)
	return out
}

func eqStr(a, b []string) bool {
	if len(a) != len(b) {
		return false
	}
	for i := range a {
		if a[i] != b[i] {
			return false
		}
	}
	return true
}

func contains(l []string, s string) bool {
	for _, x := range l {
		if x == s {
			return true
		}
	}
	return false
}

// checkVerdict compares the terminal report of a started job with the prediction of the task-level simulation
func (q *seqRun) checkVerdict(j *JobRec, mj *model.Job, oj *core.JobSnap) {
	if !oj.Completed {
		q.find([]string{"C03", "C08"}, "C08:ended-job-not-completed", "J%d: all its tasks have ended but it is not reported completed", j.Ord)
		return
	}
	vd := mj.Sim.Verdict()
	plain := oj.Completed && !oj.Canceled && !oj.HasError
	q.res.sit("C08", fmt.Sprintf("verdict canceled=%d error=%d allok=%v userCancel=%v", vd.Canceled, vd.HasError, vd.AllRanOK, mj.CancelAsked))
	if plain && !vd.AllRanOK {
		props := []string{"C08"}
		if mj.CancelAsked {
			props = append(props, "C04")
		}
		q.find(props, "C08:plain-success-although-not-all-tasks-succeeded", "J%d is reported completed, not canceled, without error, but not every task ran to success: %s", j.Ord, q.taskStates(mj))
	}
	if mj.CancelAsked && plain && !vd.AllRanOK {
		q.find([]string{"C04"}, "C04:canceled-job-reported-plain-success", "J%d: cancel was acknowledged while tasks were unfinished, job is reported as plain success", j.Ord)
	}
	if vd.Canceled == model.Yes && !oj.Canceled {
		props := []string{"C08"}
		if mj.CancelAsked {
			props = append(props, "C04")
		}
		q.find(props, "C08:verdict-not-canceled", "J%d should be reported canceled (tasks: %s), reported canceled=false error=%q", j.Ord, q.taskStates(mj), oj.LastError)
	}
	if vd.Canceled == model.No && oj.Canceled {
		q.find([]string{"C08"}, "C08:verdict-canceled-unexpectedly", "J%d is reported canceled but nothing canceled it (tasks: %s)", j.Ord, q.taskStates(mj))
	}
	if vd.HasError == model.Yes && !oj.HasError {
		q.find([]string{"C08"}, "C08:verdict-error-missing", "J%d should end with an error (tasks: %s)", j.Ord, q.taskStates(mj))
	}
	if vd.HasError == model.No && oj.HasError {
		q.find([]string{"C08"}, "C08:verdict-error-unexpected", "J%d is reported with error %q (tasks: %s)", j.Ord, oj.LastError, q.taskStates(mj))
	}
	for _, t := range oj.Tasks {
		if t.Status == "running" {
			q.find([]string{"C08"}, "C08:task-running-in-completed-job", "J%d completed but task %s is reported running", j.Ord, t.Name)
		}
		if allowed, ok := vd.TaskStatus[t.Name]; ok && !mj.Sim.Ambiguous && !contains(allowed, t.Status) {
			q.find([]string{"C08", "C15"}, "C08:task-status", "J%d task %s reported %q, expected one of %v", j.Ord, t.Name, t.Status, allowed)
		}
		st := mj.Sim.Tasks[t.Name]
		if st != nil && st.State == model.TFailedAllowed && (t.Errored || t.HasError) {
			q.find([]string{"C08"}, "C08:allow-failure-task-reported-errored", "J%d task %s failed with allow_failure but is reported errored", j.Ord, t.Name)
		}
		if st != nil && st.State == model.TFailed && !t.Errored {
			q.find([]string{"C08"}, "C08:failed-task-not-reported-errored", "J%d task %s failed but is not reported errored", j.Ord, t.Name)
		}
	}
}

func (q *seqRun) taskStates(mj *model.Job) string {
	var parts []string
	for _, n := range mj.Sim.Names {
		parts = append(parts, n+"="+mj.Sim.Tasks[n].State.String())
	}
	return strings.Join(parts, " ")
}

// ---- drain: let everything finish; every accepted job must become terminal ----

func (q *seqRun) drain() {
	q.journal("drain")
	for round := 0; round < 200 && !q.dead; round++ {
		progressed := false
		for _, j := range q.jobs {
			mj := q.m.Jobs[j.ID]
			if mj == nil {
				continue
			}
			switch mj.State {
			case model.JRunning:
				for _, t := range mj.Sim.StoppingTasks() {
					mj.Sim.StopRelease(t)
					q.sys.Gates.ReleaseStop(j.ID, t)
					progressed = true
				}
				for _, t := range mj.Sim.RunningTasks() {
					mj.Sim.Finish(t, model.OK)
					q.sys.Release(j.ID, t, core.Outcome{Kind: core.OutOK})
					progressed = true
				}
			case model.JWaiting:
				if mj.TimerPending {
					if q.fired == nil {
						q.fired = map[string]bool{}
					}
					q.fired[j.ID] = true
					q.m.FireDelay(j.ID)
					q.sys.FireDelay(0, j.ID)
					progressed = true
				}
			}
			if progressed {
				break
			}
		}
		if !progressed {
			break
		}
		q.step++
		q.settle(nil)
	}
	if q.dead {
		return
	}
	for _, j := range q.jobs {
		oj := q.view.ByID(j.ID)
		if oj == nil {
			continue
		}
		q.res.sit("C03", fmt.Sprintf("drain %s delay=%v", classOf(j.Spec), j.Spec.Def.StartDelay > 0))
		if q.spec(j.Pipe) == nil || q.everRemoved[j.Pipe] {
			continue // the pipeline did not remain defined
		}
		if !oj.Terminal() {
			q.find(append([]string{"C03"}, map[bool][]string{true: {"C16"}, false: nil}[q.reloaded]...), "C03:not-terminal-after-drain", "J%d (%s) is neither completed nor canceled after all tasks were released and all delays expired: start=%v", j.Ord, j.Pipe, oj.Start != nil)
		}
	}
}

// compareHTTP checks that the HTTP API reports exactly the state that the runner reports in the same quiescent state
func (q *seqRun) compareHTTP(v core.View, flags map[string]prunner.PipelineInfo) {
	pipes, jobs, err := q.api.PipelinesJobs()
	if err != nil {
		q.find([]string{"C15"}, "C15:http-pipelines-jobs-failed", "%v", err)
		return
	}
	q.res.sit("C15", fmt.Sprintf("http list pipelines=%d jobs=%v", len(pipes), len(jobs) > 0))
	for _, p := range pipes {
		fl, ok := flags[p.Pipeline]
		if !ok || fl.Schedulable != p.Schedulable || fl.Running != p.Running {
			q.find([]string{"C15"}, "C15:http-flags-differ-from-runner", "GET /pipelines/jobs reports %+v, ListPipelines %+v", p, fl)
		}
	}
	if len(pipes) != len(flags) {
		q.find([]string{"C15"}, "C15:http-pipeline-list", "GET /pipelines/jobs lists %d pipelines, runner %d", len(pipes), len(flags))
	}
	if len(jobs) != len(v.Jobs) {
		q.find([]string{"C15"}, "C15:http-job-list-size", "GET /pipelines/jobs lists %d jobs, runner %d", len(jobs), len(v.Jobs))
	}
	// newest first
	for i := 1; i < len(jobs); i++ {
		a, b := v.ByID(jobs[i-1].ID), v.ByID(jobs[i].ID)
		if a != nil && b != nil && a.Created.Before(b.Created) {
			q.find([]string{"C15"}, "C15:job-list-not-newest-first", "%s is listed before %s but was created earlier", q.jn(a.ID), q.jn(b.ID))
		}
	}
	for i := range jobs {
		aj := &jobs[i]
		oj := v.ByID(aj.ID)
		if oj == nil {
			q.find([]string{"C15"}, "C15:http-unknown-job", "job %s listed by the API is unknown to the runner", aj.ID)
			continue
		}
		q.compareAPIJob(aj, oj, "list")
	}
	// detail of a few jobs
	for n := 0; n < 2 && len(q.jobs) > 0; n++ {
		j := q.jobs[q.r.Intn(len(q.jobs))]
		aj, code, err := q.api.JobDetail(j.ID)
		if err != nil || aj == nil {
			q.find([]string{"C15"}, "C15:http-job-detail-failed", "GET /job/detail of J%d: code %d err %v", j.Ord, code, err)
			continue
		}
		if oj := v.ByID(j.ID); oj != nil {
			q.compareAPIJob(aj, oj, "detail")
		}
	}
}

func (q *seqRun) compareAPIJob(aj *core.APIJob, oj *core.JobSnap, where string) {
	errored := false
	for _, t := range oj.Tasks {
		errored = errored || t.Errored
	}
	le := ""
	if aj.LastError != nil {
		le = *aj.LastError
	}
	if aj.Completed != oj.Completed || aj.Canceled != oj.Canceled || aj.Errored != errored || (aj.LastError != nil) != oj.HasError || le != oj.LastError || aj.Pipeline != oj.Pipeline || (aj.Start != nil) != (oj.Start != nil) || (aj.End != nil) != (oj.End != nil) {
		props := []string{"C15", "C08"}
		if oj.Start == nil && oj.HasError {
			props = append(props, "C02") // a job that could not be started (cyclic graph, reserved variable) is reported with its error
		}
		q.find(props, "C15:http-job-differs-from-runner", "%s (%s): API completed=%v canceled=%v errored=%v lastError=%q, runner completed=%v canceled=%v errored=%v lastError=%q", q.jn(oj.ID), where, aj.Completed, aj.Canceled, aj.Errored, le, oj.Completed, oj.Canceled, errored, oj.LastError)
	}
	if len(aj.Tasks) != len(oj.Tasks) {
		q.find([]string{"C15"}, "C15:http-task-list-size", "%s: API lists %d tasks, runner %d", q.jn(oj.ID), len(aj.Tasks), len(oj.Tasks))
		return
	}
	for i := range aj.Tasks {
		at, ot := aj.Tasks[i], oj.Tasks[i]
		if at.Name != ot.Name || at.Status != ot.Status || at.Errored != ot.Errored || at.ExitCode != ot.ExitCode || (at.Error != nil) != ot.HasError {
			q.find([]string{"C15", "C08"}, "C15:http-task-differs-from-runner", "%s task %d: API %s/%s errored=%v exit=%d, runner %s/%s errored=%v exit=%d", q.jn(oj.ID), i, at.Name, at.Status, at.Errored, at.ExitCode, ot.Name, ot.Status, ot.Errored, ot.ExitCode)
		}
	}
}

func strandProps(reloaded bool) []string {
	if reloaded {
		return []string{"C16", "C03"}
	}
	return []string{"C03", "C07"}
}

func (q *seqRun) noteConcurrency() {
	if q.maxConc == nil {
		q.maxConc = map[string]int{}
	}
	for _, sp := range q.specs {
		if sp.Def.Concurrency > q.maxConc[sp.Name] {
			q.maxConc[sp.Name] = sp.Def.Concurrency
		}
	}
}

// opRaceReload: a definition reload arrives in the middle of the accept path of a schedule request (at the instant the job
// id is generated). Accepting a job is atomic w.r.t. reloads: the outcome must be explained completely by "schedule, then
// reload" or completely by "reload, then schedule" - decision, tasks, start delay and env all from the same definition.
func (q *seqRun) opRaceReload() {
	k := q.r.Intn(len(q.specs))
	oldSpec := q.specs[k]
	p := oldSpec.Name
	newSpec, desc := gen.MutateSpec(q.r, oldSpec)
	if desc == "noop" {
		q.journal("read")
		q.settle(nil)
		return
	}
	newSpecs := append([]gen.PipeSpec(nil), q.specs...)
	newSpecs[k] = newSpec
	vars := map[string]interface{}{"n": float64(len(q.jobs) + 1)}
	done := make(chan struct{})
	fired := false
	core.SetUUIDHook(func() {
		fired = true
		go func() {
			q.sys.Replace(0, gen.BuildDefs(newSpecs), "racing a schedule request: "+desc)
			close(done)
		}()
		// give the reload the chance to get in if the accept path does not hold the lock here
		time.Sleep(300 * time.Microsecond)
	})
	decideOld := q.m.Decide(p)
	callSeq := q.sys.Log.NextSeq()
	t0 := time.Now()
	id, cls := q.sys.Schedule(0, p, vars, "racer")
	retSeq := q.sys.Log.NextSeq()
	core.SetUUIDHook(nil)
	if !fired {
		// rejected before an id was generated: the reload simply follows
		q.sys.Replace(0, gen.BuildDefs(newSpecs), "after a rejected schedule request: "+desc)
	} else {
		select {
		case <-done:
		case <-time.After(q.o.Watchdog):
			q.res.Inconclusive = "watchdog: reload racing a schedule request did not return"
			q.dead = true
			return
		}
	}
	q.reloaded = true
	q.noteConcurrencyOf(newSpecs)
	// order 2: reload first
	q.m.SetCfg(gen.ModelCfg(newSpecs))
	decideNew := q.m.Decide(p)
	q.m.SetCfg(gen.ModelCfg(q.specs))
	q.journal("schedule %s racing reload (%s) -> %s %s (as-if schedule first: %s, as-if reload first: %s)", p, desc, cls, q.jn(id), decideOld, decideNew)
	q.res.sit("C16", "schedule racing reload: "+strings.SplitN(desc, " ", 2)[0])
	matches := func(sp gen.PipeSpec, decide string, oj *core.JobSnap) bool {
		if (cls == "ok") != model.Accepted(decide) || (cls != "ok" && cls != decide) {
			return false
		}
		if cls != "ok" {
			return true
		}
		if oj == nil {
			return false
		}
		var names []string
		for _, t := range oj.Tasks {
			names = append(names, t.Name)
		}
		sort.Strings(names)
		want := append([]string(nil), sp.Graph.Names...)
		sort.Strings(want)
		if !eqStr(names, want) || (oj.StartDelay > 0) != (sp.Def.StartDelay > 0) || !eqMap(oj.Env, sp.Def.Env) {
			return false
		}
		for _, t := range oj.Tasks {
			if !eqStr(t.Script, sp.Def.Tasks[t.Name].Script) {
				return false
			}
		}
		// the immediate effect of the decision
		switch decide {
		case model.ResStarted:
			return oj.Start != nil || (oj.Canceled && oj.HasError)
		case model.ResQueued, model.ResReplaced:
			return oj.Start == nil
		}
		return true
	}
	var oj *core.JobSnap
	if id != "" {
		if j, ok := q.sys.ReadJob(id); ok {
			oj = &j
		}
	}
	asOld := matches(oldSpec, decideOld, oj)
	asNew := matches(newSpec, decideNew, oj)
	if !asOld && !asNew {
		detail := "rejected"
		if oj != nil {
			var names []string
			for _, t := range oj.Tasks {
				names = append(names, t.Name)
			}
			detail = fmt.Sprintf("tasks %v startDelay>0=%v env=%v started=%v", names, oj.StartDelay > 0, oj.Env, oj.Start != nil)
		}
		q.find([]string{"C16", "C13", "C05"}, "C16:job-accepted-against-a-mix-of-two-definitions", "a reload (%s) arrived while a schedule request for %s was being accepted; the result %q / %s is explained neither by the old definition (decision %s, tasks %v, delay %v) nor by the new one (decision %s, tasks %v, delay %v)", desc, p, cls, detail, decideOld, oldSpec.Graph.Names, oldSpec.Def.StartDelay > 0, decideNew, newSpec.Graph.Names, newSpec.Def.StartDelay > 0)
		q.dead = true // the model cannot follow a mixed acceptance
		q.specs = newSpecs
		return
	}
	useSpec, useCfgFirst := oldSpec, false
	if !asOld {
		useSpec, useCfgFirst = newSpec, true
	}
	if useCfgFirst {
		q.m.SetCfg(gen.ModelCfg(newSpecs))
	}
	if cls == "ok" {
		rec := &JobRec{Ord: len(q.jobs) + 1, ID: id, Pipe: p, Spec: gen.CopySpec(useSpec), Vars: vars, CallSeq: callSeq, RetSeq: retSeq, Accepted: t0}
		q.jobs = append(q.jobs, rec)
		q.byID[id] = rec
		sim := model.NewJobSim(useSpec.SimTasks(), !useSpec.Def.ContinueRunningTasksAfterFailure)
		q.m.Schedule(p, id, useSpec.Graph.Cyclic, sim)
	}
	q.m.SetCfg(gen.ModelCfg(newSpecs))
	q.specs = newSpecs
	q.settle(nil)
}

func (q *seqRun) noteConcurrencyOf(specs []gen.PipeSpec) {
	if q.maxConc == nil {
		q.maxConc = map[string]int{}
	}
	for _, sp := range specs {
		if sp.Def.Concurrency > q.maxConc[sp.Name] {
			q.maxConc[sp.Name] = sp.Def.Concurrency
		}
	}
}
