package drv

import (
	"fmt"
	"sort"
	"time"

	"pxverif/core"
	"pxverif/gen"
)

// OfflineInput is what the offline log checkers need: they do not depend on the driver that produced the history
type OfflineInput struct {
	Events []core.Event
	Final  core.View
	// Concurrency in force per pipeline (the largest value in force during the history if it changed)
	Concurrency map[string]int
	// Deps per job id: task -> dependencies; AllowFailure per job id: task -> flag (definition at acceptance)
	Deps  map[string]map[string][]string
	Allow map[string]map[string]bool
	// Unstartable job ids
	Unstartable map[string]bool
	// DefinitionChanged: pipelines whose definition changed during the history (FIFO / strandedness exempt)
	DefinitionChanged map[string]bool
	Name              func(id string) string
}

// taskIv is one execution interval of a task inside the runner
type taskIv struct {
	job, task   string
	enter, exit int64 // seq
	tEnter      time.Time
	tExit       time.Time
	res         string
	open        bool
}

func collectIntervals(evs []core.Event) (ivs []*taskIv, double []string) {
	open := map[[2]string]*taskIv{}
	count := map[[2]string]int{}
	for i := range evs {
		e := &evs[i]
		k := [2]string{e.Job, e.Task}
		switch e.Kind {
		case core.KRunEnter:
			count[k]++
			iv := &taskIv{job: e.Job, task: e.Task, enter: e.Seq, tEnter: e.T, open: true}
			open[k] = iv
			ivs = append(ivs, iv)
		case core.KRunExit:
			if iv := open[k]; iv != nil {
				iv.exit, iv.tExit, iv.res, iv.open = e.Seq, e.T, e.Res, false
				delete(open, k)
			}
		}
	}
	for k, n := range count {
		if n > 1 {
			double = append(double, fmt.Sprintf("%s.%s x%d", k[0], k[1], n))
		}
	}
	sort.Strings(double)
	return ivs, double
}

// CheckOffline runs the log checkers for C01, C02, C04, C06 over a finished (or partial) history
func CheckOffline(in OfflineInput, sit func(prop, s string)) []Finding {
	var out []Finding
	name := in.Name
	if name == nil {
		name = func(id string) string { return id }
	}
	add := func(props []string, sig, format string, args ...any) {
		out = append(out, Finding{Props: props, Sig: sig, Detail: fmt.Sprintf(format, args...), Step: -1})
	}
	ivs, _ := collectIntervals(in.Events)

	// ---- C04: once the scheduler loop has begun an iteration after its runner was told to stop, it launches nothing:
	// a task that was still waiting at that iteration top (hook H1) must never reach the runner afterwards ----
	firstTop := map[string]core.Event{}
	for _, e := range in.Events {
		switch e.Kind {
		case core.KIterAfterCancel:
			if _, ok := firstTop[e.Job]; !ok {
				firstTop[e.Job] = e
			}
		case core.KRunEnter, core.KRunRefused:
			top, ok := firstTop[e.Job]
			if !ok || e.Seq < top.Seq {
				continue
			}
			st, _ := top.Data.(map[string]int32)
			sit("C04", "runner event after the first loop iteration that saw the stop")
			if v, known := st[e.Task]; known && v == 0 {
				add([]string{"C04"}, "C04:task-launched-after-the-scheduler-saw-the-stop", "task %s of %s was handed to the runner (%s at #%d) although the scheduler loop had begun an iteration (#%d) after the runner was told to stop, and the task was still waiting then", e.Task, name(e.Job), e.Kind, e.Seq, top.Seq)
			}
		}
	}

	// ---- C02: at most once, dependencies first, nothing for unstartable jobs ----
	perTask := map[[2]string][]*taskIv{}
	for _, iv := range ivs {
		k := [2]string{iv.job, iv.task}
		perTask[k] = append(perTask[k], iv)
	}
	for k, l := range perTask {
		if len(l) > 1 {
			add([]string{"C02", "C01"}, "C02:task-executed-more-than-once", "task %s of %s entered the runner %d times (seq %d and %d)", k[1], name(k[0]), len(l), l[0].enter, l[1].enter)
		}
		if in.Unstartable[k[0]] {
			add([]string{"C02", "C18"}, "C02:unstartable-job-executed-a-task", "job %s cannot be started (cyclic graph / reserved variable) but task %s entered the runner", name(k[0]), k[1])
		}
	}
	for _, iv := range ivs {
		deps := in.Deps[iv.job]
		if deps == nil {
			continue
		}
		sit("C02", fmt.Sprintf("run with %d deps", len(deps[iv.task])))
		for _, d := range deps[iv.task] {
			dl := perTask[[2]string{iv.job, d}]
			okDep := false
			for _, div := range dl {
				if !div.open && div.exit < iv.enter {
					switch div.res {
					case "ok", "exit-fail-allowed":
						okDep = true
					case "err-fail":
						if in.Allow[iv.job][d] {
							okDep = true
						}
					}
				}
			}
			if !okDep {
				state := "never ran"
				if len(dl) > 0 {
					state = fmt.Sprintf("enter #%d exit #%d res %q", dl[0].enter, dl[0].exit, dl[0].res)
				}
				add([]string{"C02", "C08"}, "C02:task-began-before-dependency-succeeded", "task %s of %s entered the runner at #%d but its dependency %s had not finished successfully (%s)", iv.task, name(iv.job), iv.enter, d, state)
			}
		}
	}

	// a job reported as plain success has executed each of its tasks exactly once
	for i := range in.Final.Jobs {
		j := &in.Final.Jobs[i]
		if j.Completed && !j.Canceled && !j.HasError && in.Deps[j.ID] != nil {
			sit("C02", fmt.Sprintf("plain success with %d tasks", len(j.Tasks)))
			for _, t := range j.Tasks {
				l := perTask[[2]string{j.ID, t.Name}]
				if n := len(l); n != 1 {
					add([]string{"C02", "C08"}, "C02:plain-success-but-task-not-executed-exactly-once", "%s is reported completed successfully but its task %s entered the runner %d times", name(j.ID), t.Name, n)
					continue
				}
				// verdict soundness: every task ran to success or failed while marked allow_failure
				sit("C08", "plain success task result "+l[0].res)
				okRes := l[0].res == "ok" || l[0].res == "exit-fail-allowed" || (l[0].res == "err-fail" && in.Allow[j.ID][t.Name])
				if l[0].open || !okRes {
					add([]string{"C08"}, "C08:plain-success-although-not-all-tasks-succeeded", "%s is reported completed, not canceled, without error, but its task %s ended %q in the runner", name(j.ID), t.Name, l[0].res)
				}
			}
		}
	}

	for i := range in.Final.Jobs {
		j := &in.Final.Jobs[i]
		if j.Completed {
			for _, t := range j.Tasks {
				if t.Status == "running" {
					add([]string{"C08"}, "C08:task-running-in-completed-job", "%s is reported completed but its task %s is reported running", name(j.ID), t.Name)
				}
			}
		}
	}

	// ---- C01: spans and intervals ----
	type span struct {
		id    string
		start time.Time
		end   *time.Time
	}
	byPipe := map[string][]span{}
	jobOf := map[string]*core.JobSnap{}
	for i := range in.Final.Jobs {
		j := &in.Final.Jobs[i]
		jobOf[j.ID] = j
		if j.Start != nil {
			byPipe[j.Pipeline] = append(byPipe[j.Pipeline], span{j.ID, *j.Start, j.End})
		}
	}
	for p, spans := range byPipe {
		limit, ok := in.Concurrency[p]
		if !ok {
			continue
		}
		for _, s := range spans {
			n := 0
			var others []string
			for _, o := range spans {
				if o.id == s.id {
					continue
				}
				// o executes at the instant s starts: o.start <= s.start < o.end
				if (o.start.Before(s.start) || (o.start.Equal(s.start) && o.id < s.id)) && (o.end == nil || o.end.After(s.start)) {
					n++
					others = append(others, name(o.id))
				}
			}
			sit("C01", fmt.Sprintf("job start with %d others executing, limit %d", n, limit))
			if n >= limit {
				add([]string{"C01"}, "C01:job-started-while-limit-reached", "pipeline %s (concurrency %d): %s started while %v were executing", p, limit, name(s.id), others)
			}
		}
	}
	// task intervals inside the reported span; hull overlap (independent of the reported flags)
	hull := map[string][2]time.Time{}
	for _, iv := range ivs {
		j := jobOf[iv.job]
		if j == nil {
			continue
		}
		if j.Start == nil {
			add([]string{"C01", "C04", "C02"}, "C01:task-ran-in-job-without-start", "task %s of %s ran although the job is reported as never started", iv.task, name(iv.job))
			continue
		}
		if iv.tEnter.Before(*j.Start) {
			add([]string{"C01"}, "C01:task-interval-outside-job-span", "task %s of %s entered the runner before the job's reported start", iv.task, name(iv.job))
		}
		if j.End != nil && !iv.open && iv.tExit.After(*j.End) {
			add([]string{"C01"}, "C01:task-interval-outside-job-span", "task %s of %s left the runner %v after the job's reported end", iv.task, name(iv.job), iv.tExit.Sub(*j.End))
		}
		if j.End != nil && iv.tEnter.After(*j.End) {
			add([]string{"C01", "C02"}, "C01:task-interval-outside-job-span", "task %s of %s entered the runner after the job's reported end (second start of the job?)", iv.task, name(iv.job))
		}
		if iv.open {
			continue
		}
		h, ok := hull[iv.job]
		if !ok {
			hull[iv.job] = [2]time.Time{iv.tEnter, iv.tExit}
		} else {
			if iv.tEnter.Before(h[0]) {
				h[0] = iv.tEnter
			}
			if iv.tExit.After(h[1]) {
				h[1] = iv.tExit
			}
			hull[iv.job] = h
		}
	}
	for p := range byPipe {
		limit, ok := in.Concurrency[p]
		if !ok {
			continue
		}
		var ids []string
		for id := range hull {
			if j := jobOf[id]; j != nil && j.Pipeline == p {
				ids = append(ids, id)
			}
		}
		sort.Strings(ids)
		for _, a := range ids {
			n := 0
			for _, b := range ids {
				if a != b && hull[b][0].Before(hull[a][0]) && hull[b][1].After(hull[a][0]) {
					n++
				}
			}
			if n >= limit {
				add([]string{"C01"}, "C01:task-intervals-of-too-many-jobs-overlap", "pipeline %s (concurrency %d): tasks of %s began while tasks of %d other jobs were between their first begin and last end", p, limit, name(a), n)
			}
		}
	}

	// ---- C06: FIFO among jobs that waited and later started ----
	type waited struct {
		id      string
		created time.Time
		start   time.Time
	}
	firstCancelCall := map[string]int64{}
	schedRet := map[string]int64{}
	startedAtReturn := map[string]bool{}
	for i := range in.Events {
		e := &in.Events[i]
		if e.Kind == core.KCall && e.Op == "cancel" {
			if _, ok := firstCancelCall[e.Job]; !ok {
				firstCancelCall[e.Job] = e.Seq
			}
		}
		if e.Kind == core.KRet && e.Op == "schedule" && e.Job != "" {
			schedRet[e.Job] = e.Seq
		}
	}
	_ = startedAtReturn
	for p := range in.Concurrency {
		if in.DefinitionChanged[p] {
			continue
		}
		var ws []waited
		var neverStarted []*core.JobSnap
		for i := range in.Final.Jobs {
			j := &in.Final.Jobs[i]
			if j.Pipeline != p {
				continue
			}
			if j.Start != nil {
				ws = append(ws, waited{j.ID, j.Created, *j.Start})
			} else if !j.Canceled {
				neverStarted = append(neverStarted, j)
			}
		}
		sort.Slice(ws, func(a, b int) bool { return ws[a].created.Before(ws[b].created) })
		for i := 0; i < len(ws); i++ {
			for k := i + 1; k < len(ws); k++ {
				// ws[i] accepted before ws[k]; violation if ws[k] started strictly before ws[i] started
				if ws[k].start.Before(ws[i].start) {
					sit("C06", "overtake-candidate")
					add([]string{"C06"}, "C06:job-started-before-an-earlier-accepted-job", "pipeline %s: %s (accepted later) started before %s (accepted earlier) started", p, name(ws[k].id), name(ws[i].id))
				}
			}
			sit("C06", fmt.Sprintf("started job with %d later jobs", len(ws)-i-1))
		}
		// a job still waiting (never canceled) while a later accepted one started
		for _, nj := range neverStarted {
			for _, w := range ws {
				if w.created.After(nj.Created) {
					add([]string{"C06", "C03"}, "C06:job-started-while-an-earlier-job-still-waits", "pipeline %s: %s started although %s, accepted earlier, is still waiting", p, name(w.id), name(nj.ID))
				}
			}
		}
	}

	// ---- C04: effect of acknowledged cancels ----
	type call struct {
		job     string
		callSeq int64
		retSeq  int64
		res     string
	}
	var cancels []call
	pending := map[int64]*call{}
	for i := range in.Events {
		e := &in.Events[i]
		if e.Op != "cancel" {
			continue
		}
		if e.Kind == core.KCall {
			c := &call{job: e.Job, callSeq: e.Seq}
			pending[e.CallID] = c
		} else if e.Kind == core.KRet {
			if c := pending[e.CallID]; c != nil {
				c.retSeq, c.res = e.Seq, e.Res
				cancels = append(cancels, *c)
			}
		}
	}
	firstEnter := map[string]int64{}
	cancelEnter := map[string]int64{}
	for i := range in.Events {
		e := &in.Events[i]
		switch e.Kind {
		case core.KRunEnter:
			if _, ok := firstEnter[e.Job]; !ok {
				firstEnter[e.Job] = e.Seq
			}
		case core.KCancelEnter:
			if _, ok := cancelEnter[e.Job]; !ok {
				cancelEnter[e.Job] = e.Seq
			}
		}
	}
	newRunner := map[string]int64{}
	for i := range in.Events {
		e := &in.Events[i]
		if e.Kind == core.KNewRunner {
			if _, ok := newRunner[e.Job]; !ok {
				newRunner[e.Job] = e.Seq
			}
		}
	}
	for _, c := range cancels {
		if c.res != "ok" {
			continue
		}
		j := jobOf[c.job]
		if j == nil {
			continue
		}
		nr, started := newRunner[c.job]
		if !started || nr > c.retSeq {
			// not started when the cancel was acknowledged: it must never run a task
			sit("C04", "ack-cancel-of-unstarted-job")
			for _, iv := range ivs {
				if iv.job == c.job {
					add([]string{"C04"}, "C04:canceled-waiting-job-ran-a-task", "cancel of %s was acknowledged at #%d before it started, but task %s entered the runner at #%d", name(c.job), c.retSeq, iv.task, iv.enter)
					break
				}
			}
			continue
		}
		// started before the acknowledgement
		ce, delivered := cancelEnter[c.job]
		// tasks that had all exited before the call was issued: cancel raced with completion, either verdict accepted
		allExitedBeforeCall := true
		anyOpenAtCall := false
		for _, iv := range ivs {
			if iv.job != c.job {
				continue
			}
			if iv.open || iv.exit > c.callSeq {
				anyOpenAtCall = true
			}
		}
		unrun := 0
		for _, t := range j.Tasks {
			if len(perTask[[2]string{c.job, t.Name}]) == 0 {
				unrun++
			}
		}
		if anyOpenAtCall || unrun > 0 {
			allExitedBeforeCall = false
		}
		sit("C04", fmt.Sprintf("ack-cancel-of-started-job openTasks=%v unrun=%v", anyOpenAtCall, unrun > 0))
		if allExitedBeforeCall {
			continue
		}
		if j.Completed || j.Canceled {
			if anyOpenAtCall && !delivered {
				add([]string{"C04"}, "C04:running-tasks-never-told-to-stop", "cancel of running %s acknowledged at #%d but its runner was never told to stop", name(c.job), c.retSeq)
			}
			if delivered {
				for _, iv := range ivs {
					if iv.job == c.job && iv.enter > ce {
						add([]string{"C04"}, "C04:task-began-after-stop-was-delivered", "task %s of %s entered the runner at #%d after the stop was delivered at #%d", iv.task, name(c.job), iv.enter, ce)
					}
				}
			}
			stopped := false
			for _, iv := range ivs {
				if iv.job == c.job && iv.res == "canceled" {
					stopped = true
				}
			}
			// if every task ran to its natural end the cancel lost the race against completion: success is a sound report
			if j.Completed && !j.Canceled && !j.HasError && (unrun > 0 || stopped) {
				add([]string{"C04", "C08"}, "C04:canceled-job-reported-plain-success", "cancel of %s acknowledged at #%d while %d tasks had not run / were running; the job is reported completed, not canceled, without error", name(c.job), c.retSeq, unrun)
			}
		}
	}
	return out
}

func (q *seqRun) offline() {
	in := OfflineInput{
		Events:      q.sys.Log.Events(),
		Final:       q.sys.Snapshot(-1),
		Concurrency: map[string]int{},
		Deps:        map[string]map[string][]string{},
		Allow:       map[string]map[string]bool{},
		Unstartable: map[string]bool{},
		Name:        q.jn,
	}
	q.noteConcurrency()
	for name, c := range q.maxConc {
		// with reloads the overlap checkers use the largest limit that was in force (the exact limit at each start is
		// checked step by step against the model)
		in.Concurrency[name] = c
	}
	for _, j := range q.jobs {
		d := map[string][]string{}
		a := map[string]bool{}
		for n, t := range j.Spec.Def.Tasks {
			d[n] = t.DependsOn
			a[n] = t.AllowFailure
		}
		in.Deps[j.ID] = d
		in.Allow[j.ID] = a
		if j.BadVar || j.Spec.Graph.Cyclic {
			in.Unstartable[j.ID] = true
		}
	}
	fs := CheckOffline(in, q.res.sit)
	q.res.Findings = append(q.res.Findings, fs...)
	q.offlineDefinitions(in.Events)
}

func eqMap(a, b map[string]string) bool {
	if len(a) != len(b) {
		return false
	}
	for k, v := range a {
		if w, ok := b[k]; !ok || w != v {
			return false
		}
	}
	return true
}

// offlineDefinitions (C16): every task a job runs is exactly what its pipeline defined when the job was accepted
func (q *seqRun) offlineDefinitions(evs []core.Event) {
	fireCall := map[string]int64{}
	for i := range evs {
		e := &evs[i]
		if e.Kind == core.KCall && e.Op == "fire-delay" {
			if _, ok := fireCall[e.Job]; !ok {
				fireCall[e.Job] = e.Seq
			}
		}
	}
	ran := map[string]map[string]bool{}
	for i := range evs {
		e := &evs[i]
		if e.Kind != core.KRunEnter {
			continue
		}
		j := q.byID[e.Job]
		if j == nil {
			continue
		}
		if ran[e.Job] == nil {
			ran[e.Job] = map[string]bool{}
		}
		ran[e.Job][e.Task] = true
		info, _ := e.Data.(core.RunInfo)
		td, ok := j.Spec.Def.Tasks[e.Task]
		q.res.sit("C16", fmt.Sprintf("run reloaded=%v envs=%v", q.reloaded, len(td.Env) > 0 || len(j.Spec.Def.Env) > 0))
		if !ok {
			q.find([]string{"C16"}, "C16:task-not-in-accepted-definition", "J%d ran task %s which its pipeline did not define when the job was accepted (tasks then: %v)", j.Ord, e.Task, j.Spec.Graph.Names)
			continue
		}
		if !eqStr(info.Commands, td.Script) {
			q.find([]string{"C16"}, "C16:script-differs-from-accepted-definition", "J%d task %s ran commands %q, accepted definition says %q", j.Ord, e.Task, info.Commands, td.Script)
		}
		if !eqMap(info.TaskEnv, td.Env) {
			q.find([]string{"C16", "C18"}, "C16:task-env-differs-from-accepted-definition", "J%d task %s got task env %v, accepted definition says %v", j.Ord, e.Task, info.TaskEnv, td.Env)
		}
		if !eqMap(info.RunnerEnv, j.Spec.Def.Env) {
			q.find([]string{"C16", "C18"}, "C16:pipeline-env-differs-from-accepted-definition", "J%d task %s got pipeline env %v, accepted definition says %v", j.Ord, e.Task, info.RunnerEnv, j.Spec.Def.Env)
		}
		if info.AllowFailure != td.AllowFailure {
			q.find([]string{"C16"}, "C16:allow-failure-differs-from-accepted-definition", "J%d task %s allow_failure=%v, accepted definition says %v", j.Ord, e.Task, info.AllowFailure, td.AllowFailure)
		}
		for k, v := range j.Vars {
			if k == "__jobID" {
				continue
			}
			if fmt.Sprint(info.Vars[k]) != fmt.Sprint(v) {
				q.find([]string{"C16", "C18"}, "C18:job-variable-differs", "J%d task %s got variable %s=%v, the job was scheduled with %v", j.Ord, e.Task, k, info.Vars[k], v)
			}
		}
		if info.Vars["__jobID"] != e.Job {
			q.find([]string{"C18"}, "C18:job-identity-variable", "J%d task %s carries job identity %v", j.Ord, e.Task, info.Vars["__jobID"])
		}
		if j.Spec.Def.StartDelay >= gen.LongDelay {
			// logical delays only (they never expire by themselves): the driver fires them through StartDelayedJob
			if fc, ok := fireCall[e.Job]; !ok || fc > e.Seq {
				q.find([]string{"C16", "C07"}, "C16:start-delay-of-accepted-definition-ignored", "J%d was accepted under a start delay but task %s began before the delay expired", j.Ord, e.Task)
			}
		}
	}
	// a plain-success job ran exactly the tasks of the definition it was accepted under
	final := q.sys.Snapshot(-1)
	for _, j := range q.jobs {
		oj := final.ByID(j.ID)
		if oj == nil || !oj.Completed || oj.Canceled || oj.HasError {
			continue
		}
		for _, n := range j.Spec.Graph.Names {
			if !ran[j.ID][n] {
				q.find([]string{"C16", "C02"}, "C16:task-of-accepted-definition-not-run", "J%d completed successfully without running task %s of the definition it was accepted under", j.Ord, n)
			}
		}
	}
}
