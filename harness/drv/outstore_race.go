package drv

import (
	"fmt"
	"io"
	"os"
	"path/filepath"
	"strings"
	"sync"
	"time"

	"github.com/Flowpack/prunner"
	"github.com/Flowpack/prunner/definition"
	"github.com/Flowpack/prunner/taskctl"
	"github.com/taskctl/taskctl/pkg/variables"

	"pxverif/core"
)

// RunOutputStoreRace (C13, race build): the real FileOutputStore shared by everything that touches it at once - the real
// task runner of several jobs that run side by side (opening a log file per stream, one task whose log file cannot be
// created because its name is too long for a file name), saves whose retention removes the logs of finished jobs, and
// API clients that read logs. The verdict is the race detector's (and "nothing crashed, every job ended"); the task
// whose log cannot be created may fail its job, that is not judged here.
func RunOutputStoreRace(seed int64, workDir string) *HistResult {
	res := &HistResult{Seed: seed, Situations: map[string]map[string]struct{}{}, Evaluations: map[string]int{}}
	dir, err := os.MkdirTemp(workDir, "outrace-")
	if err != nil {
		res.Inconclusive = err.Error()
		return res
	}
	defer os.RemoveAll(dir)
	out, err := taskctl.NewOutputStore(filepath.Join(dir, "logs"))
	if err != nil {
		res.Inconclusive = err.Error()
		return res
	}
	long := "L" + strings.Repeat("x", 250) // <name>-stdout.log exceeds NAME_MAX: os.Create fails
	tasks := map[string]definition.TaskDef{
		"a": {Script: []string{"echo a"}},
		"b": {Script: []string{"echo b"}},
		"c": {Script: []string{"echo c"}, DependsOn: []string{"a"}},
	}
	withLong := map[string]definition.TaskDef{"a": tasks["a"], "b": tasks["b"], long: {Script: []string{"true"}, AllowFailure: true}}
	defs := &definition.PipelinesDef{Pipelines: map[string]definition.PipelineDef{
		"plain":   {Concurrency: 4, RetentionCount: 1 + int(seed%2), SourcePath: "gen", Tasks: tasks},
		"unnamed": {Concurrency: 4, RetentionCount: 1, ContinueRunningTasksAfterFailure: true, SourcePath: "gen", Tasks: withLong},
	}}
	sys, err := core.NewSys(defs, &core.RecStore{}, out)
	if err != nil {
		res.Inconclusive = err.Error()
		return res
	}
	defer sys.Close()
	sys.MakeRunner = func(j *prunner.PipelineJob) taskctl.Runner {
		tr, _ := taskctl.NewTaskRunner(out, taskctl.WithEnv(variables.FromMap(j.Env)))
		tr.Stdout, tr.Stderr = io.Discard, io.Discard
		return tr
	}
	var mu sync.Mutex
	var ids []string
	var wg sync.WaitGroup
	for g := 0; g < 3; g++ {
		wg.Add(1)
		go func(g int) {
			defer wg.Done()
			for i := 0; i < 14; i++ {
				p := []string{"plain", "unnamed"}[(g+i)%2]
				id, cls := sys.Schedule(g, p, nil, "u")
				if cls == "ok" {
					mu.Lock()
					ids = append(ids, id)
					mu.Unlock()
				}
				time.Sleep(time.Duration((seed+int64(i))%3) * 300 * time.Microsecond)
			}
		}(g)
	}
	stop := make(chan struct{})
	var bg sync.WaitGroup
	bg.Add(2)
	go func() { // saver: retention removes the log directories of finished jobs
		defer bg.Done()
		for {
			select {
			case <-stop:
				return
			default:
			}
			sys.Save(3)
			time.Sleep(200 * time.Microsecond)
		}
	}()
	reads := 0
	go func() { // log reader (what GET /job/logs does)
		defer bg.Done()
		for {
			select {
			case <-stop:
				return
			default:
			}
			mu.Lock()
			var id string
			if len(ids) > 0 {
				id = ids[reads%len(ids)]
			}
			mu.Unlock()
			if id != "" {
				for _, tn := range []string{"a", long} {
					if rd, err := out.Reader(id, tn, "stdout"); err == nil {
						_, _ = io.Copy(io.Discard, rd)
						rd.Close()
					}
				}
				reads++
			}
			time.Sleep(100 * time.Microsecond)
		}
	}()
	wg.Wait()
	mu.Lock()
	all := append([]string(nil), ids...)
	mu.Unlock()
	// every job ends by itself (or was removed by a save)
	ended := false
	deadline := time.Now().Add(60 * time.Second)
	for !ended && time.Now().Before(deadline) {
		ended = true
		for _, id := range all {
			if j, ok := sys.ReadJob(id); ok && !(j.Completed || (j.Canceled && j.Start == nil)) {
				ended = false
				break
			}
		}
		if !ended {
			time.Sleep(2 * time.Millisecond)
		}
	}
	close(stop)
	bg.Wait()
	if !ended {
		res.Inconclusive = "watchdog: jobs on the real output store did not end within 60 s"
		return res
	}
	res.sit("C13", fmt.Sprintf("real file output store shared by %d+ jobs, saves that remove logs and a log reader; one task's log file cannot be created", len(all)/10*10))
	res.Evaluations["C13"] += len(all) + reads
	res.Events = sys.Log.Len()
	return res
}
