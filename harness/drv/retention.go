package drv

import (
	"crypto/sha256"
	"encoding/hex"
	"fmt"
	"io/fs"
	"math/rand"
	"os"
	"path/filepath"
	"sort"
	"sync"
	"time"

	"github.com/gofrs/uuid"

	"github.com/Flowpack/prunner/definition"
	"github.com/Flowpack/prunner/store"
	"github.com/Flowpack/prunner/taskctl"

	"pxverif/core"
	"pxverif/gen"
)

func hashTree(root string) map[string]string {
	out := map[string]string{}
	_ = filepath.WalkDir(root, func(p string, d fs.DirEntry, err error) error {
		if err != nil || d.IsDir() {
			return nil
		}
		b, _ := os.ReadFile(p)
		sum := sha256.Sum256(b)
		rel, _ := filepath.Rel(root, p)
		out[rel] = hex.EncodeToString(sum[:8])
		return nil
	})
	return out
}

func dirExists(p string) bool {
	st, err := os.Stat(p)
	return err == nil && st.IsDir()
}

// RunRetentionCase checks one population of jobs against retention (C12)
func RunRetentionCase(seed int64, workDir string) *HistResult {
	r := rand.New(rand.NewSource(seed))
	res := &HistResult{Seed: seed, Situations: map[string]map[string]struct{}{}, Evaluations: map[string]int{}}
	find := func(sig, format string, args ...any) {
		res.Findings = append(res.Findings, Finding{Props: []string{"C12"}, Sig: sig, Detail: fmt.Sprintf(format, args...), Step: -1})
	}
	dir, err := os.MkdirTemp(workDir, "ret-")
	if err != nil {
		res.Inconclusive = err.Error()
		return res
	}
	defer os.RemoveAll(dir)
	nP := 1 + r.Intn(3)
	specs := GenSpecs(r, HistOpts{NPipes: nP, Pipe: gen.PipeOpts{MaxTasks: 2}})
	counts := []int{0, 1, 2, 5}
	periods := []time.Duration{0, time.Hour, 24 * time.Hour, time.Millisecond}
	for i := range specs {
		specs[i].Def.RetentionCount = counts[r.Intn(len(counts))]
		specs[i].Def.RetentionPeriod = periods[r.Intn(len(periods))]
		specs[i].Def.StartDelay = 0
		specs[i].Def.Concurrency = 1 + r.Intn(2)
		specs[i].Def.QueueLimit = nil
		specs[i].Def.QueueStrategy = 0
		if specs[i].Graph.Cyclic {
			specs[i] = gen.RandPipe(r, specs[i].Name, gen.PipeOpts{MaxTasks: 2})
			specs[i].Def.RetentionCount = counts[r.Intn(len(counts))]
			specs[i].Def.RetentionPeriod = periods[r.Intn(len(periods))]
			specs[i].Def.QueueLimit = nil
			specs[i].Def.StartDelay = 0
			specs[i].Def.QueueStrategy = 0
		}
	}
	logRoot := filepath.Join(dir, "logs")
	out, err := taskctl.NewOutputStore(logRoot)
	if err != nil {
		res.Inconclusive = err.Error()
		return res
	}
	// an embedding application may run without an output store (the project's own tests do): saves must work all the same
	noLogs := seed%8 == 5
	noStore := seed%8 == 6 // (no data store: there are no jobs "from an earlier run" then)
	var outI taskctl.OutputStore = out
	if noLogs {
		outI = nil
		res.sit("C12", "runner without output store")
	}
	writeLogs := func(id string, tasks []string, tag string) {
		if noLogs {
			return
		}
		if r.Intn(4) == 0 {
			// a job without any log directory (it never ran a task, or its logs were cleaned up by hand): retention treats
			// it like every other job
			res.sit("C12", "job without a log directory")
			return
		}
		for _, t := range tasks {
			for _, stream := range []string{"stdout", "stderr"} {
				w, err := out.Writer(id, t, stream)
				if err == nil {
					fmt.Fprintf(w, "%s %s %s %s\n", tag, id, t, stream)
					w.Close()
				}
			}
		}
	}
	// jobs "from an earlier run": ages k*30min + 7min, so every job is at least 7 minutes away from a period boundary
	now := time.Now()
	data := &store.PersistedData{}
	pipeNames := []string{}
	for _, s := range specs {
		pipeNames = append(pipeNames, s.Name)
	}
	pipeNames = append(pipeNames, "gone") // a pipeline that is no longer defined
	taskNames := func(p string) []string {
		for _, s := range specs {
			if s.Name == p {
				return append([]string(nil), s.Graph.Names...)
			}
		}
		return []string{"old"}
	}
	ageSlots := r.Perm(60)
	slot := 0
	var lastCreated time.Time
	for _, p := range pipeNames {
		n := r.Intn(9)
		if p == "gone" {
			n = r.Intn(3)
		}
		for i := 0; i < n; i++ {
			id, _ := uuid.NewV4()
			k := ageSlots[slot%len(ageSlots)]
			slot++
			created := now.Add(-time.Duration(k)*30*time.Minute - 7*time.Minute)
			if i > 0 && r.Intn(4) == 0 {
				// created in the very same instant as the previous job of this pipeline (a store written with a coarse clock,
				// two requests in one tick), written with another zone offset: the count rule still counts every job
				created = lastCreated.In(time.FixedZone("", []int{3600, -5 * 3600, 19800}[r.Intn(3)]))
				res.sit("C12", "two jobs of a pipeline created in the same instant")
			}
			lastCreated = created
			pj := store.PersistedJob{ID: id, Pipeline: p, Created: created}
			kind := r.Intn(4) // 0 finished, 1 canceled unstarted, 2 formerly running, 3 formerly waiting
			st := created.Add(time.Second)
			en := created.Add(time.Minute)
			if k%3 == 0 {
				// a job that waited or ran for a long time and ended three minutes ago: its age is its age all the same, and
				// the order of the jobs is the order of their creation (seed C12-n: retention period measured from the end)
				en = now.Add(-3 * time.Minute)
				if kind == 0 {
					res.sit("C12", "finished job that ended long after it was created")
				}
			}
			switch kind {
			case 0:
				pj.Start, pj.End, pj.Completed = &st, &en, true
			case 1:
				pj.Canceled = true
			case 2:
				pj.Start = &st
			}
			for _, tn := range taskNames(p) {
				pj.Tasks = append(pj.Tasks, store.PersistedTask{Name: tn, Script: []string{"echo"}, Status: map[int]string{0: "done", 1: "waiting", 2: "running", 3: "waiting"}[kind]})
			}
			data.Jobs = append(data.Jobs, pj)
			if !noStore {
				writeLogs(id.String(), taskNames(p), "old")
			}
		}
	}
	r.Shuffle(len(data.Jobs), func(a, b int) { data.Jobs[a], data.Jobs[b] = data.Jobs[b], data.Jobs[a] })
	dataDir := filepath.Join(dir, "data")
	js, _ := store.NewJSONDataStore(dataDir)
	if err := js.Save(data); err != nil {
		res.Inconclusive = err.Error()
		return res
	}
	rec := &core.RecStore{Inner: js}
	// an embedding application may also run without a data store, and a save may fail (disk full): the jobs that the
	// save removed from the runner are gone from the API either way, so their logs must be gone too
	failingSaves := seed%8 == 7
	failed := map[int]bool{}
	if failingSaves {
		fr := rand.New(rand.NewSource(seed + 99))
		rec.Fail = func(n int) error {
			if n > 1 && fr.Intn(2) == 0 {
				failed[n] = true
				return fmt.Errorf("injected: no space left on device")
			}
			return nil
		}
		res.sit("C12", "saves that fail")
	}
	var stI store.DataStore = rec
	if noStore {
		stI = nil
		res.sit("C12", "runner without data store")
	}
	sys, err := core.NewSys(gen.BuildDefs(specs), stI, outI)
	if err != nil {
		res.Inconclusive = err.Error()
		return res
	}
	defer sys.Close()
	quiesce := func() bool {
		if _, err := sys.Quiesce(core.QuiesceOpts{Watchdog: 30 * time.Second}); err != nil {
			res.Inconclusive = err.Error()
			return false
		}
		return true
	}
	curSpecs := specs
	rounds := 1 + r.Intn(3)
	for round := 0; round < rounds; round++ {
		// live activity: schedule 0-4 jobs, finish some of them
		nLive := r.Intn(5)
		for i := 0; i < nLive; i++ {
			sp := curSpecs[r.Intn(len(curSpecs))]
			id, cls := sys.Schedule(0, sp.Name, nil, "u")
			if cls == "ok" {
				writeLogs(id, sp.Graph.Names, "live")
			}
		}
		if !quiesce() {
			return res
		}
		for _, k := range sys.Gates.Waiting() {
			if r.Intn(2) == 0 {
				kind := core.OutOK
				if r.Intn(4) == 0 {
					kind = core.OutExitFail
				}
				sys.Release(k[0], k[1], core.Outcome{Kind: kind})
			}
		}
		if !quiesce() {
			return res
		}
		if r.Intn(4) == 0 {
			// cancel a random unfinished job
			v := sys.Snapshot(-1)
			for i := range v.Jobs {
				if !v.Jobs[i].Terminal() && r.Intn(2) == 0 {
					sys.Cancel(0, v.Jobs[i].ID)
					break
				}
			}
			if !quiesce() {
				return res
			}
		}
		if r.Intn(5) == 0 && len(curSpecs) > 1 {
			// a reload removes a pipeline before the save
			k := r.Intn(len(curSpecs))
			curSpecs = append(append([]gen.PipeSpec(nil), curSpecs[:k]...), curSpecs[k+1:]...)
			sys.Replace(0, gen.BuildDefs(curSpecs), "remove pipeline")
		}
		defined := map[string]gen.PipeSpec{}
		for _, s := range curSpecs {
			defined[s.Name] = s
		}
		// a tiny retention period (1ms) makes live waiting / running jobs older than the period: they must be kept anyway
		time.Sleep(3 * time.Millisecond)
		before := sys.Snapshot(-1)
		logsBefore := hashTree(logRoot)
		sys.Save(0)
		after := sys.Snapshot(-1)
		logsAfter := hashTree(logRoot)
		kept := map[string]bool{}
		for i := range after.Jobs {
			kept[after.Jobs[i].ID] = true
		}
		// nothing appears out of nowhere
		for i := range after.Jobs {
			if before.ByID(after.Jobs[i].ID) == nil {
				find("C12:job-appeared-during-save", "job %s is reported after the save but was not before", after.Jobs[i].ID)
			}
		}
		perPipe := map[string][]*core.JobSnap{}
		for i := range before.Jobs {
			j := &before.Jobs[i]
			perPipe[j.Pipeline] = append(perPipe[j.Pipeline], j)
		}
		for p, jobs := range perPipe {
			sp, isDefined := defined[p]
			sort.Slice(jobs, func(a, b int) bool { return jobs[a].Created.After(jobs[b].Created) }) // newest first
			nFinished, nKeptFinished, nUnfinished := 0, 0, 0
			for _, j := range jobs {
				fin := j.Completed || j.Canceled
				if fin {
					nFinished++
					if kept[j.ID] {
						nKeptFinished++
					}
				} else {
					nUnfinished++
				}
			}
			if !isDefined {
				res.sit("C12", fmt.Sprintf("undefined pipeline with %d jobs", min(len(jobs), 3)))
				for _, j := range jobs {
					if kept[j.ID] {
						find("C12:job-of-undefined-pipeline-kept", "job %s of pipeline %s, which is no longer defined, is still reported after the save", j.ID, p)
					}
				}
				continue
			}
			rc, rp := sp.Def.RetentionCount, sp.Def.RetentionPeriod
			res.sit("C12", fmt.Sprintf("count=%d period=%s finished=%d unfinished=%d", rc, rp, min(nFinished, 8), min(nUnfinished, 3)))
			for _, j := range jobs {
				fin := j.Completed || j.Canceled
				if !fin && !kept[j.ID] {
					find("C12:unfinished-job-removed", "pipeline %s: job %s (started=%v) was waiting or running and was removed by the save", p, j.ID, j.Start != nil)
				}
				if rc == 0 && rp == 0 && !kept[j.ID] {
					find("C12:job-removed-without-retention-settings", "pipeline %s has no retention settings but job %s was removed", p, j.ID)
				}
				if fin && kept[j.ID] && rp >= time.Minute && now.Sub(j.Created) > rp {
					find("C12:job-older-than-retention-period-kept", "pipeline %s (retention_period %s): finished job %s is %s old and still reported", p, rp, j.ID, now.Sub(j.Created).Round(time.Minute))
				}
			}
			if rc > 0 && nKeptFinished > rc {
				find("C12:more-finished-jobs-than-retention-count", "pipeline %s (retention_count %d): %d finished jobs remain after the save", p, rc, nKeptFinished)
			}
			// a finished job is kept only if every newer finished job is kept
			sawRemoved := ""
			var sawRemovedCreated time.Time
			for _, j := range jobs { // newest first
				if !(j.Completed || j.Canceled) {
					continue
				}
				if !kept[j.ID] {
					if sawRemoved == "" {
						sawRemoved, sawRemovedCreated = j.ID, j.Created
					}
				} else if sawRemoved != "" && j.Created.Before(sawRemovedCreated) { // (jobs created in the same instant: either may go first)
					find("C12:newer-finished-job-removed-while-older-kept", "pipeline %s (retention_count %d, period %s): finished job %s is kept although the newer finished job %s was removed", p, rc, rp, j.ID, sawRemoved)
					break
				}
			}
		}
		// store content == API view (if there is a store and this save reached it)
		ld, err := js.Load()
		if noStore || failed[rec.SaveCount()] {
			res.sit("C12", fmt.Sprintf("save without store effect (noStore=%v failed=%v)", noStore, failed[rec.SaveCount()]))
		} else if err != nil {
			find("C12:store-not-loadable-after-save", "%v", err)
		} else {
			inStore := map[string]bool{}
			for _, pj := range ld.Jobs {
				inStore[pj.ID.String()] = true
			}
			if len(inStore) != len(kept) {
				find("C12:store-differs-from-api", "the store holds %d jobs, the API reports %d after the save", len(inStore), len(kept))
			}
			for id := range kept {
				if !inStore[id] {
					find("C12:store-differs-from-api", "job %s is reported by the API but is not in the store", id)
				}
			}
		}
		// logs: removed jobs' logs gone, kept jobs' logs untouched
		for i := range before.Jobs {
			id := before.Jobs[i].ID
			if !kept[id] {
				if dirExists(filepath.Join(logRoot, id)) {
					find("C12:logs-of-removed-job-left", "job %s was removed but its log directory still exists", id)
				}
				for f := range logsAfter {
					if len(f) > len(id) && f[:len(id)] == id {
						find("C12:logs-of-removed-job-left", "job %s was removed but log file %s still exists", id, f)
						break
					}
				}
			}
		}
		// no log directory without a reported job (jobs that were purged on any path must not leave their logs behind)
		if entries, err := os.ReadDir(logRoot); err == nil {
			for _, e := range entries {
				if !kept[e.Name()] {
					find("C12:logs-of-removed-job-left", "log directory %s exists after the save but no such job is reported (its job was purged without its logs)", e.Name())
				}
			}
		}
		for f, h := range logsBefore {
			id := filepath.Dir(f)
			if kept[id] {
				if h2, ok := logsAfter[f]; !ok {
					find("C12:logs-of-kept-job-removed", "log file %s of a kept job disappeared during the save", f)
				} else if h2 != h {
					find("C12:logs-of-kept-job-changed", "log file %s of a kept job changed during the save", f)
				}
			}
		}
		res.Evaluations["C12"] += len(before.Jobs)
	}
	// agreement after restart: a second runner on the result reports the same set
	finalIDs := map[string]bool{}
	fv := sys.Snapshot(-1)
	for i := range fv.Jobs {
		finalIDs[fv.Jobs[i].ID] = true
	}
	js2, _ := store.NewJSONDataStore(dataDir)
	sys2, err := core.NewSys(gen.BuildDefs(curSpecs), js2, outI)
	if err == nil && (noStore || failed[rec.SaveCount()]) {
		sys2.Close()
	} else if err == nil {
		v2 := sys2.Snapshot(-1)
		if len(v2.Jobs) != len(finalIDs) {
			find("C12:restart-disagrees-with-api", "after the last save the API reported %d jobs, a runner restarted on the store reports %d", len(finalIDs), len(v2.Jobs))
		}
		sys2.Close()
	}
	// let running jobs finish so that goroutines end
	DrainAll(sys)
	res.Events = sys.Log.Len()
	if len(res.Findings) > 0 {
		res.Sample = map[string]any{"seed": seed, "loadedJobs": len(data.Jobs), "rounds": rounds}
	}
	return res
}

// RunConcurrentSavesCase (C12, "after every save the set of jobs reported by the API equals the set in the store"): several
// SaveToStore calls are issued at the same time against a store whose Save takes a millisecond or is held by the harness,
// with nothing else going on (all jobs finished; retention_count makes the save remove some of them). Whenever one of the
// calls returns, the store - the last snapshot it has COMPLETED - holds exactly the jobs the API reports. (A call that
// returns because "another save is queued anyway" leaves the store behind the API at that instant: own mutant after C11-m.)
func RunConcurrentSavesCase(seed int64) *HistResult {
	res := &HistResult{Seed: seed, Situations: map[string]map[string]struct{}{}, Evaluations: map[string]int{}}
	find := func(sig, format string, args ...any) {
		res.Findings = append(res.Findings, Finding{Props: []string{"C12", "C10"}, Sig: sig, Detail: fmt.Sprintf(format, args...), Step: -1})
	}
	r := rand.New(rand.NewSource(seed))
	keep := 1 + r.Intn(2)
	def := definition.PipelineDef{Concurrency: 4, RetentionCount: keep, SourcePath: "gen", Tasks: map[string]definition.TaskDef{"t": {Script: []string{"true"}}}}
	st := &core.RecStore{Delay: time.Duration(500+r.Intn(1500)) * time.Microsecond}
	sys, err := core.NewSys(&definition.PipelinesDef{Pipelines: map[string]definition.PipelineDef{"p": def}}, st, core.NewMemOutputStore())
	if err != nil {
		res.Inconclusive = err.Error()
		return res
	}
	defer sys.Close()
	defer DrainAll(sys)
	savers := 2 + r.Intn(4)
	rounds := 2 + r.Intn(3)
	for round := 0; round < rounds; round++ {
		n := keep + 1 + r.Intn(3)
		for i := 0; i < n; i++ {
			if _, cls := sys.Schedule(0, "p", nil, "u"); cls != "ok" {
				res.Inconclusive = "schedule: " + cls
				return res
			}
			DrainAll(sys)
		}
		if _, err := sys.Quiesce(core.QuiesceOpts{Watchdog: 20 * time.Second}); err != nil {
			res.Inconclusive = err.Error()
			return res
		}
		// (the persist loop may be saving too: it is one more saver; nothing changes the jobs from here on except saves)
		var wg sync.WaitGroup
		var mu sync.Mutex
		for s := 0; s < savers; s++ {
			wg.Add(1)
			go func(s int) {
				defer wg.Done()
				time.Sleep(time.Duration(s*150) * time.Microsecond)
				sys.Save(10 + s)
				// this save has returned: what the store has completed by now is what the API reports now (no save that
				// is still running can change the set: the first save of the round removed what there was to remove)
				v := sys.Snapshot(-1)
				saves := st.Saves()
				mu.Lock()
				defer mu.Unlock()
				res.Evaluations["C12"]++
				if len(saves) == 0 {
					find("C12:store-differs-from-api", "round %d: SaveToStore call %d of %d concurrent ones has returned and the store has not completed any save", round, s, savers)
					return
				}
				last := saves[len(saves)-1]
				same := len(last.Jobs) == len(v.Jobs)
				for i := range v.Jobs {
					if _, ok := last.Jobs[v.Jobs[i].ID]; !ok {
						same = false
					}
				}
				if !same {
					find("C12:store-differs-from-api", "round %d: SaveToStore call %d of %d concurrent ones has returned; the last snapshot the store has completed holds %d jobs, the API reports %d (retention_count %d)", round, s, savers, len(last.Jobs), len(v.Jobs), keep)
				}
			}(s)
		}
		wg.Wait()
	}
	res.sit("C12", fmt.Sprintf("%d concurrent SaveToStore calls on a slow store, retention_count %d", savers, keep))
	res.Events = sys.Log.Len()
	return res
}

// RunOldRunningJobRetentionCase (C12; seed C12-c was caught by two cases only): the OLDEST job of a pipeline is still
// running while more than retention_count newer jobs of the pipeline have finished (concurrency 4). A save never removes
// the running job, keeps at most retention_count finished jobs and of those the newest; API and store agree afterwards.
// Variants: the running job is the oldest / the second oldest; 1-3 saves; a second running job in the middle.
func RunOldRunningJobRetentionCase(seed int64) *HistResult {
	res := &HistResult{Seed: seed, Situations: map[string]map[string]struct{}{}, Evaluations: map[string]int{}}
	find := func(sig, format string, args ...any) {
		res.Findings = append(res.Findings, Finding{Props: []string{"C12"}, Sig: sig, Detail: fmt.Sprintf(format, args...), Step: -1})
	}
	keep := 1 + int(seed%2)
	extra := 1 + int(seed/2)%3
	runnerPos := int(seed/6) % 2 // the long-running job is the oldest (0) or the second oldest (1)
	midRunner := (seed/12)%2 == 1
	def := definition.PipelineDef{Concurrency: 4, RetentionCount: keep, SourcePath: "gen", Tasks: map[string]definition.TaskDef{"t": {Script: []string{"true"}}}}
	st := &core.RecStore{}
	sys, err := core.NewSys(&definition.PipelinesDef{Pipelines: map[string]definition.PipelineDef{"p": def}}, st, core.NewMemOutputStore())
	if err != nil {
		res.Inconclusive = err.Error()
		return res
	}
	defer sys.Close()
	defer DrainAll(sys)
	var order []string // acceptance order = creation order
	running := map[string]bool{}
	total := runnerPos + 1 + keep + extra
	for i := 0; i < total; i++ {
		id, cls := sys.Schedule(0, "p", nil, "u")
		if cls != "ok" {
			res.Inconclusive = "schedule: " + cls
			return res
		}
		order = append(order, id)
		stays := i == runnerPos || (midRunner && i == runnerPos+2)
		if stays {
			running[id] = true
		}
		if _, err := sys.Quiesce(core.QuiesceOpts{Watchdog: 20 * time.Second}); err != nil {
			res.Inconclusive = err.Error()
			return res
		}
		if !stays {
			sys.Release(id, "t", core.Outcome{Kind: core.OutOK})
			if _, err := sys.Quiesce(core.QuiesceOpts{Watchdog: 20 * time.Second}); err != nil {
				res.Inconclusive = err.Error()
				return res
			}
		}
		time.Sleep(2 * time.Millisecond) // distinct creation times also on a coarse clock
	}
	res.sit("C12", fmt.Sprintf("old job still running (position %d, second runner=%v) while %d newer jobs finished, retention_count %d", runnerPos, midRunner, total-len(running), keep))
	for s := 0; s < 1+int(seed/24)%3; s++ {
		sys.Save(0)
		v := sys.Snapshot(-1)
		res.Evaluations["C12"]++
		var finishedKept []int
		for i, id := range order {
			j := v.ByID(id)
			if running[id] {
				if j == nil {
					find("C12:unfinished-job-removed", "job %d of the pipeline is still running and was removed by the save", i)
				}
				continue
			}
			if j != nil {
				finishedKept = append(finishedKept, i)
			}
		}
		if len(finishedKept) > keep {
			find("C12:more-finished-jobs-than-retention-count", "pipeline p (retention_count %d): %d finished jobs remain after the save while an older job (position %d) is still running", keep, len(finishedKept), runnerPos)
		}
		// the kept finished jobs are the newest finished ones
		nFinished := 0
		for _, id := range order {
			if !running[id] {
				nFinished++
			}
		}
		rank := 0
		for i := len(order) - 1; i >= 0 && rank < len(finishedKept); i-- {
			if running[order[i]] {
				continue
			}
			if v.ByID(order[i]) == nil {
				find("C12:newer-finished-job-removed-while-older-kept", "finished job %d was removed by the save while an older finished job is kept (kept positions %v)", i, finishedKept)
				break
			}
			rank++
		}
		if saves := st.Saves(); len(saves) > 0 {
			last := saves[len(saves)-1]
			if len(last.Jobs) != len(v.Jobs) {
				find("C12:store-differs-from-api", "the store holds %d jobs, the API reports %d after the save", len(last.Jobs), len(v.Jobs))
			}
		}
	}
	res.Events = sys.Log.Len()
	return res
}
