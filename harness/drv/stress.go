package drv

import (
	"context"
	"fmt"
	"math/rand"
	"net/url"
	"sort"
	"sync"
	"sync/atomic"
	"time"

	"github.com/Flowpack/prunner"
	"github.com/Flowpack/prunner/taskctl"
	"github.com/taskctl/taskctl/pkg/variables"

	"pxverif/core"
	"pxverif/gen"
)

// StressOpts configures one concurrent stress history
type StressOpts struct {
	Schedulers   int
	Cancelers    int
	Readers      int
	Reloader     bool
	Saver        bool
	OpsPerClient int
	RealDelay    time.Duration // start delay of pipeline p1 (0 = none)
	Retention    int
	Shutdown     int // 0 none, 1 graceful, 2 forced
	Parker       bool
	HTTPReaders  bool
	FailProb     float64
	RealRunner   bool // use the real taskctl.TaskRunner (scripts are shell builtins)
	BadVars      bool // every 8th schedule request carries the reserved variable name (the job cannot be started)
	Watchdog     time.Duration
	MaxPauseUs   int
}

// StressResult adds the overlap matrix to the history result
type StressResult struct {
	*HistResult
	Overlap map[string]int // "opA|opB" -> number of times A was in flight while B was in flight
	Final   core.View
	Log     []core.Event
	Specs   []gen.PipeSpec
}

// RunStress runs concurrent clients against one runner; verdicts come from offline checkers over the event log
func RunStress(seed int64, o StressOpts) *StressResult {
	r := rand.New(rand.NewSource(seed))
	res := &HistResult{Seed: seed, Situations: map[string]map[string]struct{}{}, Evaluations: map[string]int{}}
	out := &StressResult{HistResult: res, Overlap: map[string]int{}}
	if o.Watchdog == 0 {
		o.Watchdog = 60 * time.Second
	}
	if o.MaxPauseUs == 0 {
		o.MaxPauseUs = 200
	}
	// two pipelines; p1 optionally with a real start delay
	mk := func(name string, conc, limit int, replace bool, delay time.Duration) gen.PipeSpec {
		cls := gen.ConfigClass{Concurrency: conc, Limit: limit, Replace: replace}
		sp := gen.RandPipe(r, name, gen.PipeOpts{MaxTasks: 3, AllowFailureProb: 0.2, ForceClass: &cls, EnvProb: 0.5})
		sp.Def.StartDelay = delay
		sp.Def.RetentionCount = o.Retention
		return sp
	}
	specsA := []gen.PipeSpec{mk("p0", 1+r.Intn(3), []int{-1, 1, 2, 3}[r.Intn(4)], r.Intn(3) == 0, 0), mk("p1", 1+r.Intn(2), []int{-1, 2}[r.Intn(2)], r.Intn(2) == 0, o.RealDelay)}
	// the reloader swaps between A and a variant B that differs in limits only (tasks unchanged)
	specsB := []gen.PipeSpec{gen.CopySpec(specsA[0]), gen.CopySpec(specsA[1])}
	specsB[0].Def.Concurrency = 1 + specsA[0].Def.Concurrency%3
	specsB[1].Def.Concurrency = 1 + specsA[1].Def.Concurrency%2
	// ... and in every script line, so that the offline checker can tell which definition a job was built from
	for i := range specsB {
		for n, t := range specsB[i].Def.Tasks {
			t.Script = append([]string{"echo variant-B " + n}, t.Script...)
			specsB[i].Def.Tasks[n] = t
		}
		if specsB[i].Def.Env == nil {
			specsB[i].Def.Env = map[string]string{}
		}
		specsB[i].Def.Env["VARIANT"] = "B"
	}
	out.Specs = specsA
	maxConc := map[string]int{}
	for i := range specsA {
		maxConc[specsA[i].Name] = specsA[i].Def.Concurrency
		if o.Reloader && specsB[i].Def.Concurrency > maxConc[specsA[i].Name] {
			maxConc[specsA[i].Name] = specsB[i].Def.Concurrency
		}
	}
	st := &core.RecStore{}
	outStore := core.NewMemOutputStore()
	// the definitions object is the caller's: the embedding code keeps reading it, and a second runner is built from
	// the SAME object (as an application with two runners would do). Reloading the first runner must touch neither.
	sharedDefs := gen.BuildDefs(specsA)
	sys, err := core.NewSys(sharedDefs, st, outStore)
	if err != nil {
		res.Inconclusive = err.Error()
		return out
	}
	defer sys.Close()
	var sibling *core.Sys
	if o.Reloader {
		if sibling, err = core.NewSys(sharedDefs, &core.RecStore{}, core.NewMemOutputStore()); err == nil {
			defer sibling.Close()
		} else {
			sibling = nil
		}
	}
	if o.RealRunner {
		sys.MakeRunner = func(j *prunner.PipelineJob) taskctl.Runner {
			tr, _ := taskctl.NewTaskRunner(outStore, taskctl.WithEnv(variables.FromMap(j.Env)), taskctl.WithKillTimeout(50*time.Millisecond))
			tr.Stdout, tr.Stderr = nil, nil
			return tr
		}
	}
	var api *core.API
	if o.HTTPReaders {
		api = core.NewAPI(sys.R, outStore, "0123456789abcdef-harness-secret", false)
	}
	fr := rand.New(rand.NewSource(seed ^ 0x5eed))
	var frMu sync.Mutex
	sys.Gates.Auto = func(job, pipeline, taskName string) (core.Outcome, time.Duration, bool) {
		frMu.Lock()
		defer frMu.Unlock()
		d := time.Duration(fr.Intn(300)) * time.Microsecond
		x := fr.Float64()
		switch {
		case x < o.FailProb*0.7:
			return core.Outcome{Kind: core.OutExitFail, Code: 3}, d, true
		case x < o.FailProb:
			return core.Outcome{Kind: core.OutErrFail}, d, true
		}
		return core.Outcome{Kind: core.OutOK}, d, true
	}
	sys.Gates.SlowAuto = func(job, taskName string) time.Duration {
		frMu.Lock()
		defer frMu.Unlock()
		if fr.Intn(4) == 0 {
			return time.Duration(fr.Intn(400)) * time.Microsecond
		}
		return 0
	}
	var idsMu sync.Mutex
	var ids []string
	recs := map[string]*JobRec{}
	badJobs := map[string]bool{}
	addID := func(id, pipe string, spec gen.PipeSpec) {
		idsMu.Lock()
		ids = append(ids, id)
		recs[id] = &JobRec{Ord: len(ids), ID: id, Pipe: pipe, Spec: spec}
		idsMu.Unlock()
	}
	randID := func(rr *rand.Rand) string {
		idsMu.Lock()
		defer idsMu.Unlock()
		if len(ids) == 0 {
			return "ffffffff-ffff-4fff-bfff-ffffffffffff"
		}
		// bias to recent jobs
		n := len(ids)
		k := n - 1 - rr.Intn(min(n, 6))
		return ids[k]
	}
	var curSpecs atomic.Value
	curSpecs.Store(specsA)
	pause := func(rr *rand.Rand) {
		if us := rr.Intn(o.MaxPauseUs); us > 0 {
			time.Sleep(time.Duration(us) * time.Microsecond)
		}
	}
	var wg sync.WaitGroup
	client := 0
	spawn := func(f func(c int, rr *rand.Rand)) {
		client++
		c := client
		rr := rand.New(rand.NewSource(seed*131 + int64(c)))
		wg.Add(1)
		go func() { defer wg.Done(); f(c, rr) }()
	}
	var shuttingDown atomic.Bool
	for i := 0; i < o.Schedulers; i++ {
		spawn(func(c int, rr *rand.Rand) {
			for k := 0; k < o.OpsPerClient; k++ {
				specs := curSpecs.Load().([]gen.PipeSpec)
				sp := specs[rr.Intn(len(specs))]
				vars := map[string]interface{}{"k": float64(k), "c": float64(c)}
				bad := o.BadVars && rr.Intn(8) == 0
				if bad {
					// (such a job is accepted, and refused when it is about to start - possibly much later, from the wait list,
					// while clients read it)
					vars["__jobID"] = "client-supplied"
					vars["nested"] = map[string]interface{}{"a": []interface{}{1.0, "x"}}
				}
				var id, cls string
				if api != nil && rr.Intn(3) == 0 {
					id, cls = sys.ScheduleHTTP(c, api, sp.Name, vars)
				} else {
					id, cls = sys.Schedule(c, sp.Name, vars, fmt.Sprintf("u%d", c))
				}
				if cls == "ok" {
					addID(id, sp.Name, sp)
					if bad {
						idsMu.Lock()
						badJobs[id] = true
						idsMu.Unlock()
					}
				}
				pause(rr)
			}
		})
	}
	for i := 0; i < o.Cancelers; i++ {
		spawn(func(c int, rr *rand.Rand) {
			for k := 0; k < o.OpsPerClient; k++ {
				if api != nil && rr.Intn(3) == 0 {
					id := randID(rr)
					cs := sys.Log.Add(core.Event{Kind: core.KCall, Client: c, Op: "cancel", Job: id, Arg: "http", CallID: int64(2e9) + int64(c)*100000 + int64(k)})
					_ = cs
					code := api.CancelHTTP(id)
					sys.Log.Add(core.Event{Kind: core.KRet, Client: c, Op: "cancel", Job: id, Res: map[int]string{200: "ok", 404: "not-found", 500: "already-completed"}[code], CallID: int64(2e9) + int64(c)*100000 + int64(k)})
				} else {
					sys.Cancel(c, randID(rr))
				}
				pause(rr)
				pause(rr)
			}
		})
	}
	var snapMu sync.Mutex
	var snaps []core.View
	for i := 0; i < o.Readers; i++ {
		spawn(func(c int, rr *rand.Rand) {
			for k := 0; k < o.OpsPerClient; k++ {
				switch rr.Intn(4) {
				case 0:
					v := sys.Snapshot(c)
					snapMu.Lock()
					if len(snaps) < 4000 {
						snaps = append(snaps, v)
					}
					snapMu.Unlock()
				case 1:
					sys.ListPipelines(c)
				case 2:
					sys.ReadJobRec(c, randID(rr))
				case 3:
					if api != nil && rr.Intn(2) == 0 {
						id := randID(rr)
						_, _, _ = api.JobDetail(id)
						if j, ok := sys.ReadJob(id); ok && len(j.Tasks) > 0 {
							_, _ = api.Do("GET", "/job/logs", url.Values{"id": {id}, "task": {j.Tasks[0].Name}}, nil)
						}
					} else if api != nil {
						cc := sys.Log.Add(core.Event{Kind: core.KCall, Client: c, Op: "http-list", CallID: int64(1e9) + int64(c)*100000 + int64(k)})
						_ = cc
						_, _, _ = api.PipelinesJobs()
						sys.Log.Add(core.Event{Kind: core.KRet, Client: c, Op: "http-list", CallID: int64(1e9) + int64(c)*100000 + int64(k)})
					} else {
						sys.Snapshot(c)
					}
				}
				pause(rr)
			}
		})
	}
	if o.Reloader && sibling != nil {
		// the sibling runner lists its pipelines and the caller reads its own definitions while the first runner reloads
		spawn(func(c int, rr *rand.Rand) {
			n := 0
			for k := 0; k < o.OpsPerClient; k++ {
				for _, pi := range sibling.ListPipelines(-1) {
					n += len(pi.Pipeline)
				}
				for name, pd := range sharedDefs.Pipelines {
					n += len(name) + pd.Concurrency + len(pd.Tasks)
				}
				pause(rr)
			}
			_ = n
		})
	}
	if o.Reloader {
		spawn(func(c int, rr *rand.Rand) {
			for k := 0; k < o.OpsPerClient/2; k++ {
				next := specsA
				if k%2 == 0 {
					next = specsB
				}
				curSpecs.Store(next)
				sys.Replace(c, gen.BuildDefs(next), fmt.Sprintf("variant %d", k%2))
				pause(rr)
				pause(rr)
				pause(rr)
			}
		})
	}
	if o.Saver {
		spawn(func(c int, rr *rand.Rand) {
			for k := 0; k < o.OpsPerClient/2; k++ {
				if shuttingDown.Load() {
					return
				}
				sys.Save(c)
				pause(rr)
				pause(rr)
			}
		})
	}
	if o.Parker {
		var pmu sync.Mutex
		pr := rand.New(rand.NewSource(seed + 7))
		sys.SetParkAll(func(job string, count int64, stt map[string]int32) bool {
			pmu.Lock()
			defer pmu.Unlock()
			return pr.Intn(40) == 0
		})
		stopPark := make(chan struct{})
		var pw sync.WaitGroup
		pw.Add(1)
		go func() {
			defer pw.Done()
			for {
				select {
				case <-stopPark:
					return
				default:
				}
				for _, j := range sys.ParkedJobs() {
					sys.Unpark(j)
				}
				time.Sleep(300 * time.Microsecond)
			}
		}()
		defer func() { sys.SetParkAll(nil); close(stopPark); pw.Wait() }()
	}
	var shutdownErr error
	shutdownDone := make(chan struct{})
	if o.Shutdown > 0 {
		go func() {
			defer close(shutdownDone)
			// overlap the traffic: begin when roughly two thirds of the work is done
			time.Sleep(time.Duration(o.OpsPerClient*o.MaxPauseUs/3) * time.Microsecond)
			shuttingDown.Store(true)
			ctx := context.Background()
			var cancel context.CancelFunc
			if o.Shutdown == 2 {
				ctx, cancel = context.WithTimeout(ctx, time.Duration(1+r.Intn(3))*time.Millisecond)
				defer cancel()
			}
			shutdownErr = sys.Shutdown(99, ctx, map[int]string{1: "graceful", 2: "forced"}[o.Shutdown])
		}()
	} else {
		close(shutdownDone)
	}
	done := make(chan struct{})
	go func() { wg.Wait(); close(done) }()
	select {
	case <-done:
	case <-time.After(o.Watchdog):
		res.Inconclusive = "watchdog: clients did not finish"
		return out
	}
	select {
	case <-shutdownDone:
	case <-time.After(o.Watchdog):
		res.Inconclusive = "watchdog: shutdown did not return"
		return out
	}
	_ = shutdownErr
	sys.SetParkAll(nil)
	for _, j := range sys.ParkedJobs() {
		sys.Unpark(j)
	}
	// drain: everything finishes by itself (auto gates); wait for timers and jobs
	deadline := time.Now().Add(o.Watchdog)
	for {
		for _, j := range sys.ParkedJobs() {
			sys.Unpark(j)
		}
		v := sys.Snapshot(-1)
		busy := false
		for i := range v.Jobs {
			j := &v.Jobs[i]
			if j.Executing() {
				busy = true
			}
			if j.Waiting() && o.Shutdown == 0 {
				busy = true
			}
		}
		if !busy {
			break
		}
		if time.Now().After(deadline) {
			// jobs still waiting: decided by the oracles below (stranded) unless something still executes
			break
		}
		time.Sleep(300 * time.Microsecond)
	}
	// (a stop that was initiated just before its job ended may not have reached the runner yet: give it its chance before
	// the log is read, so that "not yet" is not taken for "never")
	sys.WaitCancelsDelivered(5 * time.Second)
	final := sys.Snapshot(-1)
	evs := sys.Log.Events()
	out.Final, out.Log = final, evs
	res.Events = len(evs)
	res.Jobs = len(ids)

	// ---- offline checkers ----
	in := OfflineInput{Events: evs, Final: final, Concurrency: maxConc, Deps: map[string]map[string][]string{}, Allow: map[string]map[string]bool{}, Unstartable: map[string]bool{}, DefinitionChanged: map[string]bool{}}
	if o.Reloader {
		in.DefinitionChanged["p0"], in.DefinitionChanged["p1"] = true, true
	}
	idsMu.Lock()
	for id := range badJobs {
		in.Unstartable[id] = true
	}
	for id, rec := range recs {
		d := map[string][]string{}
		a := map[string]bool{}
		for n, t := range rec.Spec.Def.Tasks {
			d[n] = t.DependsOn
			a[n] = t.AllowFailure
		}
		in.Deps[id], in.Allow[id] = d, a
	}
	names := map[string]string{}
	for id, rec := range recs {
		names[id] = fmt.Sprintf("J%d", rec.Ord)
	}
	idsMu.Unlock()
	in.Name = func(id string) string {
		if n, ok := names[id]; ok {
			return n
		}
		return id
	}
	res.Findings = append(res.Findings, CheckOffline(in, res.sit)...)
	// C16 under concurrency: a job uses the definition that was in force while its schedule request was in flight
	if o.Reloader && !o.RealRunner {
		res.Findings = append(res.Findings, checkDefinitionVersions(evs, specsA, specsB, in.Name, res.sit)...)
	}
	// snapshot invariants
	for _, v := range snaps {
		exec := map[string]int{}
		wait := map[string]int{}
		for i := range v.Jobs {
			if v.Jobs[i].Executing() {
				exec[v.Jobs[i].Pipeline]++
			}
			if v.Jobs[i].Waiting() {
				wait[v.Jobs[i].Pipeline]++
			}
		}
		for p, n := range exec {
			res.sit("C01", fmt.Sprintf("stress snapshot %d executing of %d", n, maxConc[p]))
			if n > maxConc[p] {
				res.Findings = append(res.Findings, Finding{Props: []string{"C01", "C13"}, Sig: "C01:snapshot-more-executing-than-concurrency", Detail: fmt.Sprintf("an atomic snapshot shows %d executing jobs of %s, concurrency never exceeded %d", n, p, maxConc[p]), Step: -1})
			}
		}
		for _, sp := range specsA {
			if sp.Def.QueueLimit != nil && wait[sp.Name] > *sp.Def.QueueLimit {
				res.Findings = append(res.Findings, Finding{Props: []string{"C05", "C13"}, Sig: "C05:snapshot-more-waiting-than-queue-limit", Detail: fmt.Sprintf("an atomic snapshot shows %d waiting jobs of %s, queue_limit %d", wait[sp.Name], sp.Name, *sp.Def.QueueLimit), Step: -1})
			}
			if sp.Def.QueueStrategy == 1 && wait[sp.Name] > 1 {
				res.Findings = append(res.Findings, Finding{Props: []string{"C05", "C13"}, Sig: "C05:snapshot-more-than-one-waiting-under-replace", Detail: fmt.Sprintf("an atomic snapshot shows %d waiting jobs of %s under replace", wait[sp.Name], sp.Name), Step: -1})
			}
		}
	}
	// after drain everything accepted is terminal (no shutdown: all ran or were canceled)
	for i := range final.Jobs {
		j := &final.Jobs[i]
		if !j.Terminal() && res.Inconclusive == "" {
			props := []string{"C03", "C13"}
			if o.Shutdown > 0 {
				props = append(props, "C11")
			}
			res.Findings = append(res.Findings, Finding{Props: props, Sig: "C03:job-not-terminal-after-stress-drain", Detail: fmt.Sprintf("%s of %s is neither completed nor canceled after the drain (started=%v)", in.Name(j.ID), j.Pipeline, j.Start != nil), Step: -1})
		}
	}
	// ---- overlap matrix from call/return events ----
	type iv struct {
		op   string
		a, b int64
	}
	var ivs []iv
	open := map[[2]int64]core.Event{}
	for _, e := range evs {
		if e.Kind == core.KCall {
			open[[2]int64{int64(e.Client), e.CallID}] = e
		} else if e.Kind == core.KRet {
			if c, ok := open[[2]int64{int64(e.Client), e.CallID}]; ok {
				ivs = append(ivs, iv{c.Op, c.Seq, e.Seq})
			}
		}
	}
	sort.Slice(ivs, func(a, b int) bool { return ivs[a].a < ivs[b].a })
	for i := range ivs {
		for k := i + 1; k < len(ivs) && ivs[k].a < ivs[i].b; k++ {
			a, b := ivs[i].op, ivs[k].op
			if a > b {
				a, b = b, a
			}
			out.Overlap[a+"|"+b]++
		}
	}
	if len(res.Findings) > 0 {
		var j []string
		for _, e := range evs {
			if e.Kind == core.KCall || e.Kind == core.KRet {
				continue
			}
			j = append(j, fmt.Sprintf("#%d %s %s %s %s %s", e.Seq, e.Kind, e.Pipe, in.Name(e.Job), e.Task, e.Res))
		}
		if len(j) > 300 {
			j = j[len(j)-300:]
		}
		res.Sample = map[string]any{"seed": seed, "opts": fmt.Sprintf("%+v", o), "runner_events_tail": j}
	}
	return out
}

// checkDefinitionVersions: the reloader alternates between variant A (initial) and B; the variant in force changes at some
// instant inside each reload call. A job accepted by a schedule request [c,r] must be built from a variant that was
// possibly in force during [c,r]: its commands and pipeline env (as seen by the monitored runner) tell which one it was.
func checkDefinitionVersions(evs []core.Event, specsA, specsB []gen.PipeSpec, name func(string) string, sit func(prop, s string)) []Finding {
	type change struct {
		call, ret int64
		to        string
	}
	var changes []change
	open := map[int64]core.Event{}
	type sched struct {
		call, ret int64
		job, pipe string
	}
	var scheds []sched
	for _, e := range evs {
		if e.Kind == core.KCall && (e.Op == "reload" || e.Op == "schedule") {
			open[int64(e.Client)<<32|e.CallID] = e
		}
		if e.Kind == core.KRet {
			c, ok := open[int64(e.Client)<<32|e.CallID]
			if !ok {
				continue
			}
			if e.Op == "reload" {
				to := "A"
				if c.Arg == "variant 0" {
					to = "B"
				}
				changes = append(changes, change{c.Seq, e.Seq, to})
			} else if e.Op == "schedule" && e.Res == "ok" {
				scheds = append(scheds, sched{c.Seq, e.Seq, e.Job, e.Pipe})
			}
		}
	}
	scriptOf := func(specs []gen.PipeSpec, pipe, taskName string) []string {
		for _, sp := range specs {
			if sp.Name == pipe {
				return sp.Def.Tasks[taskName].Script
			}
		}
		return nil
	}
	possible := func(c, r int64) map[string]bool {
		// version before the first change is A; a change takes effect somewhere inside its call
		cur := "A"
		out := map[string]bool{}
		for _, ch := range changes {
			if ch.ret < c {
				cur = ch.to
				continue
			}
			if ch.call > r {
				break
			}
			// overlaps the schedule request: both the version before and after are possible
			out[cur] = true
			out[ch.to] = true
			cur = ch.to
		}
		if len(out) == 0 {
			out[cur] = true
		}
		return out
	}
	byJob := map[string]sched{}
	for _, sc := range scheds {
		byJob[sc.job] = sc
	}
	var out []Finding
	for _, e := range evs {
		if e.Kind != core.KRunEnter {
			continue
		}
		sc, ok := byJob[e.Job]
		if !ok {
			continue
		}
		info, _ := e.Data.(core.RunInfo)
		var is string
		switch {
		case eqStr(info.Commands, scriptOf(specsA, sc.pipe, e.Task)):
			is = "A"
		case eqStr(info.Commands, scriptOf(specsB, sc.pipe, e.Task)):
			is = "B"
		default:
			is = "?"
		}
		envIs := "A"
		if info.RunnerEnv["VARIANT"] == "B" {
			envIs = "B"
		}
		pos := possible(sc.call, sc.ret)
		sit("C16", fmt.Sprintf("concurrent reload: %d versions possible", len(pos)))
		sit("C13", fmt.Sprintf("concurrent reload: %d versions possible", len(pos)))
		if !pos[is] || is != envIs {
			out = append(out, Finding{Props: []string{"C16", "C13"}, Sig: "C16:job-built-from-a-definition-not-in-force-at-acceptance", Detail: fmt.Sprintf("%s (pipeline %s) was accepted by a schedule request in flight during #%d..#%d, when definition variant(s) %v were in force, but its task %s ran the commands of variant %s with the pipeline env of variant %s", name(e.Job), sc.pipe, sc.call, sc.ret, keysOf(pos), e.Task, is, envIs), Step: -1})
		}
	}
	return out
}

func keysOf(m map[string]bool) []string {
	var out []string
	for k := range m {
		out = append(out, k)
	}
	sort.Strings(out)
	return out
}
