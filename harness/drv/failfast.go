package drv

import (
	"fmt"
	"time"

	"github.com/Flowpack/prunner/definition"

	"pxverif/core"
)

// RunFailFastInGapCase (C08): under fail-fast the first failure ends the job - also when, at the instant the failure
// is handled, no other task is running and tasks that are independent of the failure have not been launched yet. The
// scheduler loop is parked (hook H1) right after task "first" ended and before its dependent "second" is launched; then
// task "fail" (independent of both) fails. With the loop released again nothing that had not begun may begin, and the job
// ends with the error. (With continue_running_tasks_after_failure the same history must run "second": control.)
func RunFailFastInGapCase(seed int64) *HistResult {
	res := &HistResult{Seed: seed, Situations: map[string]map[string]struct{}{}, Evaluations: map[string]int{}}
	find := func(sig, format string, args ...any) {
		res.Findings = append(res.Findings, Finding{Props: []string{"C08"}, Sig: sig, Detail: fmt.Sprintf(format, args...), Step: -1})
	}
	cont := seed%3 == 2
	kind := []core.OutcomeKind{core.OutExitFail, core.OutErrFail}[int(seed/3)%2]
	wide := (seed/6)%2 == 1
	tasks := map[string]definition.TaskDef{
		"fail":   {Script: []string{"false"}},
		"first":  {Script: []string{"true"}},
		"second": {Script: []string{"true"}, DependsOn: []string{"first"}},
	}
	later := []string{"second"}
	if wide {
		tasks["third"] = definition.TaskDef{Script: []string{"true"}, DependsOn: []string{"first"}}
		later = append(later, "third")
	}
	def := definition.PipelineDef{Concurrency: 1, ContinueRunningTasksAfterFailure: cont, SourcePath: "gen", Tasks: tasks}
	sys, err := core.NewSys(&definition.PipelinesDef{Pipelines: map[string]definition.PipelineDef{"p": def}}, &core.RecStore{}, core.NewMemOutputStore())
	if err != nil {
		res.Inconclusive = err.Error()
		return res
	}
	defer sys.Close()
	defer DrainAll(sys)
	job, cls := sys.Schedule(0, "p", nil, "u")
	if cls != "ok" {
		res.Inconclusive = "schedule: " + cls
		return res
	}
	// park at the first iteration top that sees "first" done (3) while "second" is still waiting (0)
	sys.ParkWhen(job, func(count int64, st map[string]int32) bool { return st["first"] == 3 && st["second"] == 0 })
	if _, err := sys.Quiesce(core.QuiesceOpts{Watchdog: 20 * time.Second}); err != nil {
		res.Inconclusive = err.Error()
		return res
	}
	if !sys.Gates.AtGate(job, "fail") || !sys.Gates.AtGate(job, "first") {
		res.Inconclusive = "the two independent tasks are not both inside the runner"
		return res
	}
	sys.Release(job, "first", core.Outcome{Kind: core.OutOK})
	parked := false
	for i := 0; i < 10000 && !parked; i++ {
		parked, _ = sys.Parked(job)
		if !parked {
			time.Sleep(500 * time.Microsecond)
		}
	}
	if !parked {
		res.Inconclusive = "the loop did not park between the end of the first task and the launch of its dependent"
		return res
	}
	sys.Release(job, "fail", core.Outcome{Kind: kind, Code: 1})
	// the failure has been handled when the stage of the task is reported failed
	handled := false
	for i := 0; i < 10000 && !handled; i++ {
		if j, ok := sys.ReadJob(job); ok {
			if t := j.Task("fail"); t != nil && t.Status == "error" {
				handled = true
			}
		}
		if !handled {
			time.Sleep(500 * time.Microsecond)
		}
	}
	if !handled {
		res.Inconclusive = "the failed task was not reported failed within 5 s"
		return res
	}
	sys.WaitCancelsDelivered(5 * time.Second)
	sys.ParkWhen(job, nil)
	sys.Unpark(job)
	if !DrainAll(sys) {
		res.Inconclusive = "watchdog: drain"
		return res
	}
	began := map[string]bool{}
	for _, e := range sys.Log.Events() {
		if e.Kind == core.KRunEnter && e.Job == job {
			began[e.Task] = true
		}
	}
	j, _ := sys.ReadJob(job)
	res.sit("C08", fmt.Sprintf("a task fails (%v) while nothing else runs and %d independent tasks have not been launched yet (loop parked); continue=%v", kind, len(later), cont))
	res.Evaluations["C08"]++
	res.journalf("continue=%v kind=%v: began=%v job completed=%v canceled=%v error=%q", cont, kind, began, j.Completed, j.Canceled, j.LastError)
	for _, n := range later {
		switch {
		case !cont && began[n]:
			find("C08:task-launched-after-the-failure-under-fail-fast", "fail-fast pipeline: task %s was launched after task \"fail\" had failed (%v) - at that instant no other task was running and %s had not been launched yet, the job has to end with the first failure all the same", n, kind, n)
		case cont && !began[n]:
			find("C08:continue-mode-did-not-run-independent-task", "continue_running_tasks_after_failure: task %s is independent of the failed task but never ran", n)
		}
	}
	if !j.Completed || !j.HasError {
		find("C08:verdict-error-missing", "a task failed (%v, not allowed): the job is reported completed=%v canceled=%v error=%q", kind, j.Completed, j.Canceled, j.LastError)
	}
	return res
}
