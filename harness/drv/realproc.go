package drv

import (
	"bytes"
	"crypto/sha256"
	"encoding/hex"
	"encoding/json"
	"fmt"
	"io"
	"math/rand"
	"net/url"
	"os"
	"path/filepath"
	"sort"
	"strings"
	"sync"
	"time"

	"github.com/Flowpack/prunner"
	"github.com/Flowpack/prunner/definition"
	"github.com/Flowpack/prunner/taskctl"
	"github.com/taskctl/taskctl/pkg/variables"

	"pxverif/core"
	"pxverif/gen"
)

// realSys builds a runner with the REAL task runner, executor and file output store, wired exactly like app.go does
func realSys(specs []gen.PipeSpec, workDir string, killTimeout time.Duration) (*core.Sys, *taskctl.FileOutputStore, string, error) {
	if killTimeout > 0 {
		return realSysKT(specs, workDir, &killTimeout)
	}
	return realSysKT(specs, workDir, nil)
}

// realSysKT: kt == nil leaves the task runner's default kill timeout, otherwise *kt is configured as it is (0 and
// negative values mean "no grace period")
func realSysKT(specs []gen.PipeSpec, workDir string, kt *time.Duration) (*core.Sys, *taskctl.FileOutputStore, string, error) {
	logRoot := filepath.Join(workDir, "logs")
	out, err := taskctl.NewOutputStore(logRoot)
	if err != nil {
		return nil, nil, "", err
	}
	sys, err := core.NewSys(gen.BuildDefs(specs), nil, out)
	if err != nil {
		return nil, nil, "", err
	}
	sys.MakeRunner = func(j *prunner.PipelineJob) taskctl.Runner {
		opts := []taskctl.Opts{taskctl.WithEnv(variables.FromMap(j.Env))}
		if kt != nil {
			opts = append(opts, taskctl.WithKillTimeout(*kt))
		}
		tr, _ := taskctl.NewTaskRunner(out, opts...)
		tr.Stdout = io.Discard
		tr.Stderr = io.Discard
		return tr
	}
	return sys, out, logRoot, nil
}

func shQuote(s string) string { return "'" + strings.ReplaceAll(s, "'", `'\''`) + "'" }

func waitJobs(sys *core.Sys, ids []string, watchdog time.Duration) bool {
	deadline := time.Now().Add(watchdog)
	for {
		all := true
		for _, id := range ids {
			j, ok := sys.ReadJob(id)
			if ok && !(j.Completed || (j.Canceled && j.Start == nil)) {
				all = false
				break
			}
		}
		if all {
			return true
		}
		if time.Now().After(deadline) {
			return false
		}
		time.Sleep(500 * time.Microsecond)
	}
}

func readStore(out *taskctl.FileOutputStore, job, taskName, stream string) ([]byte, error) {
	rd, err := out.Reader(job, taskName, stream)
	if err != nil {
		return nil, err
	}
	defer rd.Close()
	return io.ReadAll(rd)
}

func firstDiff(a, b []byte) int {
	n := len(a)
	if len(b) < n {
		n = len(b)
	}
	for i := 0; i < n; i++ {
		if a[i] != b[i] {
			return i
		}
	}
	if len(a) != len(b) {
		return n
	}
	return -1
}

func sha(b []byte) string {
	s := sha256.Sum256(b)
	return hex.EncodeToString(s[:6])
}

var hostileTaskNames = []string{"plain", "with space", "dots.and.more", "ünï-cödé-任务", "a", "a-stdout", "a-stdout.log", "../x", "sub/dir", "..", "%2F", "a%2Fb", "a/b", "-dash", "tab\tname", "quote'\"q", "plain ", " lead", "tab\t"}

// ---------------------------------------------------------------------------------------------------------------
// C19: task output captured completely and attributed correctly
// ---------------------------------------------------------------------------------------------------------------

// OutputOpts bounds one C19 case
type OutputOpts struct {
	Exe      string
	WorkDir  string
	MaxBytes int // per stream and command
	Big      bool
}

type outTask struct {
	name   string
	plans  []EmitPlan
	allow  bool
	slow   bool
	reopen int   // index of the command after which a command re-opens /dev/stdout and /dev/stderr by path (-1: none)
	merge  []int // per command: 0 separate streams, 1 `2>&1`, 2 `1>&2` (one stream carries both, in the order written)
	late   bool  // last but one line: a command that exits at once while a child that inherited the streams writes 0.6 s later
	sig    int   // last line: a command that is killed by this signal (0: none) - a failure like a non-zero exit status
}

// RunOutputCase runs real tasks that write known byte streams and compares what the log store and the log API return
func RunOutputCase(seed int64, o OutputOpts) *HistResult {
	r := rand.New(rand.NewSource(seed))
	res := &HistResult{Seed: seed, Situations: map[string]map[string]struct{}{}, Evaluations: map[string]int{}}
	find := func(sig, format string, args ...any) {
		res.Findings = append(res.Findings, Finding{Props: []string{"C19"}, Sig: sig, Detail: fmt.Sprintf(format, args...), Step: -1})
	}
	dir, err := os.MkdirTemp(o.WorkDir, "out-")
	if err != nil {
		res.Inconclusive = err.Error()
		return res
	}
	defer os.RemoveAll(dir)
	retention := seed%5 == 2
	sizes := []int{0, 1, 2, 100, 4095, 4096, 65535, 65536, 65537, 200000}
	if o.Big {
		sizes = append(sizes, 1<<20, 1<<20+1, 8<<20)
	}
	nPipes := 1 + r.Intn(2)
	var specs []gen.PipeSpec
	tasksOf := map[string][]outTask{}
	cancelTask := ""
	for p := 0; p < nPipes; p++ {
		pname := fmt.Sprintf("p%d", p)
		def := definition.PipelineDef{Concurrency: 1 + r.Intn(3), Tasks: map[string]definition.TaskDef{}, ContinueRunningTasksAfterFailure: true, SourcePath: "gen"}
		if retention {
			def.Concurrency = 3
			def.RetentionCount = 1
		}
		nT := 1 + r.Intn(5)
		perm := r.Perm(len(hostileTaskNames))
		var names []string
		var ots []outTask
		// sometimes two very long names that differ only near their end (file names are derived from task names)
		longPair := r.Intn(4) == 0
		if longPair {
			nT += 2
		}
		for t := 0; t < nT; t++ {
			var name string
			switch {
			case longPair && t == nT-2:
				name = strings.Repeat("long-task-name-", 14) + "ending-A"
			case longPair && t == nT-1:
				name = strings.Repeat("long-task-name-", 14) + "ending-BB"
			default:
				name = hostileTaskNames[perm[t]]
			}
			names = append(names, name)
			ot := outTask{name: name, allow: r.Intn(4) == 0, reopen: -1}
			if r.Intn(3) == 0 {
				ot.reopen = 0
			}
			nCmd := 1 + r.Intn(4)
			var script []string
			for c := 0; c < nCmd; c++ {
				size := sizes[r.Intn(len(sizes))]
				if size > o.MaxBytes {
					size = o.MaxBytes
				}
				pl := EmitPlan{Seed: seed*31 + int64(p*1000+t*10+c), Task: fmt.Sprintf("p%dt%d", p, t), Cmd: c, Size: size, Lines: r.Intn(2) == 0, NoNL: r.Intn(3) == 0, MaxChunk: []int{64, 4096, 70000, 256 * 1024}[r.Intn(4)]}
				if r.Intn(9) == 0 && size > 10 {
					pl.ExitAt = 1 + r.Intn(4)
				}
				ot.plans = append(ot.plans, pl)
				a := pl.Args()
				a[2] = "{{.jobtag}}" // the job tag is a job variable rendered into the script
				mg := 0
				if r.Intn(4) == 0 {
					mg = 1 + r.Intn(2)
				}
				ot.merge = append(ot.merge, mg)
				script = append(script, shQuote(o.Exe)+" "+strings.Join(a, " ")+[]string{"", " 2>&1", " 1>&2"}[mg])
				if c == 0 && ot.reopen == 0 {
					// a child that opens its standard streams by path must append to the captured output like any other writer
					script = append(script, `sh -c 'printf "[PATH-%s]" {{.jobtag}} > /dev/stdout; printf "[PATHERR-%s]" {{.jobtag}} >> /dev/stderr'`)
				}
			}
			if r.Intn(9) == 0 {
				// output written by a descendant after the command itself has exited belongs to the task's output as well
				ot.late = true
				script = append(script, `sh -c '(sleep 0.6; printf "[LATE-%s]" {{.jobtag}}; printf "[LATEERR-%s]" {{.jobtag}} >&2) & printf "[EARLY-%s]" {{.jobtag}}'`)
			}
			if r.Intn(9) == 0 {
				ot.sig = []int{9, 15, 11}[r.Intn(3)]
				script = append(script, fmt.Sprintf(`sh -c 'kill -%d $$'`, ot.sig))
			}
			td := definition.TaskDef{Script: script, AllowFailure: ot.allow}
			if t > 0 && r.Intn(4) == 0 {
				td.DependsOn = []string{names[r.Intn(t)]}
			}
			def.Tasks[name] = td
			ots = append(ots, ot)
		}
		if retention {
			// a task that every job has; how slowly it writes is a job variable: the OLDEST job of each pipeline is still
			// writing when younger jobs have finished and a save retires them
			name := "steady"
			pl := EmitPlan{Seed: seed*13 + int64(p), Task: fmt.Sprintf("p%dsteady", p), Cmd: 0, Size: 1500, Lines: true, MaxChunk: 40}
			a := pl.Args()
			a[2] = "{{.jobtag}}"
			a[9] = "{{.slowms}}"
			def.Tasks[name] = definition.TaskDef{Script: []string{shQuote(o.Exe) + " " + strings.Join(a, " ")}}
			ots = append(ots, outTask{name: name, plans: []EmitPlan{pl}, reopen: -1})
		}
		if p == 0 && r.Intn(3) == 0 {
			// a slow task that will be canceled: what is stored must be a prefix of what it would have written
			name := "slow-canceled"
			pl := EmitPlan{Seed: seed * 7, Task: "slow", Cmd: 0, Size: 3000, Lines: true, SlowMs: 4, MaxChunk: 40}
			a := pl.Args()
			a[2] = "{{.jobtag}}"
			def.Tasks[name] = definition.TaskDef{Script: []string{shQuote(o.Exe) + " " + strings.Join(a, " ")}}
			ots = append(ots, outTask{name: name, plans: []EmitPlan{pl}, slow: true, reopen: -1})
			cancelTask = name
		}
		g := gen.Graph{Deps: map[string][]string{}}
		for n, t := range def.Tasks {
			g.Names = append(g.Names, n)
			g.Deps[n] = t.DependsOn
		}
		sort.Strings(g.Names)
		specs = append(specs, gen.PipeSpec{Name: pname, Def: def, Graph: g})
		tasksOf[pname] = ots
	}
	sys, out, logRoot, err := realSys(specs, dir, 300*time.Millisecond)
	if err != nil {
		res.Inconclusive = err.Error()
		return res
	}
	defer sys.Close()
	api := core.NewAPI(sys.R, out, "0123456789abcdef-harness-secret", false)
	type jobInfo struct{ id, pipe, tag string }
	var jobs []jobInfo
	nJobs := 1 + r.Intn(6)
	if retention {
		nJobs = 4 + r.Intn(3)
	}
	seenPipe := map[string]bool{}
	for i := 0; i < nJobs; i++ {
		sp := specs[r.Intn(len(specs))]
		tag := fmt.Sprintf("J%dx%d", i, r.Intn(100000))
		slowms := 0
		if retention && !seenPipe[sp.Name] {
			slowms = 12
		}
		seenPipe[sp.Name] = true
		id, cls := sys.Schedule(0, sp.Name, map[string]interface{}{"jobtag": tag, "slowms": slowms}, "u")
		if cls != "ok" {
			res.Inconclusive = "schedule: " + cls
			return res
		}
		jobs = append(jobs, jobInfo{id, sp.Name, tag})
	}
	var ids []string
	for _, j := range jobs {
		ids = append(ids, j.id)
	}
	if retention {
		// saves while the jobs write: they retire finished jobs (with their logs) - and must leave the logs of every job
		// that is still reported alone, in particular those of jobs that are running right now
		go func() {
			for i := 0; i < 40; i++ {
				time.Sleep(10 * time.Millisecond)
				sys.Save(1)
			}
		}()
		res.sit("C19", "saves with retention while the jobs write")
	}
	canceled := map[string]bool{}
	if cancelTask != "" {
		// cancel the first job of p0 while its slow task writes
		for _, j := range jobs {
			if j.pipe == "p0" {
				deadline := time.Now().Add(20 * time.Second)
				for time.Now().Before(deadline) {
					if b, err := readStore(out, j.id, cancelTask, "stdout"); err == nil && len(b) > 200 {
						break
					}
					time.Sleep(time.Millisecond)
				}
				sys.Cancel(0, j.id)
				canceled[j.id] = true
				break
			}
		}
	}
	if !waitJobs(sys, ids, 120*time.Second) {
		res.Inconclusive = "watchdog: jobs did not finish"
		return res
	}
	total := 0
	if retention {
		time.Sleep(450 * time.Millisecond) // (the saver goroutine has finished its saves by now; shaping only)
	}
	for _, j := range jobs {
		snap, reported := sys.ReadJob(j.id)
		if !reported && retention {
			continue // retired by a save: its logs may be gone
		}
		expectedFiles := map[string]bool{}
		for _, ot := range tasksOf[j.pipe] {
			ts := snap.Task(ot.name)
			if ts == nil {
				find("C19:task-missing-in-job", "task %q not in job", ot.name)
				continue
			}
			ran := ts.Start != nil
			var expOut, expErr []byte
			reachedEnd := true
			for ci, pl := range ot.plans {
				pl.Tag = j.tag
				so, se, exit := pl.Expected()
				if ci < len(ot.merge) && ot.merge[ci] != 0 {
					var all []byte
					all, exit = pl.ExpectedMerged()
					so, se = all, nil
					if ot.merge[ci] == 2 {
						so, se = nil, all
					}
					res.sit("C19", fmt.Sprintf("streams merged by redirection %d chunksize<=%d", ot.merge[ci], pl.MaxChunk))
				}
				expOut = append(expOut, so...)
				expErr = append(expErr, se...)
				if exit != 0 && !ot.allow {
					reachedEnd = false
					break
				}
				if ci == 0 && ot.reopen == 0 {
					expOut = append(expOut, "[PATH-"+j.tag+"]"...)
					expErr = append(expErr, "[PATHERR-"+j.tag+"]"...)
				}
			}
			if ot.late && reachedEnd {
				expOut = append(expOut, "[EARLY-"+j.tag+"][LATE-"+j.tag+"]"...)
				expErr = append(expErr, "[LATEERR-"+j.tag+"]"...)
				res.sit("C19", "descendant writes after its command exited")
			}
			if !ran {
				// never started (dependency failed / job canceled): nothing may be stored
				for _, st := range []string{"stdout", "stderr"} {
					if b, err := readStore(out, j.id, ot.name, st); err == nil && len(b) > 0 {
						find("C19:output-for-task-that-never-ran", "job %s task %q never ran but %s holds %d bytes", j.tag, ot.name, st, len(b))
					}
				}
				continue
			}
			for _, st := range []string{"stdout", "stderr"} {
				exp := expOut
				if st == "stderr" {
					exp = expErr
				}
				got, err := readStore(out, j.id, ot.name, st)
				res.sit("C19", fmt.Sprintf("cmds=%d bytes~%s lines=%v canceled=%v nameclass=%s", len(ot.plans), sizeClass(len(exp)), ot.plans[0].Lines, canceled[j.id], nameClass(ot.name)))
				res.Evaluations["C19"]++
				total += len(got)
				if err != nil {
					find("C19:output-not-readable", "job %s task %q %s: %v", j.tag, ot.name, st, err)
					continue
				}
				if canceled[j.id] || ts.Status == "canceled" {
					// prefix property: what is stored is a prefix of what the commands would have written
					if !bytes.HasPrefix(exp, got) {
						find("C19:stored-output-of-canceled-task-is-not-a-prefix", "job %s task %q %s: %d bytes stored, first difference to the written stream at offset %d", j.tag, ot.name, st, len(got), firstDiff(exp, got))
					}
					continue
				}
				if !bytes.Equal(got, exp) {
					find("C19:stored-output-differs-from-written-output", "job %s task %q %s: written %d bytes (sha %s), stored %d bytes (sha %s), first difference at offset %d of the stream of %d commands", j.tag, ot.name, st, len(exp), sha(exp), len(got), sha(got), firstDiff(exp, got), len(ot.plans))
				}
			}
			expectedFiles[ot.name] = true
			// a task that was stopped has written a prefix: the log API returns exactly what the store holds for it
			if (canceled[j.id] || ts.Status == "canceled") && ot.plans[0].Lines && allLines(ot.plans) {
				so, e1 := readStore(out, j.id, ot.name, "stdout")
				se, e2 := readStore(out, j.id, ot.name, "stderr")
				code, body := api.Do("GET", "/job/logs", url.Values{"id": {j.id}, "task": {ot.name}}, nil)
				var lr struct{ Stdout, Stderr string }
				res.sit("C19", fmt.Sprintf("log api vs store for a stopped task (%d bytes stored)", min(len(so)+len(se), 1)))
				if e1 == nil && e2 == nil {
					if code != 200 || json.Unmarshal(body, &lr) != nil {
						find("C19:log-api-failed", "GET /job/logs for the stopped task %q answered %d", ot.name, code)
					} else if lr.Stdout != string(so) || lr.Stderr != string(se) {
						find("C19:log-api-differs-from-store", "GET /job/logs job %s task %q (stopped while running): the API returns %d / %d bytes, the store holds %d / %d (stdout / stderr)", j.tag, ot.name, len(lr.Stdout), len(lr.Stderr), len(so), len(se))
					}
				}
			}
			// the log API returns the same for UTF-8 payloads
			if ot.plans[0].Lines && allLines(ot.plans) && !canceled[j.id] && len(expOut) < 1<<20 {
				if ot.reopen == 0 {
					res.sit("C19", "std streams re-opened by path")
				}
				code, body := api.Do("GET", "/job/logs", url.Values{"id": {j.id}, "task": {ot.name}}, nil)
				var lr struct{ Stdout, Stderr string }
				if code != 200 || json.Unmarshal(body, &lr) != nil {
					find("C19:log-api-failed", "GET /job/logs for task %q answered %d", ot.name, code)
				} else if lr.Stdout != string(expOut) || lr.Stderr != string(expErr) {
					find("C19:log-api-differs-from-written-output", "GET /job/logs job %s task %q: stdout %d/%d bytes, stderr %d/%d bytes (got/written)", j.tag, ot.name, len(lr.Stdout), len(expOut), len(lr.Stderr), len(expErr))
				}
				res.sit("C19", "log api compared")
				// the same job under another spelling of its id (every spelling the API accepts names the same job): the
				// answer is the same output, or the spelling is refused - never another / an empty output
				if code == 200 {
					alts := []string{strings.ToUpper(j.id), "{" + j.id + "}", "urn:uuid:" + j.id, strings.ReplaceAll(j.id, "-", "")}
					alt := alts[(int(seed)+len(ot.name))%len(alts)]
					code2, body2 := api.Do("GET", "/job/logs", url.Values{"id": {alt}, "task": {ot.name}}, nil)
					var lr2 struct{ Stdout, Stderr string }
					if code2 == 200 && json.Unmarshal(body2, &lr2) == nil && (lr2.Stdout != lr.Stdout || lr2.Stderr != lr.Stderr) {
						find("C19:log-api-differs-from-written-output", "GET /job/logs job %s task %q with the job id spelled %q answers 200 with stdout %d / stderr %d bytes, with the canonical spelling %d / %d bytes", j.tag, ot.name, alt[:9]+"...", len(lr2.Stdout), len(lr2.Stderr), len(lr.Stdout), len(lr.Stderr))
					}
					res.sit("C19", "log api asked with another spelling of the job id")
				}
			}
		}
		// C02 / C08 with the REAL task runner: a command that exits with a non-zero status fails its task (unless
		// allow_failure), nothing that depends on a failed task runs, and such a job is not reported as a plain success
		if !canceled[j.id] {
			var def definition.PipelineDef
			for _, sp := range specs {
				if sp.Name == j.pipe {
					def = sp.Def
				}
			}
			state := map[string]string{}
			anyFailed := false
			for _, ot := range tasksOf[j.pipe] {
				st := "ok"
				for _, d := range def.Tasks[ot.name].DependsOn {
					if state[d] != "ok" {
						st = "blocked"
					}
				}
				if st == "ok" && !ot.allow && !ot.slow {
					for _, pl := range ot.plans {
						if pl.ExitAt > 0 {
							st = "failed"
						}
					}
					if st == "ok" && ot.sig != 0 {
						st = "failed" // killed by a signal without any cancel: a failure like any other
						res.sit("C08", fmt.Sprintf("real runner: command killed by signal %d", ot.sig))
					}
				}
				state[ot.name] = st
				ts := snap.Task(ot.name)
				if ts == nil {
					continue
				}
				res.sit("C02", fmt.Sprintf("real runner: task %s, job has %d tasks", st, len(tasksOf[j.pipe])))
				res.sit("C08", fmt.Sprintf("real runner: task %s allow_failure=%v", st, ot.allow))
				switch st {
				case "failed":
					anyFailed = true
					if ts.Status != "error" || !ts.Errored {
						res.Findings = append(res.Findings, Finding{Props: []string{"C08", "C02"}, Sig: "C08:failed-task-not-reported-errored", Detail: fmt.Sprintf("real task runner: a command of task %q failed (exit status 3 or killed by signal %d; no allow_failure) but the task is reported status=%q errored=%v exit=%d", ot.name, ot.sig, ts.Status, ts.Errored, ts.ExitCode), Step: -1})
					}
				case "blocked":
					if ts.Start != nil || ts.Status == "done" || ts.Status == "running" {
						res.Findings = append(res.Findings, Finding{Props: []string{"C02", "C08"}, Sig: "C02:task-ran-although-dependency-failed", Detail: fmt.Sprintf("real task runner: task %q depends on %v, which failed / never ran, but is reported status=%q started=%v", ot.name, def.Tasks[ot.name].DependsOn, ts.Status, ts.Start != nil), Step: -1})
					}
				}
			}
			if anyFailed && snap.Completed && !snap.Canceled && !snap.HasError {
				res.Findings = append(res.Findings, Finding{Props: []string{"C08", "C02"}, Sig: "C08:job-with-failed-task-reported-plain-success", Detail: "real task runner: a task failed without allow_failure, yet the job is reported completed, not canceled and without error", Step: -1})
			}
		}
		// a task the job does not have is refused, also if another job has it
		foreign := []string{"no-such-task", "slow-canceled", hostileTaskNames[r.Intn(len(hostileTaskNames))]}
		if len(tasksOf[j.pipe]) > 0 {
			// a name that differs from an existing one only by surrounding white space is another name
			n0 := tasksOf[j.pipe][r.Intn(len(tasksOf[j.pipe]))].name
			foreign = append(foreign, n0+" ", " "+n0, strings.TrimSpace(n0))
		}
		for _, other := range foreign {
			has := false
			for _, ot := range tasksOf[j.pipe] {
				if ot.name == other {
					has = true
				}
			}
			if has {
				continue
			}
			code, body := api.Do("GET", "/job/logs", url.Values{"id": {j.id}, "task": {other}}, nil)
			res.sit("C19", "foreign task requested")
			if code != 404 {
				find("C19:log-api-serves-task-the-job-does-not-have", "GET /job/logs job %s task %q (not a task of this job) answered %d: %.80s", j.tag, other, code, body)
			}
		}
		// nothing of this job outside its own directory, nothing foreign inside
		entries, _ := os.ReadDir(filepath.Join(logRoot, j.id))
		if len(entries) > 2*len(tasksOf[j.pipe]) {
			find("C19:unexpected-log-files", "job %s: %d log files for %d tasks", j.tag, len(entries), len(tasksOf[j.pipe]))
		}
	}
	top, _ := os.ReadDir(logRoot)
	for _, e := range top {
		known := false
		for _, j := range jobs {
			if e.Name() == j.id {
				known = true
			}
		}
		if !known {
			find("C19:log-file-outside-job-directory", "%s appeared directly in the log root: output of a task is stored outside the directory of its job", e.Name())
		}
	}
	res.Events = total
	if len(res.Findings) > 0 {
		res.Sample = map[string]any{"seed": seed, "jobs": len(jobs), "pipelines": nPipes}
	}
	return res
}

func allLines(pl []EmitPlan) bool {
	for _, p := range pl {
		if !p.Lines {
			return false
		}
	}
	return true
}

func sizeClass(n int) string {
	switch {
	case n == 0:
		return "0"
	case n < 4096:
		return "<4K"
	case n < 65536:
		return "<64K"
	case n < 1<<20:
		return "<1M"
	}
	return ">=1M"
}

// symValue: a job variable value with characters that HTML / URL / JSON encoders treat specially (no single quote: the
// script puts the value between single quotes)
func symValue(i int) string {
	return []string{`a&b<c>d"e+f`, `<script>alert("x")</script>`, `1+1=2 & 3>2`, `50% "off" \\ back`, "tab\there & there"}[i%5] + fmt.Sprintf("#%d", i)
}

func nameClass(n string) string {
	switch {
	case len(n) > 200:
		return "very-long"
	case strings.Contains(n, "/") || strings.Contains(n, ".."):
		return "path"
	case strings.Contains(n, "%"):
		return "percent"
	case strings.HasPrefix(n, "a"):
		return "prefix"
	case strings.ContainsAny(n, " \t'\""):
		return "space/quote"
	}
	return "plain"
}

// ---------------------------------------------------------------------------------------------------------------
// C18: environment and job variables reach exactly the right commands
// ---------------------------------------------------------------------------------------------------------------

var envValues = []string{"plain", "", "two words", "'single' \"double\"", "$HOME ${X} $(id)", "`backtick`", "a=b=c", "line1\nline2", "tab\there", "ünï-cödé-😀", " lead and trail ", "\\back\\slash", "#hash", "*?[glob]"}

var envMu sync.Mutex // the process environment is global: C18 cases of one worker run one at a time

// RunEnvCase checks environment precedence, byte fidelity and isolation with real processes
func RunEnvCase(seed int64, exe, workDir string) *HistResult {
	envMu.Lock()
	defer envMu.Unlock()
	r := rand.New(rand.NewSource(seed))
	res := &HistResult{Seed: seed, Situations: map[string]map[string]struct{}{}, Evaluations: map[string]int{}}
	find := func(props []string, sig, format string, args ...any) {
		res.Findings = append(res.Findings, Finding{Props: props, Sig: sig, Detail: fmt.Sprintf(format, args...), Step: -1})
	}
	dir, err := os.MkdirTemp(workDir, "env-")
	if err != nil {
		res.Inconclusive = err.Error()
		return res
	}
	defer os.RemoveAll(dir)
	// names: every non-empty subset of the three levels defines some name; some names are prefixes of others
	names := []string{"PXV_A", "PXV_A_TOKEN", "PXV_B", "PXV_BB", "PXV_C", "TASK_NAME_EXTRA", "PXV_D", "PXV_LONG", "PXV_E", "PXV_TASKONLY", "ARGS", "HOME_PXV", "Args"}
	val := func() string {
		v := envValues[r.Intn(len(envValues))]
		if r.Intn(25) == 0 {
			v = strings.Repeat("0123456789abcdef", 4096) // 64 KiB
		}
		return v + fmt.Sprintf("#%d", r.Intn(1000))
	}
	procEnv := map[string]string{}
	for _, n := range names {
		if r.Intn(2) == 0 {
			procEnv[n] = "proc:" + val()
		}
	}
	procEnv["PXV_A_TOKEN"] = "proc-only:" + val()     // process-only name that starts with a job-level name
	procEnv["TASK_NAME_EXTRA"] = "proc-only:" + val() // starts with the name the runner sets itself
	for _, n := range names {
		os.Unsetenv(n)
	}
	for k, v := range procEnv {
		os.Setenv(k, v)
	}
	defer func() {
		for _, n := range names {
			os.Unsetenv(n)
		}
	}()
	type taskEnvSpec struct {
		name string
		env  map[string]string
	}
	nPipes := 1 + r.Intn(3)
	reloadCase := seed%3 == 1
	var specs []gen.PipeSpec
	pipeEnv := map[string]map[string]string{}
	taskEnvs := map[string][]taskEnvSpec{}
	for p := 0; p < nPipes; p++ {
		pname := fmt.Sprintf("p%d", p)
		def := definition.PipelineDef{Concurrency: 3, Tasks: map[string]definition.TaskDef{}, SourcePath: "gen", ContinueRunningTasksAfterFailure: true}
		if reloadCase {
			def.Concurrency = 1
		}
		pe := map[string]string{}
		for _, n := range names {
			if n == "PXV_A_TOKEN" || n == "TASK_NAME_EXTRA" || n == "PXV_TASKONLY" {
				continue
			}
			if r.Intn(2) == 0 {
				pe[n] = fmt.Sprintf("pipe%d:", p) + val()
				if r.Intn(6) == 0 {
					pe[n] = "" // an empty value at a higher level shadows a non-empty lower one
				}
			}
		}
		pe["PXV_A"] = fmt.Sprintf("pipe%d:", p) + val()
		def.Env = pe
		pipeEnv[pname] = pe
		nT := 1 + r.Intn(3)
		for t := 0; t < nT; t++ {
			tn := fmt.Sprintf("task%d", t)
			te := map[string]string{}
			for _, n := range names {
				if n == "PXV_A_TOKEN" || n == "TASK_NAME_EXTRA" {
					continue
				}
				if r.Intn(3) == 0 {
					te[n] = fmt.Sprintf("task%d.%d:", p, t) + val()
					if r.Intn(6) == 0 {
						te[n] = ""
					}
				}
			}
			if t == 0 {
				te["PXV_TASKONLY"] = fmt.Sprintf("only-task%d.%d", p, t)
			}
			nCmd := 1 + r.Intn(3)
			var script []string
			for c := 0; c < nCmd; c++ {
				script = append(script, shQuote(exe)+" dumpenv {{.tv}} cmd"+fmt.Sprint(c)+" {{.num}} {{.big}} {{.small}} {{.flag}} {{.PXV_A}} {{.PXV_TASKONLY}} '{{.sym}}'")
			}
			// the interpreter's own view of a variable
			script = append(script, `printf 'SH[%s]' "$PXV_A"`)
			def.Tasks[tn] = definition.TaskDef{Script: script, Env: te}
			taskEnvs[pname] = append(taskEnvs[pname], taskEnvSpec{tn, te})
		}
		// a task that renders a variable which only some jobs have
		def.Tasks["needs-opt"] = definition.TaskDef{Script: []string{shQuote(exe) + " dumpenv {{.opt}} optional"}, AllowFailure: true}
		taskEnvs[pname] = append(taskEnvs[pname], taskEnvSpec{"needs-opt", nil})
		g := gen.Graph{Deps: map[string][]string{}}
		for n := range def.Tasks {
			g.Names = append(g.Names, n)
		}
		sort.Strings(g.Names)
		specs = append(specs, gen.PipeSpec{Name: pname, Def: def, Graph: g})
	}
	// a name that no level defines (a reload introduces it later): it must stay absent for the jobs accepted before
	names = append(names, "PXV_NEW_AFTER_RELOAD")
	sys, out, _, err := realSys(specs, dir, 300*time.Millisecond)
	if err != nil {
		res.Inconclusive = err.Error()
		return res
	}
	defer sys.Close()
	// half of the cases schedule through the HTTP handler (requests decoded by the server, one after the other)
	viaHTTP := seed%2 == 0
	envAPI := core.NewAPI(sys.R, out, "0123456789abcdef-harness-secret", false)
	if viaHTTP {
		res.sit("C18", "jobs scheduled over HTTP")
	}
	type jobInfo struct {
		id, pipe, tv string
		opt          string
		idx          int
	}
	var jobs []jobInfo
	nJobs := 2 + r.Intn(4)
	for i := 0; i < nJobs; i++ {
		sp := specs[r.Intn(len(specs))]
		tv := fmt.Sprintf("tv-%d-%d", i, r.Intn(1e6))
		// variables of Go types as an embedding application passes them: they must be rendered as they are
		vars := map[string]interface{}{"tv": tv, "num": 1000000 + i, "big": int64(9007199254740993), "small": int8(7), "flag": true}
		// job variables whose names are also environment variable names (pipeline level / task level): the script is
		// rendered with the job's variables, the environment keeps the environment's values
		// characters that mean something in HTML, URLs and JSON (the script quotes the value for the shell): byte for byte
		vars["sym"] = symValue(i)
		vars["PXV_A"] = fmt.Sprintf("jobvar-a-%d", i)
		vars["PXV_TASKONLY"] = fmt.Sprintf("jobvar-t-%d", i)
		opt := ""
		if i%2 == 0 {
			opt = fmt.Sprintf("opt-%d-%d", i, r.Intn(1e6))
			vars["opt"] = opt
		}
		var id, cls string
		if viaHTTP {
			// over HTTP everything is JSON: the typed values travel as strings so that their rendering is the same
			vars["num"], vars["big"], vars["small"], vars["flag"] = fmt.Sprint(1000000+i), "9007199254740993", "7", "true"
			id, cls = sys.ScheduleHTTP(0, envAPI, sp.Name, vars)
		} else {
			id, cls = sys.Schedule(0, sp.Name, vars, "u")
		}
		if cls != "ok" {
			res.Inconclusive = "schedule: " + cls
			return res
		}
		jobs = append(jobs, jobInfo{id, sp.Name, tv, opt, i})
	}
	if reloadCase {
		// the definitions are replaced while most of these jobs still wait (concurrency 1): every level of environment
		// changes, one name disappears, one appears. Jobs that were accepted before see none of it.
		var changed []gen.PipeSpec
		for _, sp := range specs {
			nd := gen.CopyPipeDef(sp.Def)
			ne := map[string]string{"PXV_NEW_AFTER_RELOAD": "reloaded"}
			for k, v := range nd.Env {
				if k != "PXV_A" {
					ne[k] = "reloaded:" + v
				}
			}
			nd.Env = ne
			for tn, td := range nd.Tasks {
				te := map[string]string{}
				for k, v := range td.Env {
					te[k] = "reloaded:" + v
				}
				td.Env = te
				nd.Tasks[tn] = td
			}
			changed = append(changed, gen.PipeSpec{Name: sp.Name, Def: nd, Graph: sp.Graph})
		}
		sys.Replace(0, gen.BuildDefs(changed), "all environment levels changed")
		res.sit("C18", "definitions replaced while jobs wait")
	}
	// a job that passes the reserved variable name, naming the first job: it must not run anything nor touch that job
	victim := jobs[0]
	evilID, evilCls := sys.Schedule(0, victim.pipe, map[string]interface{}{"tv": "evil", "opt": "evil", "num": 1, "big": 2, "small": 3, "flag": false, "sym": "evil", "PXV_A": "evil", "PXV_TASKONLY": "evil", "__jobID": victim.id}, "evil")
	var ids []string
	for _, j := range jobs {
		ids = append(ids, j.id)
	}
	if !waitJobs(sys, ids, 60*time.Second) {
		res.Inconclusive = "watchdog: jobs did not finish"
		return res
	}
	if evilCls == "ok" {
		waitJobs(sys, []string{evilID}, 10*time.Second)
		ej, _ := sys.ReadJob(evilID)
		res.sit("C18", "reserved variable passed")
		if ej.Start != nil || !ej.Canceled {
			find([]string{"C18"}, "C18:reserved-variable-accepted", "a job that passes the variable name reserved for job identity was started (started=%v canceled=%v)", ej.Start != nil, ej.Canceled)
		}
		if _, err := os.Stat(filepath.Join(dir, "logs", evilID)); err == nil {
			find([]string{"C18"}, "C18:reserved-variable-job-wrote-logs", "the job with the reserved variable wrote logs")
		}
	}
	for _, j := range jobs {
		snap, _ := sys.ReadJob(j.id)
		for _, te := range taskEnvs[j.pipe] {
			got, err := readStore(out, j.id, te.name, "stdout")
			ts := snap.Task(te.name)
			if te.name == "needs-opt" {
				res.sit("C18", fmt.Sprintf("optional variable present=%v", j.opt != ""))
				if j.opt == "" {
					// the variable belongs to other jobs only: rendering must fail for this job, nothing of them may appear
					if err == nil && (bytes.Contains(got, []byte("opt-")) || bytes.Contains(got, []byte("optional"))) {
						find([]string{"C18"}, "C18:variable-of-another-job-rendered", "task needs-opt of a job without the variable ran and printed %q", truncateBytes(got, 120))
					}
					if ts != nil && ts.Status == "done" && !ts.Errored {
						find([]string{"C18"}, "C18:missing-variable-rendered", "task needs-opt of a job without the variable is reported done without error")
					}
				} else {
					dumps, perr := ParseDumps(string(got))
					if err != nil || perr != nil || len(dumps) != 1 || len(dumps[0].Args) < 1 || dumps[0].Args[0] != j.opt {
						find([]string{"C18"}, "C18:own-variable-not-rendered", "task needs-opt of a job with opt=%s printed %q", j.opt, truncateBytes(got, 120))
					}
				}
				continue
			}
			if err != nil {
				find([]string{"C18"}, "C18:output-not-readable", "job %s task %s: %v", j.tv, te.name, err)
				continue
			}
			dumps, perr := ParseDumps(string(got))
			if perr != nil || len(dumps) == 0 {
				find([]string{"C18"}, "C18:dump-not-parseable", "job %s task %s: %v (%d dumps)", j.tv, te.name, perr, len(dumps))
				continue
			}
			expect := func(n string) (string, bool) {
				if v, ok := te.env[n]; ok {
					return v, true
				}
				if v, ok := pipeEnv[j.pipe][n]; ok {
					return v, true
				}
				if v, ok := procEnv[n]; ok {
					return v, true
				}
				return "", false
			}
			for ci, d := range dumps {
				res.Evaluations["C18"]++
				if want := []string{fmt.Sprint(1000000 + j.idx), "9007199254740993", "7", "true"}; len(d.Args) >= 6 && !eqStr(d.Args[2:6], want) {
					find([]string{"C18"}, "C18:script-rendered-with-altered-variable-values", "job %s task %s command %d: typed job variables were rendered as %v, expected %v", j.tv, te.name, ci, d.Args[2:6], want)
				}
				if want := []string{fmt.Sprintf("jobvar-a-%d", j.idx), fmt.Sprintf("jobvar-t-%d", j.idx)}; len(d.Args) < 8 || !eqStr(d.Args[6:8], want) {
					find([]string{"C18"}, "C18:job-variable-shadowed-by-environment-name", "job %s task %s command %d: job variables that share their names with environment variables (pipeline level / task level) were rendered as %v, expected the job's own values %v", j.tv, te.name, ci, d.Args[min(6, len(d.Args)):], want)
				}
				if len(d.Args) < 9 || d.Args[8] != symValue(j.idx) {
					find([]string{"C18"}, "C18:script-rendered-with-altered-variable-values", "job %s task %s command %d: the job variable %q was rendered as %q", j.tv, te.name, ci, symValue(j.idx), d.Args[min(8, len(d.Args)-1)])
				}
				if len(d.Args) < 2 || d.Args[0] != j.tv {
					find([]string{"C18"}, "C18:script-rendered-with-wrong-variables", "job %s task %s command %d was rendered with arguments %v", j.tv, te.name, ci, d.Args)
				}
				if d.Env["TASK_NAME"] != te.name {
					find([]string{"C18"}, "C18:task-name-variable", "TASK_NAME=%q in task %s", d.Env["TASK_NAME"], te.name)
				}
				for _, n := range names {
					ev, defined := expect(n)
					gv, present := d.Env[n]
					levels := ""
					if _, ok := te.env[n]; ok {
						levels += "T"
					}
					if _, ok := pipeEnv[j.pipe][n]; ok {
						levels += "P"
					}
					if _, ok := procEnv[n]; ok {
						levels += "X"
					}
					res.sit("C18", "levels="+levels)
					if defined != present {
						find([]string{"C18"}, "C18:variable-presence", "job %s task %s command %d: %s should be %s (levels %s) but is %s", j.tv, te.name, ci, n, map[bool]string{true: "set", false: "unset"}[defined], levels, map[bool]string{true: "set to " + truncate(gv, 60), false: "unset"}[present])
						continue
					}
					if defined && ev != gv {
						find([]string{"C18"}, "C18:variable-value", "job %s task %s command %d: %s (levels %s) is %q, expected %q (first difference at byte %d)", j.tv, te.name, ci, n, levels, truncate(gv, 60), truncate(ev, 60), firstDiff([]byte(ev), []byte(gv)))
					}
				}
			}
			// the interpreter's view
			if i := bytes.LastIndex(got, []byte("SH[")); i >= 0 {
				ev, _ := expect("PXV_A")
				sh := string(got[i+3:])
				sh = strings.TrimSuffix(sh, "]")
				if sh != ev {
					find([]string{"C18"}, "C18:shell-level-value", "job %s task %s: the shell expands $PXV_A to %q, expected %q", j.tv, te.name, truncate(sh, 60), truncate(ev, 60))
				}
			}
		}
	}
	if len(res.Findings) > 0 {
		res.Sample = map[string]any{"seed": seed, "jobs": len(jobs)}
	}
	return res
}

func truncate(s string, n int) string {
	if len(s) > n {
		return s[:n] + "..."
	}
	return s
}

func truncateBytes(b []byte, n int) string { return truncate(string(b), n) }

// RunEarlyFailureCase (C08, real task runner): a task fails BEFORE its script runs (its log file cannot be created: the
// task name is longer than a file name may be), next to a sibling that is running and with a dependent.
//
//	allow_failure                      : neither fails the job nor blocks the dependent, whatever the mode
//	no allow_failure, fail-fast        : the running sibling is told to stop, the job ends canceled
//	no allow_failure, continue-running : the sibling runs to its end, the dependent never runs, the job is not a plain success
func RunEarlyFailureCase(seed int64, workDir string, variant int) *HistResult {
	res := &HistResult{Seed: seed, Situations: map[string]map[string]struct{}{}, Evaluations: map[string]int{}}
	find := func(sig, format string, args ...any) {
		res.Findings = append(res.Findings, Finding{Props: []string{"C08"}, Sig: sig, Detail: fmt.Sprintf(format, args...), Step: -1})
	}
	allow := variant%2 == 0
	cont := (variant/2)%2 == 1
	dir, err := os.MkdirTemp(workDir, "early-")
	if err != nil {
		res.Inconclusive = err.Error()
		return res
	}
	defer os.RemoveAll(dir)
	long := strings.Repeat("task-with-a-very-long-name-", 10) // 270 bytes > NAME_MAX
	def := definition.PipelineDef{Concurrency: 1, ContinueRunningTasksAfterFailure: cont, SourcePath: "gen", Tasks: map[string]definition.TaskDef{
		long:        {Script: []string{"true"}, AllowFailure: allow},
		"sibling":   {Script: []string{"sleep 1.5"}},
		"dependent": {Script: []string{"true"}, DependsOn: []string{long}},
	}}
	specs := []gen.PipeSpec{{Name: "p", Def: def, Graph: gen.Graph{Names: []string{long, "sibling", "dependent"}, Deps: map[string][]string{"dependent": {long}}}}}
	sys, _, _, err := realSys(specs, dir, 300*time.Millisecond)
	if err != nil {
		res.Inconclusive = err.Error()
		return res
	}
	defer sys.Close()
	id, cls := sys.Schedule(0, "p", nil, "u")
	if cls != "ok" {
		res.Inconclusive = "schedule: " + cls
		return res
	}
	t0 := time.Now()
	if !waitJobs(sys, []string{id}, 60*time.Second) {
		res.Inconclusive = "watchdog: job did not finish"
		return res
	}
	took := time.Since(t0)
	j, _ := sys.ReadJob(id)
	st := func(n string) string {
		if t := j.Task(n); t != nil {
			return t.Status
		}
		return "?"
	}
	res.sit("C08", fmt.Sprintf("task fails before its script runs: allow_failure=%v continue=%v", allow, cont))
	res.Evaluations["C08"]++
	res.journalf("allow=%v continue=%v: job completed=%v canceled=%v error=%q after %v; tasks long=%s sibling=%s dependent=%s", allow, cont, j.Completed, j.Canceled, j.LastError, took.Round(time.Millisecond), st(long), st("sibling"), st("dependent"))
	if lt := j.Task(long); lt == nil || lt.Status == "done" && !allow {
		res.Inconclusive = "the long task name did not make the task fail on this file system"
		return res
	}
	switch {
	case allow:
		if j.Canceled || st("sibling") != "done" || st("dependent") != "done" {
			find("C08:allowed-failure-failed-the-job", "an allow_failure task failed before its script ran (continue=%v): job canceled=%v error=%q, sibling=%s, dependent=%s - an allowed failure neither fails the job nor blocks its dependents", cont, j.Canceled, j.LastError, st("sibling"), st("dependent"))
		}
	case !cont:
		if st("sibling") == "done" {
			find("C08:fail-fast-did-not-stop-siblings", "a task failed before its script ran (fail-fast pipeline): its running sibling was not told to stop and ran to its end (sibling=%s, job canceled=%v error=%q, job took %v for a sibling that sleeps 1.5 s)", st("sibling"), j.Canceled, j.LastError, took.Round(time.Millisecond))
		}
		if st("dependent") == "done" {
			find("C08:dependent-of-failed-task-ran", "the dependent of a task that failed before its script ran was executed")
		}
	default:
		if st("sibling") != "done" {
			find("C08:continue-mode-stopped-siblings", "continue_running_tasks_after_failure: the sibling of a failed task is reported %s", st("sibling"))
		}
		if st("dependent") == "done" {
			find("C08:dependent-of-failed-task-ran", "the dependent of a task that failed before its script ran was executed")
		}
		if j.Completed && !j.Canceled && !j.HasError {
			find("C08:job-with-failed-task-reported-plain-success", "a task failed before its script ran, yet the job is reported completed, not canceled and without error")
		}
	}
	return res
}
