//go:build verif

package drv

import (
	"runtime"
	"strings"
	"testing"
	"time"

	"pxverif/core"
	"pxverif/gen"
)

func parkedAtGates() int {
	buf := make([]byte, 64<<20)
	n := runtime.Stack(buf, true)
	return strings.Count(string(buf[:n]), "(*Gates).wait(")
}

// every driver must end every job it started: a task left at its gate keeps its scheduler loop polling every 200 µs,
// which slows the worker process down case by case (seen in the thorough tier: 1 case per 30 s after 1 600 cases)
func TestDriversLeaveNoTaskAtItsGate(t *testing.T) {
	core.SetPause(200 * time.Microsecond)
	kinds := map[string]func(seed int64){
		"lifecycle": func(seed int64) { RunLifecycleCase(seed, t.TempDir()) },
		"retention": func(seed int64) { RunRetentionCase(seed, t.TempDir()) },
		"prepared":  func(seed int64) { PreparedStoreCase(seed, t.TempDir()) },
		"history": func(seed int64) {
			RunHistory(seed, HistOpts{NPipes: 2, MaxOps: 30, Pipe: gen.PipeOpts{MaxTasks: 5}, WSchedule: 40, WFinish: 25, WCancel: 12, WFire: 8, WStopRel: 4, WRead: 1, SlowStopProb: 0.2})
		},
		"history-retention": func(seed int64) {
			RunHistory(seed, HistOpts{NPipes: 2, MaxOps: 30, Pipe: gen.PipeOpts{MaxTasks: 5}, WSchedule: 40, WFinish: 25, WCancel: 12, WFire: 8, WStopRel: 4, WRead: 1, WSave: 12, StoreDir: t.TempDir(), Retention: true})
		},
		"cancel": func(seed int64) {
			RunCancelCase(seed, CancelOpts{Variant: CancelVariant(seed % int64(NumCancelVariants)), Shape: int(seed % 9), Boundary: int(seed % 7), TmpDir: t.TempDir()})
		},
		"delay": func(seed int64) {
			RunDelayCase(seed, DelayOpts{Delay: 2 * time.Millisecond, Replace: seed%2 == 0, Limit: -1, Conc: 1 + int(seed%2), Burst: 1 + int(seed%5), Busy: seed%3 == 0})
		},
		"shutdown": func(seed int64) {
			RunShutdownCase(seed, ShutdownOpts{Forced: seed%2 == 0, Clients: seed%3 == 0, NoFinisher: seed%4 == 0 && seed%2 == 0})
		},
		"stress": func(seed int64) {
			RunStress(seed, StressOpts{Schedulers: 3, Cancelers: 1, Readers: 1, Saver: true, OpsPerClient: 15, Retention: 2})
		},
		"history-reload": func(seed int64) {
			RunHistory(seed, HistOpts{NPipes: 2, MaxOps: 30, Pipe: gen.PipeOpts{MaxTasks: 5}, WSchedule: 40, WFinish: 25, WCancel: 12, WFire: 8, WStopRel: 4, WRead: 1, WReload: 12})
		},
	}
	for name, f := range kinds {
		before := parkedAtGates()
		for s := int64(1); s <= 60; s++ {
			f(s * 7919)
		}
		after := parkedAtGates()
		for i := 0; i < 30 && after > before; i++ {
			time.Sleep(100 * time.Millisecond) // goroutines that were released need a moment to return
			after = parkedAtGates()
		}
		t.Logf("%s: tasks parked at gates %d -> %d", name, before, after)
		if after > before {
			t.Errorf("%s leaves %d tasks at their gates after 60 cases", name, after-before)
		}
	}
}
