package drv

import (
	"context"
	"encoding/json"
	"fmt"
	"math"
	"math/rand"
	"net/url"
	"os"
	"path/filepath"
	"reflect"
	"sort"
	"time"

	"github.com/gofrs/uuid"

	"github.com/Flowpack/prunner"
	"github.com/Flowpack/prunner/definition"
	"github.com/Flowpack/prunner/store"

	"pxverif/core"
	"pxverif/gen"
)

// RestartOn starts a fresh runner on a copy of a persisted snapshot and returns what it reports
func RestartOn(dataFile string, specs []gen.PipeSpec, workDir string) (*core.Sys, error) {
	dir, err := os.MkdirTemp(workDir, "restart-")
	if err != nil {
		return nil, err
	}
	b, err := os.ReadFile(dataFile)
	if err != nil {
		return nil, err
	}
	if err := os.WriteFile(filepath.Join(dir, "data.json"), b, 0o644); err != nil {
		return nil, err
	}
	js, err := store.NewJSONDataStore(dir)
	if err != nil {
		return nil, err
	}
	return core.NewSys(gen.BuildDefs(specs), js, core.NewMemOutputStore())
}

func timesEqual(a, b *time.Time) bool {
	if (a == nil) != (b == nil) {
		return false
	}
	return a == nil || a.Equal(*b)
}

// DiffJobReport compares two reports of the same job field by field (what the API can show); returns differences
func DiffJobReport(before, after *core.JobSnap) []string {
	var d []string
	add := func(f string, a, b any) { d = append(d, fmt.Sprintf("%s: %v -> %v", f, a, b)) }
	if before.Pipeline != after.Pipeline {
		add("pipeline", before.Pipeline, after.Pipeline)
	}
	if before.Completed != after.Completed {
		add("completed", before.Completed, after.Completed)
	}
	if before.Canceled != after.Canceled {
		add("canceled", before.Canceled, after.Canceled)
	}
	if !before.Created.Equal(after.Created) {
		add("created", before.Created, after.Created)
	}
	if !timesEqual(before.Start, after.Start) {
		add("start", before.Start, after.Start)
	}
	if !timesEqual(before.End, after.End) {
		add("end", before.End, after.End)
	}
	if before.User != after.User {
		add("user", fmt.Sprintf("%q", before.User), fmt.Sprintf("%q", after.User))
	}
	if before.HasError != after.HasError || before.LastError != after.LastError {
		add("lastError", fmt.Sprintf("%v %q", before.HasError, before.LastError), fmt.Sprintf("%v %q", after.HasError, after.LastError))
	}
	if !varsEqual(before.Variables, after.Variables) {
		add("variables", fmt.Sprintf("%#v", before.Variables), fmt.Sprintf("%#v", after.Variables))
	}
	if len(before.Tasks) != len(after.Tasks) {
		add("task count", len(before.Tasks), len(after.Tasks))
		return d
	}
	for i := range before.Tasks {
		a, b := before.Tasks[i], after.Tasks[i]
		p := fmt.Sprintf("task[%d] ", i)
		if a.Name != b.Name {
			add(p+"name (order)", a.Name, b.Name)
			continue
		}
		p = "task " + a.Name + " "
		if a.Status != b.Status {
			add(p+"status", a.Status, b.Status)
		}
		if !timesEqual(a.Start, b.Start) {
			add(p+"start", a.Start, b.Start)
		}
		if !timesEqual(a.End, b.End) {
			add(p+"end", a.End, b.End)
		}
		if a.ExitCode != b.ExitCode {
			add(p+"exitCode", a.ExitCode, b.ExitCode)
		}
		if a.Errored != b.Errored {
			add(p+"errored", a.Errored, b.Errored)
		}
		if a.HasError != b.HasError || a.Error != b.Error {
			add(p+"error", fmt.Sprintf("%v %q", a.HasError, a.Error), fmt.Sprintf("%v %q", b.HasError, b.Error))
		}
		if a.Skipped != b.Skipped {
			add(p+"skipped", a.Skipped, b.Skipped)
		}
		if !eqStrNilEmpty(a.DependsOn, b.DependsOn) {
			add(p+"dependsOn", a.DependsOn, b.DependsOn)
		}
	}
	return d
}

func eqStrNilEmpty(a, b []string) bool {
	if len(a) == 0 && len(b) == 0 {
		return true
	}
	return reflect.DeepEqual(a, b)
}

// varsEqual: deep equality of JSON-like values; an empty map and a missing map are the same report
func varsEqual(a, b map[string]any) bool {
	if len(a) == 0 && len(b) == 0 {
		return true
	}
	return jsonEqual(map[string]any(a), map[string]any(b))
}

func jsonEqual(a, b any) bool {
	switch x := a.(type) {
	case map[string]any:
		y, ok := b.(map[string]any)
		if !ok || len(x) != len(y) {
			return false
		}
		for k, v := range x {
			w, ok := y[k]
			if !ok || !jsonEqual(v, w) {
				return false
			}
		}
		return true
	case []any:
		y, ok := b.([]any)
		if !ok || len(x) != len(y) {
			return false
		}
		for i := range x {
			if !jsonEqual(x[i], y[i]) {
				return false
			}
		}
		return true
	default:
		return reflect.DeepEqual(a, b)
	}
}

func fmtT(t *time.Time) string {
	if t == nil {
		return "-"
	}
	return t.Format(time.RFC3339Nano)
}

// CheckRestartState checks the consistency part of C10 on a freshly restarted runner
func CheckRestartState(sys *core.Sys, specs []gen.PipeSpec, wantIDs []string, label string, find func(sig, format string, args ...any), sit func(s string)) core.View {
	v := sys.Snapshot(-1)
	got := map[string]int{}
	for i := range v.Jobs {
		j := &v.Jobs[i]
		got[j.ID]++
		sit(fmt.Sprintf("restarted job completed=%v canceled=%v started=%v", j.Completed, j.Canceled, j.Start != nil))
		// created <= start <= end and task start <= task end also for the jobs that the restart itself ended (seed C15-n: an
		// interrupted job gets an invented end time that lies before its start)
		if (j.Start != nil && j.Start.Before(j.Created)) || (j.End != nil && j.Start != nil && j.End.Before(*j.Start)) || (j.End != nil && j.End.Before(j.Created)) {
			find("C15:timestamps-out-of-order-after-restart", "%s: job %s of %s is reported after the restart with created=%v start=%v end=%v (completed=%v canceled=%v): created <= start <= end does not hold", label, j.ID, j.Pipeline, j.Created.Format(time.RFC3339Nano), fmtT(j.Start), fmtT(j.End), j.Completed, j.Canceled)
		}
		for _, t := range j.Tasks {
			if t.Start != nil && t.End != nil && t.End.Before(*t.Start) {
				find("C15:timestamps-out-of-order-after-restart", "%s: task %s of job %s is reported after the restart with start=%v end=%v", label, t.Name, j.ID, fmtT(t.Start), fmtT(t.End))
			}
		}
		if !j.Terminal() {
			find("C10:non-terminal-job-after-restart", "%s: job %s of %s is neither completed nor canceled after the restart (started=%v): it is a ghost that holds capacity", label, j.ID, j.Pipeline, j.Start != nil)
		}
	}
	want := map[string]int{}
	for _, id := range wantIDs {
		want[id]++
	}
	if !reflect.DeepEqual(got, want) {
		find("C10:jobs-lost-or-duplicated-by-restart", "%s: the snapshot holds %d jobs, the restarted runner reports %d", label, len(want), len(got))
	}
	// what the HTTP API lists right after the restart agrees with the runner's own listing and with the job flags
	if pipes, jobs, err := core.NewAPI(sys.R, core.NewMemOutputStore(), "0123456789abcdef-harness-secret", false).PipelinesJobs(); err == nil {
		byName := map[string]prunner.PipelineInfo{}
		for _, pi := range sys.ListPipelines(-1) {
			byName[pi.Pipeline] = pi
		}
		runningJobs := map[string]bool{}
		for i := range jobs {
			if jobs[i].Start != nil && !jobs[i].Completed && !jobs[i].Canceled {
				runningJobs[jobs[i].Pipeline] = true
			}
		}
		for _, p := range pipes {
			sit(fmt.Sprintf("http listing after restart running=%v", p.Running))
			if fl, ok := byName[p.Pipeline]; !ok || fl.Running != p.Running || fl.Schedulable != p.Schedulable {
				find("C15:http-flags-differ-from-runner", "%s: GET /pipelines/jobs lists %s running=%v schedulable=%v, ListPipelines running=%v schedulable=%v", label, p.Pipeline, p.Running, p.Schedulable, fl.Running, fl.Schedulable)
			}
			if p.Running != runningJobs[p.Pipeline] {
				find("C15:running-flag-vs-jobs", "%s: GET /pipelines/jobs lists %s running=%v, but the jobs in the same response say %v (running = started, not completed, not canceled)", label, p.Pipeline, p.Running, runningJobs[p.Pipeline])
			}
		}
	}
	for _, pi := range sys.ListPipelines(-1) {
		if pi.Running || !pi.Schedulable {
			find("C10:ghost-holds-capacity-after-restart", "%s: pipeline %s is reported running=%v schedulable=%v right after the restart", label, pi.Pipeline, pi.Running, pi.Schedulable)
		}
	}
	// the first request for every pipeline is accepted, and starts at once if there is no start delay
	probes := map[string]string{}
	delayed := map[string]string{}
	for _, sp := range specs {
		id, cls := sys.Schedule(0, sp.Name, nil, "probe")
		if cls == "ok" && sp.Def.StartDelay == 0 {
			probes[id] = sp.Name
		}
		if cls == "ok" && sp.Def.StartDelay > 0 && !sp.Graph.Cyclic {
			delayed[id] = sp.Name
		}
		if cls != "ok" {
			find("C10:first-request-after-restart-rejected", "%s: the first schedule request for %s after the restart was rejected: %s", label, sp.Name, cls)
			continue
		}
		if sp.Def.StartDelay == 0 && !sp.Graph.Cyclic {
			if j, ok := sys.ReadJob(id); ok && j.Start == nil {
				find("C10:first-request-after-restart-not-started", "%s: the first job of %s after the restart did not start at once (ghosts hold the slots?)", label, sp.Name)
			}
		}
	}
	// a start delay works on a restarted runner as on a fresh one: the job waits until its delay has passed (it is fired
	// logically here) and starts then - nothing that was loaded from the store occupies the pipeline
	for id, p := range delayed {
		if j, ok := sys.ReadJob(id); ok && j.Start != nil {
			find("C07:delayed-job-after-restart-started-before-its-delay", "%s: the job accepted for the delayed pipeline %s after the restart started before its delay had passed", label, p)
			continue
		}
		sys.FireDelay(0, id)
		sit("start delay of a job accepted after the restart passes")
		if j, ok := sys.ReadJob(id); ok && j.Start == nil && !j.Canceled {
			find("C07:delayed-job-after-restart-never-starts", "%s: the delay of the job accepted for pipeline %s after the restart has passed, no job of this runner occupies the pipeline, yet the job does not start", label, p)
		}
	}
	// let the probes (and whatever they wait for) run to their end
	DrainAll(sys)
	// no accepted job is stranded: at a logical quiescence a probe may only still wait if a job that THIS runner started
	// occupies its pipeline (jobs loaded from the store execute nothing)
	if qv, err := sys.Quiesce(core.QuiesceOpts{Watchdog: 20 * time.Second}); err == nil {
		for id, p := range probes {
			j := qv.ByID(id)
			if j == nil || !j.Waiting() {
				continue
			}
			busy := false
			for i := range qv.Jobs {
				o := &qv.Jobs[i]
				if o.Pipeline == p && o.Executing() && sys.WasStarted(o.ID) {
					busy = true
				}
			}
			if !busy {
				find("C03:job-accepted-after-restart-never-starts", "%s: the job accepted for pipeline %s after the restart is still waiting at quiescence although no job of this runner occupies the pipeline", label, p)
			}
		}
	}
	// a graceful shutdown of the restarted runner returns: nothing that was loaded from the store is "running" (bounded
	// wait in this goroutine's own 2 ms sleeps: 10 s for a runner whose jobs have all ended)
	DrainAll(sys)
	sd := make(chan struct{})
	go func() { defer close(sd); _ = sys.Shutdown(3, context.Background(), "graceful, after restart") }()
	returned := false
	for i := 0; i < 5000 && !returned; i++ {
		select {
		case <-sd:
			returned = true
		default:
			time.Sleep(2 * time.Millisecond)
		}
	}
	sit("graceful shutdown of the restarted runner")
	if !returned {
		find("C11:shutdown-of-restarted-runner-does-not-return", "%s: every job this runner started has ended, yet a graceful Shutdown does not return within 10 s (a job loaded from the store counts as running?)", label)
	}
	return v
}

// DrainAll releases every task gate until, at a logical quiescence, no task is left inside the monitored runner: every
// job this runner started has then run to its end (a driver that leaves a task at its gate leaks the job's scheduler
// loop, which polls every 200 µs for the rest of the worker process's life)
func DrainAll(sys *core.Sys) bool {
	for i := 0; i < 500; i++ {
		if _, err := sys.Quiesce(core.QuiesceOpts{Watchdog: 20 * time.Second}); err != nil {
			return false
		}
		for _, j := range sys.ParkedJobs() {
			sys.Unpark(j)
		}
		w := sys.Gates.Waiting()
		st := sys.Gates.Stopping()
		if len(w) == 0 && len(st) == 0 {
			return drainUnlisted(sys)
		}
		for _, k := range w {
			sys.Gates.Release(k[0], k[1], core.Outcome{Kind: core.OutOK})
		}
		for _, k := range st {
			sys.Gates.ReleaseStop(k[0], k[1])
		}
	}
	return false
}

// drainUnlisted ends the jobs that are still executing but are not reported any more (a save drops the jobs of pipelines
// that are no longer defined, whatever their state): the quiescence detector cannot see them, so their loops are
// followed through the iteration counter instead
func drainUnlisted(sys *core.Sys) bool {
	v := sys.Snapshot(-1)
	ok := true
	for _, id := range sys.StartedJobs() {
		if v.ByID(id) != nil {
			continue
		}
		still := 0
		last := int64(-1)
		for i := 0; i < 20000 && still < 20; i++ {
			did := false
			for _, k := range sys.Gates.Waiting() {
				if k[0] == id {
					sys.Gates.Release(k[0], k[1], core.Outcome{Kind: core.OutOK})
					did = true
				}
			}
			for _, k := range sys.Gates.Stopping() {
				if k[0] == id {
					sys.Gates.ReleaseStop(k[0], k[1])
					did = true
				}
			}
			c, _ := sys.IterCount(id)
			if did || c != last {
				still = 0
			} else {
				still++
			}
			last = c
			time.Sleep(300 * time.Microsecond)
		}
		if still < 20 {
			ok = false
		}
	}
	return ok
}

func setBoolField(ptr any, name string, v bool) {
	f := reflect.ValueOf(ptr).Elem().FieldByName(name)
	if f.IsValid() && f.CanSet() && f.Kind() == reflect.Bool {
		f.SetBool(v)
	}
}

func getBoolField(val any, name string) bool {
	f := reflect.ValueOf(val).FieldByName(name)
	return f.IsValid() && f.Kind() == reflect.Bool && f.Bool()
}

// restartProps: which properties a finding about a restarted runner refutes
func restartProps(sig string) []string {
	if len(sig) > 4 && sig[:4] == "C03:" || sig == "C10:first-request-after-restart-not-started" {
		return []string{"C10", "C03", "C05"}
	}
	if sig == "C10:first-request-after-restart-rejected" {
		return []string{"C10", "C05"}
	}
	if len(sig) > 4 && sig[:4] == "C07:" {
		return []string{"C07", "C10", "C03"}
	}
	if len(sig) > 4 && sig[:4] == "C11:" {
		return []string{"C11", "C10"}
	}
	if len(sig) > 4 && sig[:4] == "C15:" || sig == "C10:ghost-holds-capacity-after-restart" {
		return []string{"C15", "C10"}
	}
	return []string{"C10"}
}

// checkRestarts: for every snapshot persisted during the history (explicit saves and the persist loop) start a fresh
// runner on it and compare with what was reported before
func (q *seqRun) checkRestarts() {
	final := q.view
	saves := q.rec.Saves()
	find := func(sig, format string, args ...any) {
		q.res.Findings = append(q.res.Findings, Finding{Props: restartProps(sig), Sig: sig, Detail: fmt.Sprintf(format, args...), Step: -1})
	}
	// what the HTTP API says about a finished job (GET /job/detail) must survive the restart as well: the handler
	// derives part of its answer from in-memory values (error values, times) that are rebuilt from the store
	liveAPI := core.NewAPI(q.sys.R, core.NewMemOutputStore(), "0123456789abcdef-harness-secret", false)
	detail := func(api *core.API, id string) (any, int) {
		code, body := api.Do("GET", "/job/detail", url.Values{"id": {id}}, nil)
		var v any
		if code == 200 && json.Unmarshal(body, &v) != nil {
			return nil, -1
		}
		return v, code
	}
	liveDetail := map[string]any{}
	// the specs in force at the end are used for the restart (pipelines may have been reloaded): use the union of names
	for n, rec := range saves {
		if rec.Err != nil {
			continue
		}
		file := filepath.Join(q.snapDir, fmt.Sprintf("snap-%d.json", n+1))
		if _, err := os.Stat(file); err != nil {
			continue
		}
		var ids []string
		nFinished, nRunning, nWaiting := 0, 0, 0
		for id, pj := range rec.Jobs {
			ids = append(ids, id)
			switch {
			case pj.Completed || pj.Canceled:
				nFinished++
			case pj.Start != nil:
				nRunning++
			default:
				nWaiting++
			}
		}
		sort.Strings(ids)
		q.res.sit("C10", fmt.Sprintf("snapshot finished=%d running=%d waiting=%d", min(nFinished, 6), min(nRunning, 3), min(nWaiting, 4)))
		sys2, err := RestartOn(file, q.specs, q.snapDir)
		if err != nil {
			find("C10:restart-fails-on-persisted-snapshot", "snapshot %d cannot be loaded by a new runner: %v", n+1, err)
			continue
		}
		label := fmt.Sprintf("snapshot %d of %d", n+1, len(saves))
		v := CheckRestartState(sys2, q.specs, ids, label, find, func(s string) { q.res.sit("C10", s) })
		var api2 *core.API
		for id, pj := range rec.Jobs {
			if !(pj.Completed || pj.Canceled) {
				continue
			}
			before := final.ByID(id)
			after := v.ByID(id)
			if before == nil || after == nil {
				continue
			}
			if diff := DiffJobReport(before, after); len(diff) > 0 {
				find("C10:finished-job-reported-differently-after-restart", "%s: finished job %s is reported differently after the restart: %v", label, q.jn(id), diff)
			}
			if _, ok := liveDetail[id]; !ok {
				liveDetail[id], _ = detail(liveAPI, id)
			}
			if api2 == nil {
				api2 = core.NewAPI(sys2.R, core.NewMemOutputStore(), "0123456789abcdef-harness-secret", false)
			}
			if _, still := sys2.ReadJob(id); !still {
				continue // (the probes' completions let the persist loop of the restarted runner apply retention meanwhile)
			}
			if d2, code := detail(api2, id); liveDetail[id] != nil {
				q.res.sit("C10", fmt.Sprintf("job detail over HTTP compared (canceled=%v error=%v)", before.Canceled, before.HasError))
				if code == 404 {
					if _, still := sys2.ReadJob(id); !still {
						continue
					}
				}
				if code != 200 || !reflect.DeepEqual(liveDetail[id], d2) {
					b1, _ := json.Marshal(liveDetail[id])
					b2, _ := json.Marshal(d2)
					find("C10:finished-job-reported-differently-after-restart", "%s: GET /job/detail of finished job %s answers differently after the restart (status %d): before %s, after %s", label, q.jn(id), code, truncateBytes(b1, 400), truncateBytes(b2, 400))
				}
			}
		}
		sys2.Close()
	}
}

// PreparedStoreCase: a store file "from an earlier run" with every mix of flags and task statuses, also states that only
// exist between two steps of the runner (all tasks done, job not yet completed)
func PreparedStoreCase(seed int64, workDir string) *HistResult {
	r := rand.New(rand.NewSource(seed))
	res := &HistResult{Seed: seed, Situations: map[string]map[string]struct{}{}, Evaluations: map[string]int{}}
	find := func(sig, format string, args ...any) {
		res.Findings = append(res.Findings, Finding{Props: restartProps(sig), Sig: sig, Detail: fmt.Sprintf(format, args...), Step: -1})
	}
	specs := GenSpecs(r, HistOpts{NPipes: 1 + r.Intn(2), Pipe: gen.PipeOpts{MaxTasks: 4, DelayProb: 0.3}})
	for i := range specs {
		if specs[i].Def.StartDelay > 0 {
			specs[i].Def.StartDelay = gen.LongDelay
		}
	}
	zones := []*time.Location{time.UTC, time.FixedZone("CEST", 2*3600), time.FixedZone("X", -(9*3600 + 1800))}
	base := time.Date(2025, 3, 30, 1, 59, 59, 999999999, time.UTC)
	statuses := []string{"waiting", "running", "done", "error", "canceled", "skipped"}
	data := &store.PersistedData{}
	n := r.Intn(9)
	var ids []string
	for i := 0; i < n; i++ {
		sp := specs[r.Intn(len(specs))]
		id, _ := uuid.NewV4()
		created := base.Add(time.Duration(r.Int63n(int64(100 * time.Hour)))).In(zones[r.Intn(len(zones))])
		pj := store.PersistedJob{ID: id, Pipeline: sp.Name, Created: created, User: []string{"", "j.doe", "ü\"ser\\"}[r.Intn(3)], Variables: gen.RandVars(r)}
		state := r.Intn(6) // 0 waiting, 1 running, 2 completed ok, 3 completed failed, 4 canceled unstarted, 5 running-with-all-tasks-done
		if state != 0 && state != 4 {
			st := created.Add(time.Duration(r.Int63n(int64(time.Hour))) + 1).In(zones[r.Intn(len(zones))])
			pj.Start = &st
		}
		if state == 2 || state == 3 {
			en := pj.Start.Add(time.Duration(r.Int63n(int64(time.Hour))) + 123456789)
			pj.End = &en
			pj.Completed = true
			pj.Canceled = r.Intn(4) == 0
		}
		if state == 4 {
			pj.Canceled = true
		}
		if state == 3 {
			e := "exit status 3"
			pj.LastError = &e
		}
		var names []string
		for tn := range sp.Def.Tasks {
			names = append(names, tn)
		}
		sort.Strings(names)
		for _, tn := range names {
			td := sp.Def.Tasks[tn]
			pt := store.PersistedTask{Name: tn, Script: td.Script, DependsOn: td.DependsOn, AllowFailure: td.AllowFailure}
			switch state {
			case 0, 4:
				pt.Status = "waiting"
			case 1:
				pt.Status = statuses[r.Intn(3)]
			case 2:
				pt.Status = "done"
			case 3:
				pt.Status = statuses[2+r.Intn(4)]
			case 5:
				pt.Status = "done"
			}
			if pt.Status != "waiting" && pj.Start != nil {
				ts := pj.Start.Add(time.Millisecond)
				pt.Start = &ts
				if pt.Status != "running" {
					te := ts.Add(time.Second + 7)
					pt.End = &te
				}
			}
			if pt.Status == "error" {
				if r.Intn(3) != 0 {
					// (set by name: the harness keeps building if the persisted format changes)
					setBoolField(&pt, "Errored", true)
					e := []string{"exit status 1", "üñï \"quoted\"\nline", "x"}[r.Intn(3)]
					pt.Error = &e
					pt.ExitCode = int16(1 + r.Intn(254))
				} // else: a task whose stage failed without the runner reporting it (status error, not errored)
			}
			pj.Tasks = append(pj.Tasks, pt)
		}
		data.Jobs = append(data.Jobs, pj)
		ids = append(ids, id.String())
		res.sit("C10", fmt.Sprintf("prepared job state=%d tasks=%d", state, len(pj.Tasks)))
		res.sit("C03", fmt.Sprintf("restart on a store with a job in state %d: the next request must not be stranded", state))
		res.sit("C15", fmt.Sprintf("restart on a store with a job in state %d: listings vs job flags", state))
		res.sit("C05", fmt.Sprintf("restart on a store with a job in state %d: the first request is judged like on an idle pipeline", state))
		res.sit("C11", fmt.Sprintf("restart on a store with a job in state %d: graceful shutdown returns", state))
		if sp.Def.StartDelay > 0 {
			res.sit("C07", fmt.Sprintf("restart on a store with a job of a delayed pipeline in state %d: the next job waits for its delay and starts then", state))
		}
	}
	dir, err := os.MkdirTemp(workDir, "prepared-")
	if err != nil {
		res.Inconclusive = err.Error()
		return res
	}
	defer os.RemoveAll(dir)
	js, _ := store.NewJSONDataStore(dir)
	if err := js.Save(data); err != nil {
		res.Inconclusive = err.Error()
		return res
	}
	sys, err := RestartOn(filepath.Join(dir, "data.json"), specs, dir)
	if err != nil {
		find("C10:restart-fails-on-persisted-snapshot", "a prepared snapshot cannot be loaded: %v", err)
		return res
	}
	defer sys.Close()
	v := CheckRestartState(sys, specs, ids, "prepared snapshot", find, func(s string) { res.sit("C10", s) })
	// finished jobs are reported exactly as persisted
	for _, pj := range data.Jobs {
		if !(pj.Completed || pj.Canceled) {
			continue
		}
		after := v.ByID(pj.ID.String())
		if after == nil {
			continue
		}
		exp := core.JobSnap{ID: pj.ID.String(), Pipeline: pj.Pipeline, Completed: pj.Completed, Canceled: pj.Canceled, Created: pj.Created, Start: pj.Start, End: pj.End, User: pj.User, Variables: pj.Variables}
		if pj.LastError != nil {
			exp.HasError, exp.LastError = true, *pj.LastError
		}
		for _, pt := range pj.Tasks {
			ts := core.TaskSnap{Name: pt.Name, Status: pt.Status, Start: pt.Start, End: pt.End, Skipped: pt.Skipped, ExitCode: pt.ExitCode, Errored: getBoolField(pt, "Errored"), DependsOn: pt.DependsOn}
			if pt.Error != nil {
				ts.HasError, ts.Error = true, *pt.Error
			}
			exp.Tasks = append(exp.Tasks, ts)
		}
		if diff := DiffJobReport(&exp, after); len(diff) > 0 {
			find("C10:finished-job-reported-differently-after-restart", "prepared snapshot: finished job of %s is reported differently from what was persisted: %v", pj.Pipeline, diff)
		}
	}
	res.Events = len(data.Jobs)
	if len(res.Findings) > 0 {
		res.Sample = map[string]any{"seed": seed, "jobs": len(data.Jobs)}
	}
	_ = definition.QueueStrategyAppend
	return res
}

// RunUnencodableSaveThenRestartCase (C10 on the REAL JsonDataStore): the embedding application schedules a job whose
// variables cannot be encoded as JSON (+Inf / NaN / a channel - legal Go values in ScheduleOpts.Variables); every save fails
// from then on. A save that fails must leave the last good snapshot in place: a runner restarted on the directory loads,
// and reports the jobs of that snapshot.
func RunUnencodableSaveThenRestartCase(seed int64, workDir string) *HistResult {
	res := &HistResult{Seed: seed, Situations: map[string]map[string]struct{}{}, Evaluations: map[string]int{}}
	find := func(sig, format string, args ...any) {
		res.Findings = append(res.Findings, Finding{Props: []string{"C10", "C09"}, Sig: sig, Detail: fmt.Sprintf(format, args...), Step: -1})
	}
	dir, err := os.MkdirTemp(workDir, "unenc-")
	if err != nil {
		res.Inconclusive = err.Error()
		return res
	}
	defer os.RemoveAll(dir)
	js, err := store.NewJSONDataStore(dir)
	if err != nil {
		res.Inconclusive = err.Error()
		return res
	}
	def := definition.PipelineDef{Concurrency: 2, SourcePath: "gen", Tasks: map[string]definition.TaskDef{"t": {Script: []string{"true"}}}}
	defs := &definition.PipelinesDef{Pipelines: map[string]definition.PipelineDef{"p": def}}
	sys, err := core.NewSys(defs, js, core.NewMemOutputStore())
	if err != nil {
		res.Inconclusive = err.Error()
		return res
	}
	good := 1 + int(seed%3)
	var goodIDs []string
	for i := 0; i < good; i++ {
		id, cls := sys.Schedule(0, "p", map[string]interface{}{"n": float64(i), "s": "x"}, "u")
		if cls != "ok" {
			res.Inconclusive = "schedule: " + cls
			sys.Close()
			return res
		}
		goodIDs = append(goodIDs, id)
		DrainAll(sys)
	}
	sys.Save(1) // the last good snapshot: all jobs so far have finished
	bad := []interface{}{math.Inf(1), math.NaN(), math.Inf(-1), make(chan int)}[int(seed/3)%4]
	badID, cls := sys.Schedule(0, "p", map[string]interface{}{"bad": bad}, "u")
	if cls != "ok" {
		res.Inconclusive = "schedule with an unencodable variable: " + cls
		sys.Close()
		return res
	}
	for i := 0; i < 1+int(seed%2); i++ {
		sys.Save(1) // cannot be encoded: fails
	}
	DrainAll(sys)
	sys.Save(1)
	sys.Close()
	res.sit("C10", fmt.Sprintf("saves fail because a job variable cannot be encoded (%T %v) after %d good jobs; restart", bad, bad, good))
	res.Evaluations["C10"]++
	specs := []gen.PipeSpec{{Name: "p", Def: def, Graph: gen.Graph{Names: []string{"t"}, Deps: map[string][]string{}}}}
	sys2, err := RestartOn(filepath.Join(dir, "data.json"), specs, dir)
	if err != nil {
		find("C10:restart-fails-on-persisted-snapshot", "saves failed because a job variable (%T) cannot be encoded; afterwards a runner cannot be started on the data directory any more: %v", bad, err)
		return res
	}
	defer sys2.Close()
	defer DrainAll(sys2)
	v := sys2.Snapshot(-1)
	for i, id := range goodIDs {
		j := v.ByID(id)
		if j == nil {
			find("C10:jobs-lost-or-duplicated-by-restart", "job %d, finished and saved before the saves began to fail, is not reported after the restart", i)
		} else if !j.Completed {
			find("C10:finished-job-reported-differently-after-restart", "job %d, finished and saved before the saves began to fail, is reported completed=%v after the restart", i, j.Completed)
		}
	}
	if j := v.ByID(badID); j != nil {
		find("C10:jobs-lost-or-duplicated-by-restart", "the job whose variables cannot be encoded is reported after the restart although no save can have carried it")
	}
	return res
}

// RunPurgeAllThenRestartCase (C10 on the REAL JsonDataStore; seed C10-m): a save that leaves NO job at all - every job
// belonged to a pipeline that a reload removed, or every finished job is past its retention period - is a snapshot like
// any other: a runner restarted on the data directory reports exactly the jobs that the old runner reported after its last
// save, in particular none that the save had removed. Variants (seed%4): 0 the only pipeline with jobs is removed, 1 all
// pipelines are removed, 2 retention_period of one nanosecond, 3 control (one of two pipelines with jobs is removed).
func RunPurgeAllThenRestartCase(seed int64, workDir string) *HistResult {
	res := &HistResult{Seed: seed, Situations: map[string]map[string]struct{}{}, Evaluations: map[string]int{}}
	find := func(sig, format string, args ...any) {
		res.Findings = append(res.Findings, Finding{Props: []string{"C10", "C12"}, Sig: sig, Detail: fmt.Sprintf(format, args...), Step: -1})
	}
	dir, err := os.MkdirTemp(workDir, "purge-")
	if err != nil {
		res.Inconclusive = err.Error()
		return res
	}
	defer os.RemoveAll(dir)
	js, err := store.NewJSONDataStore(dir)
	if err != nil {
		res.Inconclusive = err.Error()
		return res
	}
	variant := int(seed % 4)
	mkDef := func() definition.PipelineDef {
		return definition.PipelineDef{Concurrency: 2, SourcePath: "gen", Tasks: map[string]definition.TaskDef{"t": {Script: []string{"true"}}}}
	}
	pipes := map[string]definition.PipelineDef{"p": mkDef(), "q": mkDef(), "idle": mkDef()}
	if variant == 2 {
		d := mkDef()
		d.RetentionPeriod = time.Nanosecond
		pipes["p"] = d
	}
	sys, err := core.NewSys(&definition.PipelinesDef{Pipelines: pipes}, js, core.NewMemOutputStore())
	if err != nil {
		res.Inconclusive = err.Error()
		return res
	}
	withJobs := []string{"p"}
	if variant == 1 || variant == 3 {
		withJobs = []string{"p", "q"}
	}
	n := 0
	for _, p := range withJobs {
		for i := 0; i < 1+int(seed/4)%3; i++ {
			if _, cls := sys.Schedule(0, p, map[string]interface{}{"n": float64(i)}, "u"); cls != "ok" {
				res.Inconclusive = "schedule: " + cls
				sys.Close()
				return res
			}
			n++
			if variant != 2 {
				DrainAll(sys)
			}
		}
	}
	sys.Save(1) // the jobs reach the store (variant 2: while they are still running or waiting - a save never removes such a job)
	DrainAll(sys)
	after := map[string]definition.PipelineDef{}
	for name, d := range pipes {
		after[name] = d
	}
	switch variant {
	case 0, 3:
		delete(after, "p")
	case 1:
		after = map[string]definition.PipelineDef{}
	}
	if variant != 2 {
		sys.Replace(1, &definition.PipelinesDef{Pipelines: after}, "remove pipelines")
	}
	for i := 0; i < 1+int(seed/12)%2; i++ {
		sys.Save(1)
	}
	last := sys.Snapshot(-1)
	sys.Close()
	res.sit("C10", fmt.Sprintf("variant %d: %d finished jobs, then a save after which %d jobs are reported; restart", variant, n, len(last.Jobs)))
	res.Evaluations["C10"]++
	var specs []gen.PipeSpec
	for name, d := range after {
		specs = append(specs, gen.PipeSpec{Name: name, Def: d, Graph: gen.Graph{Names: []string{"t"}, Deps: map[string][]string{}}})
	}
	sort.Slice(specs, func(i, j int) bool { return specs[i].Name < specs[j].Name })
	if _, err := os.Stat(filepath.Join(dir, "data.json")); err != nil {
		if len(last.Jobs) > 0 {
			find("C10:jobs-lost-or-duplicated-by-restart", "variant %d: %d jobs are reported after the last save, but there is no data file", variant, len(last.Jobs))
		}
		return res
	}
	sys2, err := RestartOn(filepath.Join(dir, "data.json"), specs, dir)
	if err != nil {
		find("C10:restart-fails-on-persisted-snapshot", "variant %d: a runner cannot be started on the data directory after a save that left %d jobs: %v", variant, len(last.Jobs), err)
		return res
	}
	defer sys2.Close()
	v := sys2.Snapshot(-1)
	for i := range v.Jobs {
		if last.ByID(v.Jobs[i].ID) == nil {
			find("C10:jobs-lost-or-duplicated-by-restart", "variant %d: job %s of pipeline %s is reported after the restart, but the old runner did not report it any more after its last save (%d jobs reported then, %d after the restart): the save that removed it did not reach the store", variant, v.Jobs[i].ID, v.Jobs[i].Pipeline, len(last.Jobs), len(v.Jobs))
			break
		}
	}
	if variant != 2 {
		for i := range last.Jobs {
			if v.ByID(last.Jobs[i].ID) == nil {
				find("C10:jobs-lost-or-duplicated-by-restart", "variant %d: job %s was reported after the last save and is not reported after the restart", variant, last.Jobs[i].ID)
				break
			}
		}
	}
	return res
}
