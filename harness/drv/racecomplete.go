package drv

import (
	"fmt"
	"time"

	"github.com/Flowpack/prunner/definition"

	"pxverif/core"
)

// RunScheduleRacesCompletionCase (C03, also C01 / C05; seed C03-m): an event that frees a slot - the last task of a running
// job ends (success / failure), or the running job is canceled - arrives INSIDE the accept path of a schedule request for
// the same pipeline (injected at the instant the job id is generated, as the reload of C16's racing case; if the accept
// path holds the runner's lock there, the event simply waits and takes effect right after the request). Whatever the order
// in which the two take effect, the outcome is one of the two sequential ones; the oracles are order-agnostic:
//
//   - at logical quiescence no accepted, un-canceled job waits (delay 0) while a slot of its pipeline is free (C03),
//   - never more jobs executing than the limit (C01), never more jobs waiting than the queue limit (C05),
//   - after all gates were released every accepted job is terminal and every job that was not canceled ran (C03).
func RunScheduleRacesCompletionCase(seed int64) *HistResult {
	res := &HistResult{Seed: seed, Situations: map[string]map[string]struct{}{}, Evaluations: map[string]int{}}
	find := func(props []string, sig, format string, args ...any) {
		res.Findings = append(res.Findings, Finding{Props: props, Sig: sig, Detail: fmt.Sprintf(format, args...), Step: -1})
	}
	conc := 1 + int(seed%2)
	event := int(seed/2) % 3 // 0 task ends ok, 1 task fails, 2 running job canceled
	limits := []*int{nil, intp(1), intp(2), intp(0)}
	limit := limits[int(seed/6)%len(limits)]
	replace := (seed/24)%2 == 1 && limit != nil && *limit > 0
	preWaiting := int(seed/48) % 2
	if limit != nil && *limit == 0 {
		preWaiting = 0
	}
	def := definition.PipelineDef{Concurrency: conc, QueueLimit: limit, SourcePath: "gen", Tasks: map[string]definition.TaskDef{"t": {Script: []string{"true"}}}}
	if replace {
		def.QueueStrategy = definition.QueueStrategyReplace
	}
	sys, err := core.NewSys(&definition.PipelinesDef{Pipelines: map[string]definition.PipelineDef{"p": def}}, nil, core.NewMemOutputStore())
	if err != nil {
		res.Inconclusive = err.Error()
		return res
	}
	defer sys.Close()
	defer DrainAll(sys)
	defer core.SetUUIDHook(nil)
	var accepted []string
	for i := 0; i < conc+preWaiting; i++ {
		id, cls := sys.Schedule(0, "p", nil, "u")
		if cls != "ok" {
			res.Inconclusive = "prefix schedule: " + cls
			return res
		}
		accepted = append(accepted, id)
	}
	if _, err := sys.Quiesce(core.QuiesceOpts{Watchdog: 20 * time.Second}); err != nil {
		res.Inconclusive = err.Error()
		return res
	}
	victim := accepted[0]
	fired := false
	core.SetUUIDHook(func() {
		fired = true
		switch event {
		case 0:
			sys.Release(victim, "t", core.Outcome{Kind: core.OutOK})
		case 1:
			sys.Release(victim, "t", core.Outcome{Kind: core.OutExitFail, Code: 3})
		case 2:
			go sys.Cancel(7, victim)
		}
		// give the event the chance to take effect now, if the accept path does not hold the lock here: the runner of the
		// job is finished (Finish event) when its completion has been handled
		for i := 0; i < 100; i++ {
			for _, e := range sys.Log.Tail(12) {
				if e.Kind == core.KFinish && e.Job == victim {
					return
				}
			}
			time.Sleep(50 * time.Microsecond)
		}
	})
	id, cls := sys.Schedule(0, "p", nil, "racer")
	core.SetUUIDHook(nil)
	if !fired {
		// rejected before an id was generated (queue_limit 0 with all slots taken): let the event happen afterwards
		switch event {
		case 0, 1:
			sys.Release(victim, "t", core.Outcome{Kind: core.OutOK})
		case 2:
			sys.Cancel(7, victim)
		}
	}
	if cls == "ok" {
		accepted = append(accepted, id)
	}
	v, err := sys.Quiesce(core.QuiesceOpts{Watchdog: 20 * time.Second})
	if err != nil {
		res.Inconclusive = "watchdog: " + err.Error()
		return res
	}
	sit := fmt.Sprintf("slot-freeing event %d inside the accept path: concurrency %d, queue limit %s, replace=%v, %d waiting before; request %s", event, conc, limStr(limit), replace, preWaiting, cls)
	for _, p := range []string{"C03", "C01", "C05"} {
		res.sit(p, sit)
		res.Evaluations[p]++
	}
	judge := func(v core.View, when string) {
		exec, waiting := 0, 0
		var firstWaiting string
		for i := range v.Jobs {
			j := &v.Jobs[i]
			switch {
			case j.Executing():
				exec++
			case j.Waiting():
				waiting++
				if firstWaiting == "" {
					firstWaiting = j.ID
				}
			}
		}
		if exec > conc {
			find([]string{"C01"}, "C01:more-jobs-executing-than-the-limit", "%s: %d jobs execute, concurrency %d (%s)", when, exec, conc, sit)
		}
		if limit != nil && waiting > *limit {
			find([]string{"C05"}, "C05:more-jobs-waiting-than-queue-limit", "%s: %d jobs wait, queue limit %d (%s)", when, waiting, *limit, sit)
		}
		if waiting > 0 && exec < conc {
			find([]string{"C03"}, "C03:stranded-with-free-slot", "%s: job %s (no start delay) is still waiting at quiescence although only %d of %d slots are used - no later event will start it (%s)", when, firstWaiting[:8], exec, conc, sit)
		}
	}
	judge(v, "after the request and the event")
	if !DrainAll(sys) {
		res.Inconclusive = "watchdog: the jobs did not drain"
		return res
	}
	v, err = sys.Quiesce(core.QuiesceOpts{Watchdog: 20 * time.Second})
	if err != nil {
		res.Inconclusive = "watchdog: " + err.Error()
		return res
	}
	judge(v, "after every task was allowed to end")
	for i, id := range accepted {
		j := v.ByID(id)
		switch {
		case j == nil:
			find([]string{"C03", "C15"}, "C03:accepted-job-not-reported", "accepted job %d is not reported any more (%s)", i, sit)
		case !j.Terminal():
			find([]string{"C03"}, "C03:accepted-job-never-finished", "accepted job %d is reported started=%v completed=%v canceled=%v after every task was allowed to end (%s)", i, j.Start != nil, j.Completed, j.Canceled, sit)
		}
	}
	res.Events = sys.Log.Len()
	return res
}

func intp(n int) *int { return &n }

func limStr(l *int) string {
	if l == nil {
		return "none"
	}
	return fmt.Sprint(*l)
}
