package drv

import (
	"fmt"
	"sync/atomic"
	"time"

	"github.com/Flowpack/prunner/definition"

	"pxverif/core"
	"pxverif/gen"
)

// RunSlowStoreCase (C07): the data store is slow - a save is in progress (held inside the store's Save by the harness)
// when the start delay of a waiting job passes and when the next requests of a replace burst arrive. The delay is a
// lower bound and nothing else: the job starts as soon as its delay has passed and a slot is free, whatever the
// persistence layer is doing at that moment; requests are answered. "Blocked" is decided with a 10 s bound on calls
// that take microseconds on the unchanged tree.
func RunSlowStoreCase(seed int64) *HistResult {
	res := &HistResult{Seed: seed, Situations: map[string]map[string]struct{}{}, Evaluations: map[string]int{}}
	find := func(sig, format string, args ...any) {
		res.Findings = append(res.Findings, Finding{Props: []string{"C07"}, Sig: sig, Detail: fmt.Sprintf(format, args...), Step: -1})
	}
	var hold atomic.Bool
	entered := make(chan struct{}, 64)
	release := make(chan struct{})
	st := &core.RecStore{}
	st.Fail = func(n int) error {
		if hold.Load() {
			entered <- struct{}{}
			<-release
		}
		return nil
	}
	one := 1
	delayed := definition.PipelineDef{Concurrency: 1, QueueLimit: &one, QueueStrategy: definition.QueueStrategyReplace, StartDelay: gen.LongDelay, SourcePath: "gen", Tasks: map[string]definition.TaskDef{"t": {Script: []string{"true"}}}}
	plain := definition.PipelineDef{Concurrency: 1, SourcePath: "gen", Tasks: map[string]definition.TaskDef{"t": {Script: []string{"true"}}}}
	sys, err := core.NewSys(&definition.PipelinesDef{Pipelines: map[string]definition.PipelineDef{"delayed": delayed, "plain": plain}}, st, core.NewMemOutputStore())
	if err != nil {
		res.Inconclusive = err.Error()
		return res
	}
	defer sys.Close()
	defer DrainAll(sys)
	released := false
	defer func() {
		if !released {
			hold.Store(false)
			close(release)
		}
	}()
	first, cls := sys.Schedule(0, "delayed", nil, "u")
	if cls != "ok" {
		res.Inconclusive = "schedule: " + cls
		return res
	}
	if _, err := sys.Quiesce(core.QuiesceOpts{Watchdog: 20 * time.Second}); err != nil {
		res.Inconclusive = err.Error()
		return res
	}
	hold.Store(true)
	go sys.Save(1)
	select {
	case <-entered:
	case <-time.After(20 * time.Second):
		res.Inconclusive = "the save did not reach the store"
		return res
	}
	// a save is in progress now (and stays so until released)
	within := func(what string, f func()) bool {
		done := make(chan struct{})
		go func() { defer close(done); f() }()
		select {
		case <-done:
			return true
		case <-time.After(10 * time.Second):
			find("C07:blocked-by-a-save-in-progress", "%s did not return within 10 s while the store was busy with a save (the store is slow, the runner must not be)", what)
			return false
		}
	}
	variant := int(seed % 2)
	target := first
	ok := true
	if variant == 1 {
		// the burst goes on: a newer request replaces the waiting job, its delay passes
		var second string
		ok = within("a schedule request for the delayed pipeline (replace burst)", func() { second, _ = sys.Schedule(0, "delayed", nil, "u") })
		if ok && second != "" {
			target = second
		}
	}
	if ok {
		ok = within("the start-delay handler of the waiting job", func() { sys.FireDelay(0, target) })
	}
	if ok {
		if j, found := sys.ReadJob(target); found && j.Start == nil && !j.Canceled {
			find("C07:delay-expired-and-slot-free-but-not-started", "the delay of the waiting job has passed and the pipeline is idle, but the job did not start while the store was busy with a save")
		}
		within("a schedule request for another pipeline", func() { sys.Schedule(0, "plain", nil, "u") })
	}
	res.sit("C07", fmt.Sprintf("start delay passes while a save is in progress in a slow store (variant %d)", variant))
	res.Evaluations["C07"]++
	hold.Store(false)
	close(release)
	released = true
	return res
}
