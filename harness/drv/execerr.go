package drv

import (
	"fmt"
	"os"
	"path/filepath"
	"strings"
	"time"

	"github.com/Flowpack/prunner/definition"

	"pxverif/gen"
)

// RunExecErrorCase (C02, real task runner): a script line does something visible and then names a program that the
// operating system refuses to start - the file is open for writing (ETXTBSY), is not executable (EACCES), has a
// shebang that names no interpreter (ENOENT), or is a directory. However the runner deals with the refusal, what the
// line did before it happened ONCE, the lines after it and the dependents of the task only run if the task is reported
// successful, and a job whose task failed is no plain success.
func RunExecErrorCase(seed int64, workDir string) *HistResult {
	res := &HistResult{Seed: seed, Situations: map[string]map[string]struct{}{}, Evaluations: map[string]int{}}
	find := func(sig, format string, args ...any) {
		res.Findings = append(res.Findings, Finding{Props: []string{"C02", "C08"}, Sig: sig, Detail: fmt.Sprintf(format, args...), Step: -1})
	}
	dir, err := os.MkdirTemp(workDir, "execerr-")
	if err != nil {
		res.Inconclusive = err.Error()
		return res
	}
	defer os.RemoveAll(dir)
	kinds := []string{"text file busy", "not executable", "shebang without interpreter", "directory"}
	kind := kinds[int(seed)%len(kinds)]
	tool := filepath.Join(dir, "tool.sh")
	trace := filepath.Join(dir, "trace.log")
	switch kind {
	case "text file busy":
		_ = os.WriteFile(tool, []byte("#!/bin/sh\necho tool >> "+shQuote(trace)+"\n"), 0o755)
		f, err := os.OpenFile(tool, os.O_WRONLY, 0)
		if err != nil {
			res.Inconclusive = err.Error()
			return res
		}
		defer f.Close() // held open for writing while the job runs
	case "not executable":
		_ = os.WriteFile(tool, []byte("#!/bin/sh\necho tool >> "+shQuote(trace)+"\n"), 0o644)
	case "shebang without interpreter":
		_ = os.WriteFile(tool, []byte("#!/no/such/interpreter\necho tool\n"), 0o755)
	case "directory":
		_ = os.Mkdir(tool, 0o755)
	}
	sep := []string{"; ", " && "}[int(seed/4)%2]
	allow := (seed/8)%2 == 1
	def := definition.PipelineDef{Concurrency: 1, SourcePath: "gen", Tasks: map[string]definition.TaskDef{
		"a": {Script: []string{"echo a-before >> " + shQuote(trace) + sep + shQuote(tool), "echo a-after >> " + shQuote(trace)}, AllowFailure: allow},
		"b": {Script: []string{"echo b >> " + shQuote(trace)}, DependsOn: []string{"a"}},
	}}
	specs := []gen.PipeSpec{{Name: "p", Def: def, Graph: gen.Graph{Names: []string{"a", "b"}, Deps: map[string][]string{"b": {"a"}}}}}
	sys, _, _, err := realSys(specs, dir, 300*time.Millisecond)
	if err != nil {
		res.Inconclusive = err.Error()
		return res
	}
	defer sys.Close()
	id, cls := sys.Schedule(0, "p", nil, "u")
	if cls != "ok" {
		res.Inconclusive = "schedule: " + cls
		return res
	}
	if !waitJobs(sys, []string{id}, 60*time.Second) {
		res.Inconclusive = "watchdog: job did not finish"
		return res
	}
	j, _ := sys.ReadJob(id)
	b, _ := os.ReadFile(trace)
	count := map[string]int{}
	for _, l := range strings.Split(strings.TrimSpace(string(b)), "\n") {
		if l != "" {
			count[l]++
		}
	}
	stA, stB := "?", "?"
	if t := j.Task("a"); t != nil {
		stA = t.Status
	}
	if t := j.Task("b"); t != nil {
		stB = t.Status
	}
	sit := fmt.Sprintf("a script line names a program that cannot be started (%s, after %q, allow_failure=%v): task reported %s", kind, strings.TrimSpace(sep), allow, stA)
	res.sit("C02", sit)
	res.sit("C08", sit)
	res.Evaluations["C02"]++
	res.Evaluations["C08"]++
	res.journalf("%s: a=%s b=%s completed=%v canceled=%v error=%q trace=%v", kind, stA, stB, j.Completed, j.Canceled, j.LastError, count)
	if count["tool"] > 0 {
		res.Inconclusive = "the program could be started on this system (" + kind + ")"
		return res
	}
	if count["a-before"] != 1 {
		find("C02:command-executed-more-than-once", "the script line of task a ran its first command %d times in one job (the program after it could not be started: %s); task a is reported %s", count["a-before"], kind, stA)
	}
	if count["a-after"] > 1 || count["b"] > 1 {
		find("C02:command-executed-more-than-once", "trace of one job: %v", count)
	}
	if stA != "done" {
		if count["a-after"] > 0 {
			find("C02:script-continued-after-a-failed-line", "task a is reported %s, yet the line after the one that failed was executed", stA)
		}
		if count["b"] > 0 && !allow {
			find("C02:dependent-of-failed-task-ran", "task a is reported %s (program cannot be started: %s), yet its dependent b was executed", stA, kind)
		}
		if !allow && j.Completed && !j.Canceled && !j.HasError {
			find("C08:job-with-failed-task-reported-plain-success", "task a is reported %s, yet the job is reported completed, not canceled and without error", stA)
		}
	} else if count["a-after"] != 1 && !allow {
		// (an allowed failure is reported "done" by this code base's convention: the rest of the script is not run then)
		find("C02:task-reported-done-without-running-its-script", "task a is reported done but its last line ran %d times", count["a-after"])
	}
	if allow {
		// the failure of an allow_failure task neither fails the job nor blocks its dependents
		if count["b"] != 1 || stB != "done" || j.Canceled || !j.Completed || j.HasError {
			find("C08:allowed-failure-failed-the-job", "an allow_failure task failed because its program could not be started (%s): dependent b ran %d times and is reported %s, job completed=%v canceled=%v error=%q", kind, count["b"], stB, j.Completed, j.Canceled, j.LastError)
		}
	}
	return res
}
