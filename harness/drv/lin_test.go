//go:build verif

package drv

import (
	"testing"
	"time"

	"pxverif/core"
)

// sanity of the linearizability checker itself: a real stress history is accepted, the same history with one
// manipulated observation is rejected
func TestLinCheckerRejectsManipulatedHistory(t *testing.T) {
	core.SetPause(200 * time.Microsecond)
	rejected, accepted := 0, 0
	for seed := int64(1); seed <= 12; seed++ {
		sr := RunStress(seed, StressOpts{Schedulers: 3, Cancelers: 2, Readers: 2, OpsPerClient: 8, MaxPauseUs: 100})
		if sr.Inconclusive != "" {
			t.Fatal(sr.Inconclusive)
		}
		v, _, n := CheckLinearizable(sr, func(s string) string { return s })
		if v != "ok" {
			t.Fatalf("seed %d: real history judged %s (%d ops)", seed, v, n)
		}
		accepted++
		// manipulate: the first snapshot that shows a waiting job reports it as not waiting
		done := false
		for i := range sr.Log {
			e := &sr.Log[i]
			if sum, ok := e.Data.(core.ViewSummary); ok && e.Kind == core.KRet && !done {
				for p, w := range sum.Waiting {
					if len(w) > 0 {
						nw := core.ViewSummary{Running: sum.Running, Waiting: map[string][]string{}}
						for k, x := range sum.Waiting {
							nw.Waiting[k] = x
						}
						nw.Waiting[p] = w[1:]
						e.Data = nw
						done = true
						break
					}
				}
			}
		}
		if done {
			if v, _, _ := CheckLinearizable(sr, func(s string) string { return s }); v == "illegal" {
				rejected++
			} else {
				// the manipulated observation may be concurrent with the start of that job: still linearizable
				t.Logf("seed %d: manipulated history judged %s", seed, v)
			}
		}
	}
	if rejected < 3 {
		t.Fatalf("only %d manipulated histories were produced/rejected (%d accepted)", rejected, accepted)
	}
}
