package drv

import (
	"bytes"
	"context"
	"fmt"
	"math/rand"
	"os"
	"path/filepath"
	"sort"
	"strings"
	"sync/atomic"
	"time"

	"github.com/Flowpack/prunner/definition"

	"pxverif/gen"
)

// ProcShape is one process tree shape a task script can create without leaving its process group
type ProcShape struct {
	Name         string
	Lines        []string // script lines; MARK is replaced by the marker assignment
	Leaves       int      // number of long-living processes expected to carry the marker
	AllowFailure bool     // the task is marked allow_failure
	// DetachedIgnorer: the shape contains a process that ignores SIGINT and does not hold the task's output pipe while the
	// process the runner waits for ends on SIGINT: it outlives the report until the kill timeout (known finding D9)
	DetachedIgnorer bool
}

// ProcShapes lists the grammar's productions (nesting, background jobs, pipelines, subshells, INT-ignoring children)
func ProcShapes() []ProcShape {
	return []ProcShape{
		{Name: "plain-foreground", Lines: []string{"MARK sleep 300"}, Leaves: 1},
		{Name: "nested-bash-depth2", Lines: []string{`MARK bash -c "bash -c 'sleep 300'"`}, Leaves: 1},
		{Name: "nested-bash-depth4", Lines: []string{"MARK NEST 4"}, Leaves: 6},
		{Name: "shell-background-with-wait", Lines: []string{`MARK bash -c 'sleep 300 & sleep 301 & wait'`}, Leaves: 2},
		{Name: "shell-background-then-foreground", Lines: []string{`MARK bash -c 'sleep 300 & exec sleep 301'`}, Leaves: 2},
		{Name: "interp-background-then-foreground", Lines: []string{"MARK sleep 300 &", "MARK sleep 301"}, Leaves: 2},
		{Name: "pipeline-3", Lines: []string{"MARK sleep 300 | MARK sleep 301 | MARK cat"}, Leaves: 3},
		{Name: "pipeline-in-bash", Lines: []string{`MARK bash -c 'sleep 300 | sleep 301 | cat >/dev/null'`}, Leaves: 3},
		{Name: "subshell", Lines: []string{"(MARK sleep 300; true)"}, Leaves: 1},
		{Name: "bash-subshell-group", Lines: []string{`MARK bash -c '(sleep 300; true) & (sleep 301) & wait'`}, Leaves: 2},
		{Name: "ignore-int-child", Lines: []string{`MARK bash -c 'trap "" INT; sleep 300'`}, Leaves: 1},
		{Name: "ignore-int-and-fork-grandchild", Lines: []string{`MARK bash -c 'trap "" INT; sleep 300 & sleep 301; wait'`}, Leaves: 2},
		{Name: "slow-exit-on-int", Lines: []string{`MARK bash -c 'trap "sleep 0.1; exit 0" INT; sleep 300 & wait'`}, Leaves: 1},
		{Name: "two-commands-sequential", Lines: []string{"MARK true", `MARK bash -c 'sleep 300 & wait'`}, Leaves: 1},
		{Name: "stdin-redirected-parent-with-children", Lines: []string{`MARK bash -c 'sleep 300 & sleep 301 & wait' </dev/null`}, Leaves: 2},
		{Name: "pipe-consumer-with-children", Lines: []string{`echo x | MARK bash -c 'cat >/dev/null; sleep 300 & sleep 301; wait'`}, Leaves: 2},
		{Name: "heredoc-stdin-with-children", Lines: []string{"MARK bash -c 'cat >/dev/null; sleep 300 & wait' <<EOT\nline\nEOT"}, Leaves: 1},
		{Name: "exit-nonzero-on-int-allow-failure", Lines: []string{`MARK bash -c 'trap "exit 130" INT; sleep 300 & wait'`}, Leaves: 1, AllowFailure: true},
		{Name: "exit-nonzero-on-int", Lines: []string{"MARK true", `MARK bash -c 'trap "exit 3" INT; sleep 300 & wait'`}, Leaves: 1},
		{Name: "ignore-int-last-allow-failure", Lines: []string{`MARK bash -c 'trap "" INT; sleep 300'`}, Leaves: 1, AllowFailure: true},
		// the process the runner started prints a line when it is interrupted and exits; an interrupt-ignoring descendant holds
		// the task's output (one merged pipe / both pipes written): the task run ends when the output is closed, i.e. after
		// the kill escalation (seed C20-n: a writer wrapper that fails after the cancel lets the run end at the first write)
		{Name: "leader-prints-on-int-ignorer-holds-merged-output", Lines: []string{`MARK bash -c 'trap "echo interrupted; exit 0" INT; (trap "" INT; exec sleep 300) & wait' 2>&1`}, Leaves: 1},
		{Name: "leader-prints-on-int-to-both-streams-ignorer-holds-output", Lines: []string{`MARK bash -c 'trap "echo interrupted; echo interrupted-err 1>&2; exit 0" INT; (trap "" INT; exec sleep 300) & wait'`}, Leaves: 1},
		{Name: "leader-exited-child-detached", Lines: []string{`MARK sh -c 'sleep 300 >/dev/null 2>&1 </dev/null &'`, "MARK sleep 301"}, Leaves: 2},
		{Name: "leader-dies-ignorer-detached-from-pipes", Lines: []string{`MARK bash -c '(trap "" INT; exec sleep 300) >/dev/null 2>&1 </dev/null & wait'`}, Leaves: 1, DetachedIgnorer: true},
		{Name: "interp-background-ignores-int", Lines: []string{`MARK bash -c 'trap "" INT; exec sleep 300' &`, "MARK sleep 301"}, Leaves: 2, DetachedIgnorer: true},
	}
}

// scanMarked returns the pids of live (non-zombie) processes whose environment carries the marker
func scanMarked(marker string) []int {
	var pids []int
	needle := []byte("PXV_MARK=" + marker)
	entries, _ := os.ReadDir("/proc")
	for _, e := range entries {
		name := e.Name()
		if name[0] < '0' || name[0] > '9' {
			continue
		}
		env, err := os.ReadFile(filepath.Join("/proc", name, "environ"))
		if err != nil || !bytes.Contains(env, needle) {
			continue
		}
		// exact variable match (NUL terminated)
		ok := false
		for _, kv := range bytes.Split(env, []byte{0}) {
			if bytes.Equal(kv, needle) {
				ok = true
			}
		}
		if !ok {
			continue
		}
		st, err := os.ReadFile(filepath.Join("/proc", name, "stat"))
		if err != nil {
			continue
		}
		// state is the field after the last ')'
		if i := bytes.LastIndexByte(st, ')'); i >= 0 && i+2 < len(st) && st[i+2] == 'Z' {
			continue
		}
		var pid int
		fmt.Sscanf(name, "%d", &pid)
		if pid != os.Getpid() {
			pids = append(pids, pid)
		}
	}
	sort.Ints(pids)
	return pids
}

func describePids(pids []int) string {
	var out []string
	for _, p := range pids {
		cmd, _ := os.ReadFile(fmt.Sprintf("/proc/%d/cmdline", p))
		out = append(out, fmt.Sprintf("%d:%s", p, strings.TrimSpace(strings.ReplaceAll(string(cmd), "\x00", " "))))
	}
	return strings.Join(out, "; ")
}

// ProcOpts selects one C20 case
type ProcOpts struct {
	Shape       int
	CancelAt    int  // 0: as soon as the tree is up, 1: immediately after schedule, 2: after a random part of the start-up
	ViaShutdown bool // end the job by a forced Shutdown instead of CancelJob
	Others      int  // other jobs with their own trees running alongside
	WorkDir     string
	KillTimeout time.Duration
}

// RunProcCase cancels a job whose task created a process tree and scans the process table when the job is reported finished
func RunProcCase(seed int64, o ProcOpts) *HistResult {
	r := rand.New(rand.NewSource(seed))
	res := &HistResult{Seed: seed, Situations: map[string]map[string]struct{}{}, Evaluations: map[string]int{}}
	find := func(sig, format string, args ...any) {
		res.Findings = append(res.Findings, Finding{Props: []string{"C20"}, Sig: sig, Detail: fmt.Sprintf(format, args...), Step: -1})
	}
	if o.KillTimeout == 0 {
		o.KillTimeout = 300 * time.Millisecond
	}
	shapes := ProcShapes()
	shape := shapes[o.Shape%len(shapes)]
	dir, err := os.MkdirTemp(o.WorkDir, "proc-")
	if err != nil {
		res.Inconclusive = err.Error()
		return res
	}
	defer os.RemoveAll(dir)
	run := fmt.Sprintf("r%d-%d", os.Getpid(), seed&0xffffff)
	// a script that nests itself n levels deep (no exec optimisation: every level stays alive)
	nest := filepath.Join(dir, "nest.sh")
	_ = os.WriteFile(nest, []byte("#!/bin/bash\nif [ \"$1\" -gt 0 ]; then \"$0\" $(( $1 - 1 )); true; else sleep 300; true; fi\n"), 0o755)
	mkDef := func(sh ProcShape) definition.PipelineDef {
		var script []string
		for _, l := range sh.Lines {
			l = strings.ReplaceAll(l, "NEST", shQuote(nest))
			script = append(script, strings.ReplaceAll(l, "MARK", "PXV_MARK={{.mark}}"))
		}
		return definition.PipelineDef{Concurrency: 4, Tasks: map[string]definition.TaskDef{"tree": {Script: script, AllowFailure: sh.AllowFailure}}, SourcePath: "gen"}
	}
	specs := []gen.PipeSpec{{Name: "target", Def: mkDef(shape), Graph: gen.Graph{Names: []string{"tree"}, Deps: map[string][]string{}}}}
	otherShapes := []ProcShape{}
	for i := 0; i < o.Others; i++ {
		sh := shapes[r.Intn(len(shapes)-9)] // not the detached / stdin ones
		otherShapes = append(otherShapes, sh)
		specs = append(specs, gen.PipeSpec{Name: fmt.Sprintf("other%d", i), Def: mkDef(sh), Graph: gen.Graph{Names: []string{"tree"}, Deps: map[string][]string{}}})
	}
	if o.ViaShutdown {
		// a runner that is shut down usually also holds jobs that ended long ago
		specs = append(specs, gen.PipeSpec{Name: "ended", Def: definition.PipelineDef{Concurrency: 4, Tasks: map[string]definition.TaskDef{"t": {Script: []string{"true"}}}, SourcePath: "gen"}, Graph: gen.Graph{Names: []string{"t"}, Deps: map[string][]string{}}})
	}
	sys, _, _, err := realSys(specs, dir, o.KillTimeout)
	if err != nil {
		res.Inconclusive = err.Error()
		return res
	}
	defer sys.Close()
	if o.ViaShutdown {
		var ended []string
		for i := 0; i < 12; i++ {
			if id, cls := sys.Schedule(0, "ended", nil, "u"); cls == "ok" {
				ended = append(ended, id)
			}
		}
		if !waitJobs(sys, ended, 30*time.Second) {
			res.Inconclusive = "jobs of one `true` command did not end"
			return res
		}
	}
	// heartbeat clock for the two timed statements
	var beats atomic.Int64
	stopBeat := make(chan struct{})
	go func() {
		tk := time.NewTicker(5 * time.Millisecond)
		defer tk.Stop()
		for {
			select {
			case <-stopBeat:
				return
			case <-tk.C:
				beats.Add(1)
			}
		}
	}()
	defer close(stopBeat)
	cleanup := func(marks []string) {
		for _, m := range marks {
			for _, pid := range scanMarked(m) {
				if p, err := os.FindProcess(pid); err == nil {
					_ = p.Kill()
				}
			}
		}
	}
	var allMarks []string
	defer func() { cleanup(allMarks) }()
	waitUp := func(mark string, n int, limit time.Duration) int {
		deadline := time.Now().Add(limit)
		got := 0
		for time.Now().Before(deadline) {
			got = len(scanMarked(mark))
			if got >= n {
				return got
			}
			time.Sleep(2 * time.Millisecond)
		}
		return got
	}
	// other jobs first
	type other struct {
		id, mark string
		leaves   int
	}
	var others []other
	for i, sh := range otherShapes {
		mark := fmt.Sprintf("%s-o%d", run, i)
		allMarks = append(allMarks, mark)
		id, cls := sys.Schedule(0, fmt.Sprintf("other%d", i), map[string]interface{}{"mark": mark}, "u")
		if cls != "ok" {
			res.Inconclusive = "schedule other: " + cls
			return res
		}
		others = append(others, other{id, mark, sh.Leaves})
	}
	for _, ot := range others {
		if waitUp(ot.mark, ot.leaves, 10*time.Second) < ot.leaves {
			res.Inconclusive = "process tree of another job did not come up"
			return res
		}
	}
	mark := run + "-t"
	allMarks = append(allMarks, mark)
	target, cls := sys.Schedule(0, "target", map[string]interface{}{"mark": mark}, "u")
	if cls != "ok" {
		res.Inconclusive = "schedule: " + cls
		return res
	}
	upAtCancel := 0
	switch o.CancelAt {
	case 0:
		upAtCancel = waitUp(mark, shape.Leaves, 10*time.Second)
		if upAtCancel < shape.Leaves {
			res.Inconclusive = fmt.Sprintf("process tree %s did not come up (%d of %d)", shape.Name, upAtCancel, shape.Leaves)
			return res
		}
	case 1:
	case 2:
		time.Sleep(time.Duration(r.Intn(30000)) * time.Microsecond)
		upAtCancel = len(scanMarked(mark))
	}
	tCancelBeats := beats.Load()
	tCancel := time.Now()
	if o.ViaShutdown {
		if seed%2 == 0 {
			// escalation: a graceful shutdown is already waiting for the job when the forced one is issued
			go func() { _ = sys.Shutdown(4, context.Background(), "graceful") }()
			for i := 0; i < 2000; i++ {
				if _, cls := sys.Schedule(8, "no-such-pipeline-probe", nil, "probe"); cls == "shutting-down" {
					break
				}
				time.Sleep(100 * time.Microsecond)
			}
			res.sit("C20", "forced shutdown issued while a graceful one waits")
			tCancelBeats = beats.Load()
			tCancel = time.Now()
		}
		ctx, cancel := context.WithCancel(context.Background())
		cancel()
		go func() { _ = sys.Shutdown(0, ctx, "forced") }()
	} else {
		if c := sys.Cancel(0, target); c != "ok" {
			find("C20:cancel-result", "cancel returned %q", c)
		}
	}
	// the instant the job is observed finished
	limitBeats := int64((o.KillTimeout + 5*time.Second) / (5 * time.Millisecond))
	finished := false
	for beats.Load()-tCancelBeats < limitBeats+400 {
		if j, ok := sys.ReadJob(target); ok && j.Completed {
			finished = true
			break
		}
		time.Sleep(500 * time.Microsecond)
	}
	tf := time.Now()
	elapsedBeats := beats.Load() - tCancelBeats
	aliveAtReport := scanMarked(mark)
	key := fmt.Sprintf("%s cancelAt=%d shutdown=%v others=%d upAtCancel=%d", shape.Name, o.CancelAt, o.ViaShutdown, o.Others, upAtCancel)
	res.sit("C20", key)
	res.Evaluations["C20"]++
	res.journalf("shape %s: %d processes up at cancel, finished=%v after %v, %d alive at report", shape.Name, upAtCancel, finished, tf.Sub(tCancel).Round(time.Millisecond), len(aliveAtReport))
	if !finished {
		find("C20:canceled-job-never-reported-finished", "shape %s: the job was not reported finished within kill timeout + 7 s after the cancel", shape.Name)
	} else {
		if elapsedBeats > limitBeats {
			find("C20:finish-takes-longer-than-kill-timeout", "shape %s: the job was reported finished %v after the cancel (kill timeout %v + 5 s allowance, %d heartbeats)", shape.Name, tf.Sub(tCancel), o.KillTimeout, elapsedBeats)
		}
		// C04 with real processes: a job canceled while its process tree was up must end reported canceled, also when the
		// processes had to be killed because they ignore the interrupt
		if j, ok := sys.ReadJob(target); ok && upAtCancel >= shape.Leaves && o.CancelAt == 0 && !j.Canceled {
			res.Findings = append(res.Findings, Finding{Props: []string{"C04", "C20"}, Sig: "C04:canceled-job-not-reported-canceled", Detail: fmt.Sprintf("shape %s: the job was canceled while its %d processes were running and is reported completed=%v canceled=false error=%q", shape.Name, upAtCancel, j.Completed, j.LastError), Step: -1})
		}
		if len(aliveAtReport) > 0 {
			// the signature names the shape: a known finding for one shape never hides the same symptom for another
			sig := "C20:alive-at-report:" + shape.Name
			find(sig, "shape %s (cancel at %d, %d up): the job is reported finished %v after the cancel but %d of its processes are alive: %s", shape.Name, o.CancelAt, upAtCancel, tf.Sub(tCancel).Round(time.Millisecond), len(aliveAtReport), describePids(aliveAtReport))
		}
	}
	// processes of other (uncanceled) jobs are untouched
	if !o.ViaShutdown {
		for _, ot := range others {
			if j, ok := sys.ReadJob(ot.id); ok && !j.Completed {
				if n := len(scanMarked(ot.mark)); n < ot.leaves {
					find("C20:processes-of-another-job-killed", "canceling the target job left only %d of %d processes of an uncanceled job alive", n, ot.leaves)
				}
			}
		}
	}
	// nothing survives the kill timeout
	for beats.Load()-tCancelBeats < int64((o.KillTimeout+700*time.Millisecond)/(5*time.Millisecond)) {
		time.Sleep(5 * time.Millisecond)
	}
	if late := scanMarked(mark); len(late) > 0 {
		// give the allowance, then decide
		for beats.Load()-tCancelBeats < limitBeats && len(scanMarked(mark)) > 0 {
			time.Sleep(20 * time.Millisecond)
		}
		if late = scanMarked(mark); len(late) > 0 {
			find("C20:process-survives-kill-timeout", "shape %s: %v after the cancel (kill timeout %v) %d processes of the canceled job are still alive: %s", shape.Name, time.Since(tCancel).Round(time.Millisecond), o.KillTimeout, len(late), describePids(late))
		}
	}
	// end the other jobs and make sure nothing is left
	for _, ot := range others {
		sys.Cancel(0, ot.id)
	}
	var ids []string
	for _, ot := range others {
		ids = append(ids, ot.id)
	}
	if !waitJobs(sys, ids, 15*time.Second) {
		res.Inconclusive = "other jobs did not end"
	}
	if len(res.Findings) > 0 {
		res.Sample = map[string]any{"seed": seed, "shape": shape.Name, "script": shape.Lines, "opts": fmt.Sprintf("%+v", o)}
	}
	return res
}

func (h *HistResult) journalf(format string, args ...any) {
	h.Journal = append(h.Journal, fmt.Sprintf(format, args...))
}

// RunKillTimeoutCase (C20, clause "no longer than the kill timeout plus scheduling latency") runs an interrupt-ignoring
// tree under a configured kill timeout K (including 0 = no grace period and a negative value) next to a control job
// whose process dies on the interrupt at once. Both are canceled together; the control's cancel-to-report latency L
// calibrates what "scheduling latency" currently is on this machine. Everything is counted in heartbeats of the harness
// process. Oracle: the ignorer is reported finished within K + max(1.5 s, 10 L) and none of its processes is alive then.
func RunKillTimeoutCase(seed int64, workDir string, variant int) *HistResult {
	res := &HistResult{Seed: seed, Situations: map[string]map[string]struct{}{}, Evaluations: map[string]int{}}
	find := func(sig, format string, args ...any) {
		res.Findings = append(res.Findings, Finding{Props: []string{"C20"}, Sig: sig, Detail: fmt.Sprintf(format, args...), Step: -1})
	}
	timeouts := []time.Duration{0, 150 * time.Millisecond, -time.Second, 700 * time.Millisecond}
	K := timeouts[variant%len(timeouts)]
	scripts := [][]string{
		{`PXV_MARK={{.mark}} bash -c 'trap "" INT; sleep 300'`},
		{`PXV_MARK={{.mark}} bash -c 'trap "" INT; sleep 300 & sleep 301; wait'`},
		{`PXV_MARK={{.mark}} bash -c 'trap "" INT; sleep 300' | cat`},
	}
	script := scripts[(variant/len(timeouts))%len(scripts)]
	leaves := []int{1, 2, 1}[(variant/len(timeouts))%len(scripts)]
	dir, err := os.MkdirTemp(workDir, "kt-")
	if err != nil {
		res.Inconclusive = err.Error()
		return res
	}
	defer os.RemoveAll(dir)
	run := fmt.Sprintf("k%d-%d", os.Getpid(), seed&0xffffff)
	mk := func(lines []string) definition.PipelineDef {
		return definition.PipelineDef{Concurrency: 2, Tasks: map[string]definition.TaskDef{"tree": {Script: lines}}, SourcePath: "gen"}
	}
	specs := []gen.PipeSpec{
		{Name: "ignorer", Def: mk(script), Graph: gen.Graph{Names: []string{"tree"}, Deps: map[string][]string{}}},
		{Name: "control", Def: mk([]string{"PXV_MARK={{.mark}} sleep 300"}), Graph: gen.Graph{Names: []string{"tree"}, Deps: map[string][]string{}}},
	}
	sys, _, _, err := realSysKT(specs, dir, &K)
	if err != nil {
		res.Inconclusive = err.Error()
		return res
	}
	defer sys.Close()
	var beats atomic.Int64
	stopBeat := make(chan struct{})
	go func() {
		tk := time.NewTicker(5 * time.Millisecond)
		defer tk.Stop()
		for {
			select {
			case <-stopBeat:
				return
			case <-tk.C:
				beats.Add(1)
			}
		}
	}()
	defer close(stopBeat)
	markI, markC := run+"-i", run+"-c"
	defer func() {
		for _, m := range []string{markI, markC} {
			for _, pid := range scanMarked(m) {
				if p, err := os.FindProcess(pid); err == nil {
					_ = p.Kill()
				}
			}
		}
	}()
	idI, cls1 := sys.Schedule(0, "ignorer", map[string]interface{}{"mark": markI}, "u")
	idC, cls2 := sys.Schedule(0, "control", map[string]interface{}{"mark": markC}, "u")
	if cls1 != "ok" || cls2 != "ok" {
		res.Inconclusive = "schedule: " + cls1 + " " + cls2
		return res
	}
	deadline := time.Now().Add(10 * time.Second)
	for len(scanMarked(markI)) < leaves || len(scanMarked(markC)) < 1 {
		if time.Now().After(deadline) {
			res.Inconclusive = "process trees did not come up"
			return res
		}
		time.Sleep(2 * time.Millisecond)
	}
	time.Sleep(20 * time.Millisecond) // let bash install its trap (shaping only)
	t0 := beats.Load()
	if c := sys.Cancel(0, idC); c != "ok" {
		find("C20:cancel-result", "cancel of the control job returned %q", c)
	}
	if c := sys.Cancel(0, idI); c != "ok" {
		find("C20:cancel-result", "cancel returned %q", c)
	}
	var doneI, doneC int64 = -1, -1
	kBeats := int64(0)
	if K > 0 {
		kBeats = int64(K / (5 * time.Millisecond))
	}
	for beats.Load()-t0 < kBeats+int64(12*time.Second/(5*time.Millisecond)) && (doneI < 0 || doneC < 0) {
		if j, ok := sys.ReadJob(idC); ok && j.Completed && doneC < 0 {
			doneC = beats.Load() - t0
		}
		if j, ok := sys.ReadJob(idI); ok && j.Completed && doneI < 0 {
			doneI = beats.Load() - t0
		}
		time.Sleep(500 * time.Microsecond)
	}
	alive := scanMarked(markI)
	res.sit("C20", fmt.Sprintf("kill-timeout %v script %d", K, (variant/len(timeouts))%len(scripts)))
	res.Evaluations["C20"]++
	res.journalf("kill timeout %v: control finished after %d beats, ignorer after %d beats (5 ms each), %d processes alive at report", K, doneC, doneI, len(alive))
	if doneC < 0 {
		res.Inconclusive = "the control job (plain sleep) was not reported finished within 12 s after its cancel: machine too loaded to judge"
		return res
	}
	allow := int64(1500 * time.Millisecond / (5 * time.Millisecond))
	if 10*doneC > allow {
		allow = 10 * doneC
	}
	switch {
	case doneI < 0:
		find("C20:canceled-job-never-reported-finished", "kill timeout %v: the job with an interrupt-ignoring tree was not reported finished within kill timeout + 12 s after the cancel (control job: %d ms)", K, doneC*5)
	case doneI > kBeats+allow:
		find("C20:finish-takes-longer-than-kill-timeout", "kill timeout %v: the job with an interrupt-ignoring tree was reported finished %d ms after the cancel; a job whose process dies on the interrupt took %d ms at the same time (allowance max(1.5 s, 10x that))", K, doneI*5, doneC*5)
	}
	if doneI >= 0 && len(alive) > 0 {
		find("C20:alive-at-report:kill-timeout-case", "kill timeout %v: %d processes alive when the job was reported finished: %s", K, len(alive), describePids(alive))
	}
	return res
}

// RunProcGapCase (C20): a job of two tasks whose first task leaves a script-level background command (`cmd &`, which the
// task run does not wait for) is canceled exactly in the gap between its two tasks (scheduler loop parked through hook
// H1 when the first task is done and the second not launched). Nothing of the job may survive the kill timeout. (Whether
// the process is gone at the very instant of the report is the known finding D9 and is not judged here.)
func RunProcGapCase(seed int64, workDir string, variant int) *HistResult {
	res := &HistResult{Seed: seed, Situations: map[string]map[string]struct{}{}, Evaluations: map[string]int{}}
	find := func(sig, format string, args ...any) {
		res.Findings = append(res.Findings, Finding{Props: []string{"C20"}, Sig: sig, Detail: fmt.Sprintf(format, args...), Step: -1})
	}
	dir, err := os.MkdirTemp(workDir, "gap-")
	if err != nil {
		res.Inconclusive = err.Error()
		return res
	}
	defer os.RemoveAll(dir)
	killTimeout := 300 * time.Millisecond
	bg := []string{"PXV_MARK={{.mark}} sleep 300 &", `PXV_MARK={{.mark}} bash -c 'sleep 300; true' &`, "PXV_MARK={{.mark}} sleep 300 & PXV_MARK={{.mark}} sleep 302 &"}[variant%3]
	viaShutdown := (variant/3)%2 == 1
	def := definition.PipelineDef{Concurrency: 1, SourcePath: "gen", Tasks: map[string]definition.TaskDef{
		"first":  {Script: []string{bg, "true"}},
		"second": {Script: []string{"PXV_MARK={{.mark}} sleep 301"}, DependsOn: []string{"first"}},
	}}
	specs := []gen.PipeSpec{{Name: "gap", Def: def, Graph: gen.Graph{Names: []string{"first", "second"}, Deps: map[string][]string{"second": {"first"}}}}}
	sys, _, _, err := realSys(specs, dir, killTimeout)
	if err != nil {
		res.Inconclusive = err.Error()
		return res
	}
	defer sys.Close()
	mark := fmt.Sprintf("g%d-%d", os.Getpid(), seed&0xffffff)
	defer func() {
		for _, pid := range scanMarked(mark) {
			if p, err := os.FindProcess(pid); err == nil {
				_ = p.Kill()
			}
		}
	}()
	// park the loop of every job of this runner at the first iteration top where "first" is done and "second" still waits
	sys.SetParkAll(func(job string, count int64, st map[string]int32) bool { return st["first"] == 3 && st["second"] == 0 })
	id, cls := sys.Schedule(0, "gap", map[string]interface{}{"mark": mark}, "u")
	if cls != "ok" {
		res.Inconclusive = "schedule: " + cls
		return res
	}
	deadline := time.Now().Add(15 * time.Second)
	inGap := true
	for {
		if p, _ := sys.Parked(id); p {
			break
		}
		if j, ok := sys.ReadJob(id); ok {
			if t := j.Task("second"); t != nil && t.Status != "waiting" {
				// the first task ended while the loop was in the middle of a pass, which then launched the second task at
				// once: the gap was never visible at an iteration top. Canceling now (second task running, background
				// command of the first alive) is a legitimate instant as well.
				inGap = false
				break
			}
		}
		if time.Now().After(deadline) {
			j, _ := sys.ReadJob(id)
			var sts []string
			for _, t := range j.Tasks {
				sts = append(sts, fmt.Sprintf("%s=%s(err=%v %s)", t.Name, t.Status, t.Errored, t.Error))
			}
			c, lc := sys.IterCount(id)
			res.Inconclusive = fmt.Sprintf("the loop did not reach the gap between the two tasks: job completed=%v canceled=%v error=%q tasks %v iterations=%d lastChange=%d", j.Completed, j.Canceled, j.LastError, sts, c, lc)
			sys.SetParkAll(nil)
			return res
		}
		time.Sleep(time.Millisecond)
	}
	sys.SetParkAll(nil)
	up := len(scanMarked(mark))
	for i := 0; i < 1000 && up == 0; i++ {
		time.Sleep(2 * time.Millisecond) // the background command was started but may not have been exec'ed yet
		up = len(scanMarked(mark))
	}
	_ = inGap
	res.sit("C20", fmt.Sprintf("canceled in the gap between two tasks (gap visible at an iteration top: %v), background command of the first task: %d processes up, via shutdown=%v, script %d", inGap, min(up, 2), viaShutdown, variant%3))
	res.Evaluations["C20"]++
	if up == 0 {
		res.Inconclusive = "the background command of the first task is not running in the gap"
		sys.Unpark(id)
		return res
	}
	t0 := time.Now()
	if viaShutdown {
		ctx, cancel := context.WithCancel(context.Background())
		cancel()
		go func() { _ = sys.Shutdown(0, ctx, "forced") }()
		// the forced shutdown cancels under the runner's lock; let it get there before the loop goes on
		time.Sleep(20 * time.Millisecond)
	} else if c := sys.Cancel(0, id); c != "ok" {
		find("C20:cancel-result", "cancel returned %q", c)
	}
	sys.Unpark(id)
	finished := false
	for time.Since(t0) < killTimeout+8*time.Second {
		if j, ok := sys.ReadJob(id); ok && j.Completed {
			finished = true
			break
		}
		time.Sleep(time.Millisecond)
	}
	if !finished {
		find("C20:canceled-job-never-reported-finished", "job canceled in the gap between its two tasks was not reported finished within kill timeout + 8 s")
		return res
	}
	res.journalf("gap case: %d processes up at cancel, reported finished after %v", up, time.Since(t0).Round(time.Millisecond))
	// nothing survives the kill timeout (allowance 5 s, then decide)
	// (counted in this goroutine's own 20 ms sleeps, so that a stalled machine stalls the clock)
	for i := 0; i < int((killTimeout+5*time.Second)/(20*time.Millisecond)) && len(scanMarked(mark)) > 0; i++ {
		time.Sleep(20 * time.Millisecond)
	}
	if late := scanMarked(mark); len(late) > 0 {
		find("C20:process-survives-kill-timeout", "a job whose first task left a background command was canceled between its two tasks: %v after the cancel (kill timeout %v) %d of its processes are still alive: %s", time.Since(t0).Round(time.Millisecond), killTimeout, len(late), describePids(late))
	}
	return res
}

// RunProcTwoTaskCase (C20): a job with two tasks running at the same time, one whose process dies on the interrupt at
// once and one whose tree ignores it, is canceled. "Reported finished" is the first instant at which the job is reported
// completed OR canceled (for a job that had started, the two must coincide): nothing of it may be alive then.
func RunProcTwoTaskCase(seed int64, workDir string, variant int) *HistResult {
	res := &HistResult{Seed: seed, Situations: map[string]map[string]struct{}{}, Evaluations: map[string]int{}}
	find := func(sig, format string, args ...any) {
		res.Findings = append(res.Findings, Finding{Props: []string{"C20"}, Sig: sig, Detail: fmt.Sprintf(format, args...), Step: -1})
	}
	dir, err := os.MkdirTemp(workDir, "two-")
	if err != nil {
		res.Inconclusive = err.Error()
		return res
	}
	defer os.RemoveAll(dir)
	killTimeout := 300 * time.Millisecond
	stubborn := []string{`PXV_MARK={{.mark}} bash -c 'trap "" INT; sleep 300 & sleep 301; wait'`, `PXV_MARK={{.mark}} bash -c 'trap "" INT; sleep 300'`}[variant%2]
	def := definition.PipelineDef{Concurrency: 1, SourcePath: "gen", Tasks: map[string]definition.TaskDef{
		"quick":    {Script: []string{"PXV_MARK={{.mark}} sleep 302"}},
		"stubborn": {Script: []string{stubborn}},
	}}
	specs := []gen.PipeSpec{{Name: "two", Def: def, Graph: gen.Graph{Names: []string{"quick", "stubborn"}, Deps: map[string][]string{}}}}
	sys, _, _, err := realSys(specs, dir, killTimeout)
	if err != nil {
		res.Inconclusive = err.Error()
		return res
	}
	defer sys.Close()
	mark := fmt.Sprintf("t%d-%d", os.Getpid(), seed&0xffffff)
	defer func() {
		for _, pid := range scanMarked(mark) {
			if p, err := os.FindProcess(pid); err == nil {
				_ = p.Kill()
			}
		}
	}()
	id, cls := sys.Schedule(0, "two", map[string]interface{}{"mark": mark}, "u")
	if cls != "ok" {
		res.Inconclusive = "schedule: " + cls
		return res
	}
	want := 2 + (1 - variant%2)
	deadline := time.Now().Add(15 * time.Second)
	for len(scanMarked(mark)) < want {
		if time.Now().After(deadline) {
			res.Inconclusive = "process trees did not come up"
			return res
		}
		time.Sleep(2 * time.Millisecond)
	}
	time.Sleep(30 * time.Millisecond) // let bash install its trap (shaping only)
	t0 := time.Now()
	viaShutdown := (variant/2)%2 == 1
	if viaShutdown {
		ctx, cancel := context.WithCancel(context.Background())
		cancel()
		go func() { _ = sys.Shutdown(0, ctx, "forced") }()
	} else if c := sys.Cancel(0, id); c != "ok" {
		find("C20:cancel-result", "cancel returned %q", c)
	}
	j, _ := sys.ReadJob(id)
	reported := false
	for i := 0; i < 20000; i++ {
		if jj, ok := sys.ReadJob(id); ok && (jj.Completed || jj.Canceled) {
			j, reported = jj, true
			break
		}
		time.Sleep(500 * time.Microsecond)
	}
	alive := scanMarked(mark)
	res.sit("C20", fmt.Sprintf("two tasks running, one ignores the interrupt; via shutdown=%v script %d", viaShutdown, variant%2))
	res.Evaluations["C20"]++
	if !reported {
		find("C20:canceled-job-never-reported-finished", "a job with two running tasks was canceled and is not reported finished 10 s later")
		return res
	}
	res.journalf("two tasks: reported completed=%v canceled=%v after %v with %d processes alive", j.Completed, j.Canceled, time.Since(t0).Round(time.Millisecond), len(alive))
	if len(alive) > 0 {
		find("C20:alive-at-report:two-tasks-one-ignores-int", "a job with two running tasks (one dies on the interrupt, one ignores it) is reported completed=%v canceled=%v %v after the cancel while %d of its processes are alive: %s", j.Completed, j.Canceled, time.Since(t0).Round(time.Millisecond), len(alive), describePids(alive))
	}
	waitJobs(sys, []string{id}, 20*time.Second)
	return res
}

// RunLongKillTimeoutShutdownCase: the embedding application configured a LONG kill timeout (5.5 s / 6.5 s instead of the
// 2 s default) and forces a shutdown while a task runs a command that ignores the interrupt. An application exits when
// Shutdown has returned, so at that instant nothing of the job may be alive any more: Shutdown has to wait for the kill
// timeout it was configured with, however long that is.
func RunLongKillTimeoutShutdownCase(seed int64, workDir string) *HistResult {
	res := &HistResult{Seed: seed, Situations: map[string]map[string]struct{}{}, Evaluations: map[string]int{}}
	find := func(sig, format string, args ...any) {
		res.Findings = append(res.Findings, Finding{Props: []string{"C20"}, Sig: sig, Detail: fmt.Sprintf(format, args...), Step: -1})
	}
	K := []time.Duration{5500 * time.Millisecond, 6500 * time.Millisecond}[int(seed)%2]
	dir, err := os.MkdirTemp(workDir, "ktlong-")
	if err != nil {
		res.Inconclusive = err.Error()
		return res
	}
	defer os.RemoveAll(dir)
	mark := fmt.Sprintf("kl%d-%d", os.Getpid(), seed&0xffffff)
	def := definition.PipelineDef{Concurrency: 1, Tasks: map[string]definition.TaskDef{"tree": {Script: []string{`PXV_MARK={{.mark}} bash -c 'trap "" INT; sleep 300'`}}}, SourcePath: "gen"}
	specs := []gen.PipeSpec{{Name: "ignorer", Def: def, Graph: gen.Graph{Names: []string{"tree"}, Deps: map[string][]string{}}}}
	sys, _, _, err := realSysKT(specs, dir, &K)
	if err != nil {
		res.Inconclusive = err.Error()
		return res
	}
	defer sys.Close()
	defer func() {
		for _, pid := range scanMarked(mark) {
			if p, err := os.FindProcess(pid); err == nil {
				_ = p.Kill()
			}
		}
	}()
	if _, cls := sys.Schedule(0, "ignorer", map[string]interface{}{"mark": mark}, "u"); cls != "ok" {
		res.Inconclusive = "schedule: " + cls
		return res
	}
	deadline := time.Now().Add(10 * time.Second)
	for len(scanMarked(mark)) < 1 {
		if time.Now().After(deadline) {
			res.Inconclusive = "process tree did not come up"
			return res
		}
		time.Sleep(2 * time.Millisecond)
	}
	time.Sleep(30 * time.Millisecond) // let bash install its trap (shaping only)
	type ret struct {
		alive []int
		took  time.Duration
	}
	done := make(chan ret, 1)
	t0 := time.Now()
	go func() {
		ctx, cancel := context.WithCancel(context.Background())
		cancel()
		_ = sys.Shutdown(0, ctx, "forced, long kill timeout")
		done <- ret{scanMarked(mark), time.Since(t0)}
	}()
	select {
	case r := <-done:
		res.sit("C20", fmt.Sprintf("forced shutdown with kill timeout %v and a command that ignores the interrupt", K))
		res.Evaluations["C20"]++
		res.journalf("kill timeout %v: forced Shutdown returned after %v with %d processes alive", K, r.took.Round(10*time.Millisecond), len(r.alive))
		if len(r.alive) > 0 {
			find("C20:process-alive-when-forced-shutdown-returned", "kill timeout %v: the forced Shutdown returned after %v while %d processes of the job it canceled are alive (they ignore the interrupt and have not been killed yet): %s", K, r.took.Round(10*time.Millisecond), len(r.alive), describePids(r.alive))
		}
	case <-time.After(K + 25*time.Second):
		res.Inconclusive = fmt.Sprintf("watchdog: forced Shutdown did not return within %v", K+25*time.Second)
	}
	return res
}

// RunForcedShutdownManyIgnorersCase (C20; seed C20-m): a forced Shutdown ends SEVERAL running jobs whose process trees
// ignore the interrupt. "This takes no longer than the kill timeout plus scheduling latency" holds for every one of
// them, not only for the first: the jobs are stopped side by side, not one after the other (n jobs x kill timeout).
// The latency allowance is calibrated beforehand with a control job whose process dies on the interrupt (cancel-to-report
// latency L, counted in heartbeats): every job is reported finished, and nothing of it is alive, within K + max(1.5 s, 10 L).
func RunForcedShutdownManyIgnorersCase(seed int64, workDir string) *HistResult {
	res := &HistResult{Seed: seed, Situations: map[string]map[string]struct{}{}, Evaluations: map[string]int{}}
	find := func(sig, format string, args ...any) {
		res.Findings = append(res.Findings, Finding{Props: []string{"C20", "C11"}, Sig: sig, Detail: fmt.Sprintf(format, args...), Step: -1})
	}
	K := []time.Duration{900 * time.Millisecond, 1200 * time.Millisecond}[seed%2]
	n := 4 + int(seed/2)%2
	dir, err := os.MkdirTemp(workDir, "fsd-")
	if err != nil {
		res.Inconclusive = err.Error()
		return res
	}
	defer os.RemoveAll(dir)
	run := fmt.Sprintf("f%d-%d", os.Getpid(), seed&0xffffff)
	mk := func(lines []string) definition.PipelineDef {
		return definition.PipelineDef{Concurrency: 8, Tasks: map[string]definition.TaskDef{"tree": {Script: lines}}, SourcePath: "gen"}
	}
	specs := []gen.PipeSpec{
		{Name: "ignorer", Def: mk([]string{`PXV_MARK={{.mark}} bash -c 'trap "" INT; sleep 300'`}), Graph: gen.Graph{Names: []string{"tree"}, Deps: map[string][]string{}}},
		{Name: "control", Def: mk([]string{"PXV_MARK={{.mark}} sleep 300"}), Graph: gen.Graph{Names: []string{"tree"}, Deps: map[string][]string{}}},
	}
	sys, _, _, err := realSysKT(specs, dir, &K)
	if err != nil {
		res.Inconclusive = err.Error()
		return res
	}
	defer sys.Close()
	var beats atomic.Int64
	stopBeat := make(chan struct{})
	go func() {
		tk := time.NewTicker(5 * time.Millisecond)
		defer tk.Stop()
		for {
			select {
			case <-stopBeat:
				return
			case <-tk.C:
				beats.Add(1)
			}
		}
	}()
	defer close(stopBeat)
	markC := run + "-c"
	var marks, ids []string
	defer func() {
		for _, m := range append(append([]string(nil), marks...), markC) {
			for _, pid := range scanMarked(m) {
				if p, err := os.FindProcess(pid); err == nil {
					_ = p.Kill()
				}
			}
		}
	}()
	for i := 0; i < n; i++ {
		m := fmt.Sprintf("%s-i%d", run, i)
		id, cls := sys.Schedule(0, "ignorer", map[string]interface{}{"mark": m}, "u")
		if cls != "ok" {
			res.Inconclusive = "schedule: " + cls
			return res
		}
		marks, ids = append(marks, m), append(ids, id)
	}
	idC, cls := sys.Schedule(0, "control", map[string]interface{}{"mark": markC}, "u")
	if cls != "ok" {
		res.Inconclusive = "schedule: " + cls
		return res
	}
	deadline := time.Now().Add(15 * time.Second)
	up := func() bool {
		for _, m := range marks {
			if len(scanMarked(m)) < 1 {
				return false
			}
		}
		return len(scanMarked(markC)) >= 1
	}
	for !up() {
		if time.Now().After(deadline) {
			res.Inconclusive = "process trees did not come up"
			return res
		}
		time.Sleep(2 * time.Millisecond)
	}
	time.Sleep(30 * time.Millisecond) // let the shells install their traps (shaping only)
	// calibration: cancel-to-report latency of a job whose process dies on the interrupt
	c0 := beats.Load()
	if c := sys.Cancel(0, idC); c != "ok" {
		find("C20:cancel-result", "cancel of the control job returned %q", c)
	}
	var doneC int64 = -1
	for beats.Load()-c0 < int64(12*time.Second/(5*time.Millisecond)) {
		if j, ok := sys.ReadJob(idC); ok && j.Completed {
			doneC = beats.Load() - c0
			break
		}
		time.Sleep(500 * time.Microsecond)
	}
	if doneC < 0 {
		res.Inconclusive = "the control job (plain sleep) was not reported finished within 12 s after its cancel: machine too loaded to judge"
		return res
	}
	ctx, cancel := context.WithCancel(context.Background())
	cancel()
	t0 := beats.Load()
	sd := make(chan struct{})
	go func() { defer close(sd); _ = sys.Shutdown(5, ctx, "forced, several interrupt-ignoring jobs") }()
	kBeats := int64(K / (5 * time.Millisecond))
	done := make([]int64, n)
	for i := range done {
		done[i] = -1
	}
	var sdBeats int64 = -1
	left := n
	for beats.Load()-t0 < kBeats*int64(n+1)+int64(12*time.Second/(5*time.Millisecond)) && (left > 0 || sdBeats < 0) {
		for i, id := range ids {
			if done[i] < 0 {
				if j, ok := sys.ReadJob(id); ok && j.Completed {
					done[i] = beats.Load() - t0
					left--
				}
			}
		}
		if sdBeats < 0 {
			select {
			case <-sd:
				sdBeats = beats.Load() - t0
			default:
			}
		}
		time.Sleep(500 * time.Microsecond)
	}
	allow := int64(1500 * time.Millisecond / (5 * time.Millisecond))
	if 10*doneC > allow {
		allow = 10 * doneC
	}
	res.sit("C20", fmt.Sprintf("forced shutdown over %d running jobs that ignore the interrupt (kill timeout %v)", n, K))
	res.Evaluations["C20"]++
	res.journalf("kill timeout %v, %d ignorers: control finished after %d beats; jobs finished after %v beats, Shutdown returned after %d beats (5 ms each)", K, n, doneC, done, sdBeats)
	worst := int64(0)
	for i, d := range done {
		if d < 0 {
			find("C20:canceled-job-never-reported-finished", "forced shutdown, kill timeout %v: job %d of %d with an interrupt-ignoring tree was not reported finished within %d x kill timeout + 12 s", K, i+1, n, n+1)
			return res
		}
		if d > worst {
			worst = d
		}
	}
	if worst > kBeats+allow {
		find("C20:finish-takes-longer-than-kill-timeout", "forced shutdown over %d running jobs whose processes ignore the interrupt, kill timeout %v: the jobs were reported finished %v ms after the shutdown began (5 ms beats: %v); a job whose process dies on the interrupt took %d ms just before (allowance max(1.5 s, 10x that)) - the jobs are not stopped side by side", n, K, worst*5, done, doneC*5)
	}
	if sdBeats >= 0 {
		var alive []int
		for _, m := range marks {
			alive = append(alive, scanMarked(m)...)
		}
		if len(alive) > 0 {
			find("C20:alive-after-forced-shutdown-returned", "forced shutdown over %d interrupt-ignoring jobs has returned and %d of their processes are alive: %s", n, len(alive), describePids(alive))
		}
	} else {
		res.Inconclusive = "forced Shutdown did not return"
	}
	return res
}
