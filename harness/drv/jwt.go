package drv

import (
	"crypto/hmac"
	"crypto/sha256"
	"encoding/base64"
	"encoding/json"
)

func signHS256Claims(secret string, claims map[string]any) string {
	enc := base64.RawURLEncoding
	h := enc.EncodeToString([]byte(`{"alg":"HS256","typ":"JWT"}`))
	cb, _ := json.Marshal(claims)
	msg := h + "." + enc.EncodeToString(cb)
	m := hmac.New(sha256.New, []byte(secret))
	m.Write([]byte(msg))
	return msg + "." + enc.EncodeToString(m.Sum(nil))
}
