package drv

import (
	"fmt"
	"sync/atomic"
	"time"

	"github.com/Flowpack/prunner/definition"

	"pxverif/core"
)

// RunLongQueueCase: a burst - far more requests than an ordinary history holds - waits behind the running jobs of one
// pipeline with an unbounded queue (33..260 waiting jobs), some waiters in the middle are canceled, then everything is
// allowed to run. Every accepted job that was not canceled starts and completes, in the order of acceptance; the canceled
// ones never start; at the end nothing waits (C03 no accepted job lost or stranded, C06 start order, C05 a canceled
// waiter occupies nothing).
func RunLongQueueCase(seed int64) *HistResult {
	res := &HistResult{Seed: seed, Situations: map[string]map[string]struct{}{}, Evaluations: map[string]int{}}
	find := func(props []string, sig, format string, args ...any) {
		res.Findings = append(res.Findings, Finding{Props: props, Sig: sig, Detail: fmt.Sprintf(format, args...), Step: -1})
	}
	conc := 1 + int(seed%3)
	sizes := []int{33, 36, 40, 64, 65, 70, 100, 129, 150, 200, 257, 260}
	n := sizes[int(seed/3)%len(sizes)]
	def := definition.PipelineDef{Concurrency: conc, SourcePath: "gen", Tasks: map[string]definition.TaskDef{"t": {Script: []string{"true"}}}}
	sys, err := core.NewSys(&definition.PipelinesDef{Pipelines: map[string]definition.PipelineDef{"burst": def}}, &core.RecStore{}, core.NewMemOutputStore())
	if err != nil {
		res.Inconclusive = err.Error()
		return res
	}
	defer sys.Close()
	defer DrainAll(sys)
	var hold atomic.Bool
	hold.Store(true)
	sys.Gates.Auto = func(job, pipeline, taskName string) (core.Outcome, time.Duration, bool) {
		return core.Outcome{Kind: core.OutOK}, 0, !hold.Load()
	}
	var ids []string
	for i := 0; i < conc+n; i++ {
		id, cls := sys.Schedule(0, "burst", nil, "u")
		if cls != "ok" {
			find([]string{"C05", "C03"}, "C05:request-for-unbounded-queue-rejected", "request %d of a burst for a pipeline with an unbounded queue was rejected: %s", i, cls)
			return res
		}
		ids = append(ids, id)
	}
	canceled := map[string]bool{}
	if seed%2 == 0 {
		for i := conc + 3; i < len(ids); i += 7 {
			if sys.Cancel(0, ids[i]) == "ok" {
				canceled[ids[i]] = true
			}
		}
	}
	hold.Store(false)
	if !DrainAll(sys) {
		res.Inconclusive = "watchdog: the burst did not drain"
		return res
	}
	v, err := sys.Quiesce(core.QuiesceOpts{Watchdog: 20 * time.Second})
	if err != nil {
		res.Inconclusive = "watchdog: " + err.Error()
		return res
	}
	sit := fmt.Sprintf("burst of %d waiting jobs behind %d running, %d waiters canceled", n, conc, len(canceled))
	for _, p := range []string{"C03", "C06", "C05"} {
		res.sit(p, sit)
		res.Evaluations[p] += len(ids)
	}
	var prev *core.JobSnap
	prevIdx := -1
	stranded, lost := 0, 0
	for i, id := range ids {
		j := v.ByID(id)
		if j == nil {
			lost++
			if lost <= 3 {
				find([]string{"C03"}, "C03:accepted-job-not-reported", "burst of %d: accepted job %d is not reported any more", n, i)
			}
			continue
		}
		if canceled[id] {
			if j.Start != nil || !j.Canceled {
				find([]string{"C05", "C04"}, "C05:canceled-waiter-started", "burst of %d: job %d was canceled while it waited, it is reported started=%v canceled=%v", n, i, j.Start != nil, j.Canceled)
			}
			continue
		}
		if !j.Completed || j.Start == nil {
			stranded++
			if stranded <= 3 {
				find([]string{"C03"}, "C03:job-of-a-burst-never-ran", "burst of %d jobs waiting behind %d running: accepted job %d is reported started=%v completed=%v canceled=%v at quiescence with the pipeline idle (%d of the burst in all)", n, conc, i, j.Start != nil, j.Completed, j.Canceled, stranded)
			}
			continue
		}
		if prev != nil && j.Start.Before(*prev.Start) {
			find([]string{"C06"}, "C06:job-started-before-an-earlier-accepted-job", "burst of %d: job %d started before job %d, which was accepted earlier", n, i, prevIdx)
		}
		prev, prevIdx = j, i
	}
	res.Events = sys.Log.Len()
	return res
}
