package core

import (
	"sync"
	"sync/atomic"

	"github.com/gofrs/uuid"
)

// hookGen wraps the uuid generator that ScheduleAsync uses for job ids: a driver can run code at the instant a job id is
// generated, i.e. in the middle of the accept path of a schedule request (used to let a definition reload arrive exactly then)
type hookGen struct {
	inner uuid.Generator
	hook  atomic.Pointer[func()]
}

func (g *hookGen) NewV1() (uuid.UUID, error)                 { return g.inner.NewV1() }
func (g *hookGen) NewV3(ns uuid.UUID, name string) uuid.UUID { return g.inner.NewV3(ns, name) }
func (g *hookGen) NewV5(ns uuid.UUID, name string) uuid.UUID { return g.inner.NewV5(ns, name) }
func (g *hookGen) NewV6() (uuid.UUID, error)                 { return g.inner.NewV6() }
func (g *hookGen) NewV7(p uuid.Precision) (uuid.UUID, error) { return g.inner.NewV7(p) }
func (g *hookGen) NewV4() (uuid.UUID, error) {
	if f := g.hook.Swap(nil); f != nil {
		(*f)()
	}
	return g.inner.NewV4()
}

var (
	uuidGenOnce sync.Once
	uuidGen     *hookGen
)

// SetUUIDHook installs a one-shot callback that runs when the next version 4 UUID is generated (nil removes it)
func SetUUIDHook(f func()) {
	uuidGenOnce.Do(func() {
		uuidGen = &hookGen{inner: uuid.DefaultGenerator}
		uuid.DefaultGenerator = uuidGen
	})
	if f == nil {
		uuidGen.hook.Store(nil)
		return
	}
	uuidGen.hook.Store(&f)
}
