// Package core contains the runtime-monitoring machinery shared by all checks: the event log, the monitored
// task runner, monitored stores, and the system wrapper that records every API call at the client boundary.
package core

import (
	"sync"
	"sync/atomic"
	"time"
)

// Kind of a recorded event
type Kind string

const (
	KCall        Kind = "call"         // API call about to be issued (client boundary)
	KRet         Kind = "ret"          // API call returned
	KNewRunner   Kind = "new-runner"   // createTaskRunner callback invoked for a job
	KRunEnter    Kind = "run-enter"    // task runner accepted a task
	KRunRefused  Kind = "run-refused"  // task runner refused a task (already canceled)
	KRunExit     Kind = "run-exit"     // task finished inside the runner
	KCancelEnter Kind = "cancel-enter" // runner.Cancel() called: tasks are told to stop
	// KIterAfterCancel: the first scheduler loop iteration of a job that began after its runner was told to stop (hook H1);
	// Data holds the stage statuses that iteration saw (map[string]int32). The scheduler's stop flag is set before the
	// runner is told to stop, so this iteration and all later ones must launch nothing.
	KIterAfterCancel Kind = "iteration-after-cancel"
	KCancelExit      Kind = "cancel-exit"    // runner.Cancel() returned
	KFinish          Kind = "finish"         // runner.Finish()
	KDelayEnter      Kind = "delay-enter"    // start delay handler entered (hook H2)
	KDelayExit       Kind = "delay-exit"     // start delay handler returned (hook H2)
	KCancelSpawned   Kind = "cancel-spawned" // asynchronous cancel goroutine about to be started (hook H2)
	KSaveBegin       Kind = "save-begin"     // DataStore.Save called
	KSaveEnd         Kind = "save-end"       // DataStore.Save returned
	KGateRelease     Kind = "gate-release"   // driver released a task gate
	KNote            Kind = "note"           // driver annotation
)

// Event is one entry of the append-only event log
type Event struct {
	Seq    int64     `json:"seq"`
	T      time.Time `json:"-"`
	Nanos  int64     `json:"ns"` // nanoseconds since log start (monotonic)
	Kind   Kind      `json:"kind"`
	Client int       `json:"client,omitempty"`
	Op     string    `json:"op,omitempty"`
	Pipe   string    `json:"pipe,omitempty"`
	Job    string    `json:"job,omitempty"`
	Task   string    `json:"task,omitempty"`
	Arg    string    `json:"arg,omitempty"`
	Res    string    `json:"res,omitempty"`
	CallID int64     `json:"callId,omitempty"`
	Data   any       `json:"data,omitempty"`
}

// Log is an append-only event log with one atomic sequence counter. It is the only state of the monitors.
type Log struct {
	cancelEntered map[string]bool
	mu            sync.Mutex
	seq           int64
	start         time.Time
	evs           []Event
}

func NewLog() *Log {
	return &Log{start: time.Now()}
}

// NextSeq allocates a sequence number without recording an event (used for cheap high-volume markers)
func (l *Log) NextSeq() int64 {
	return atomic.AddInt64(&l.seq, 1)
}

// Add appends an event and returns its sequence number
// CancelEntered reports whether a cancel-enter event was recorded for the job
func (l *Log) CancelEntered(job string) bool {
	l.mu.Lock()
	defer l.mu.Unlock()
	return l.cancelEntered[job]
}

func (l *Log) Add(e Event) int64 {
	l.mu.Lock()
	if e.Kind == KCancelEnter {
		if l.cancelEntered == nil {
			l.cancelEntered = map[string]bool{}
		}
		l.cancelEntered[e.Job] = true
	}
	e.Seq = atomic.AddInt64(&l.seq, 1)
	e.T = time.Now()
	e.Nanos = int64(e.T.Sub(l.start))
	l.evs = append(l.evs, e)
	l.mu.Unlock()
	return e.Seq
}

// Events returns a copy of all events recorded so far
func (l *Log) Events() []Event {
	l.mu.Lock()
	defer l.mu.Unlock()
	out := make([]Event, len(l.evs))
	copy(out, l.evs)
	return out
}

// Len returns the number of recorded events
func (l *Log) Len() int {
	l.mu.Lock()
	defer l.mu.Unlock()
	return len(l.evs)
}

// Start returns the time origin of the log
func (l *Log) Start() time.Time { return l.start }

// Tail returns up to n last events
func (l *Log) Tail(n int) []Event {
	l.mu.Lock()
	defer l.mu.Unlock()
	if n > len(l.evs) {
		n = len(l.evs)
	}
	out := make([]Event, n)
	copy(out, l.evs[len(l.evs)-n:])
	return out
}
