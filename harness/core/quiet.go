package core

import (
	"io"
	stdlog "log"

	"github.com/apex/log"
	"github.com/apex/log/handlers/discard"
)

func init() {
	// prunner logs through apex/log; the harness observes through hooks and injected collaborators instead
	log.SetHandler(discard.New())
	stdlog.SetOutput(io.Discard) // net/http complains about hostile cookie values on the std logger
}
