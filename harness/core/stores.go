package core

import (
	"bytes"
	"crypto/sha256"
	"encoding/hex"
	"encoding/json"
	"fmt"
	"io"
	"sort"
	"sync"
	"time"

	"github.com/Flowpack/prunner/store"
	"github.com/Flowpack/prunner/taskctl"
)

// SaveRecord is what the recording store keeps about one Save call
type SaveRecord struct {
	Seq    int64
	EndSeq int64
	Jobs   map[string]store.PersistedJob // deep copy of the snapshot handed to the store
	Err    error
}

// RecStore wraps a DataStore (or keeps the data in memory if Inner is nil): it records every snapshot handed to Save
type RecStore struct {
	Inner store.DataStore
	Log   *Log
	// Delay slows Save down (to let changes land during a save)
	Delay time.Duration
	// OnSave is called after the inner save succeeded (e.g. to copy the data file aside)
	OnSave func(n int)
	// Fail, if set, is asked before every save (n = 1, 2, ...): a non-nil error is returned by Save instead of saving
	Fail func(n int) error

	mu    sync.Mutex
	mem   []byte
	saves []*SaveRecord
}

func deepCopyData(d *store.PersistedData) (*store.PersistedData, []byte) {
	b, err := json.Marshal(d)
	if err != nil {
		panic(err)
	}
	var c store.PersistedData
	if err := json.Unmarshal(b, &c); err != nil {
		panic(err)
	}
	return &c, b
}

func (r *RecStore) Load() (*store.PersistedData, error) {
	if r.Inner != nil {
		return r.Inner.Load()
	}
	r.mu.Lock()
	defer r.mu.Unlock()
	if len(r.mem) == 0 {
		return &store.PersistedData{}, nil
	}
	var c store.PersistedData
	if err := json.Unmarshal(r.mem, &c); err != nil {
		return nil, err
	}
	return &c, nil
}

func (r *RecStore) Save(d *store.PersistedData) error {
	c, b := deepCopyData(d)
	sum := sha256.Sum256(b)
	rec := &SaveRecord{Jobs: map[string]store.PersistedJob{}}
	for _, j := range c.Jobs {
		rec.Jobs[j.ID.String()] = j
	}
	if r.Log != nil {
		rec.Seq = r.Log.Add(Event{Kind: KSaveBegin, Arg: fmt.Sprintf("%d jobs", len(c.Jobs)), Res: hex.EncodeToString(sum[:6])})
	}
	if r.Delay > 0 {
		time.Sleep(r.Delay)
	}
	var err error
	if r.Fail != nil {
		r.mu.Lock()
		n := len(r.saves) + 1
		r.mu.Unlock()
		err = r.Fail(n)
	}
	if err == nil && r.Inner != nil {
		err = r.Inner.Save(d)
	}
	r.mu.Lock()
	if err == nil {
		r.mem = b
	}
	rec.Err = err
	r.saves = append(r.saves, rec)
	n := len(r.saves)
	r.mu.Unlock()
	if err == nil && r.OnSave != nil {
		r.OnSave(n)
	}
	if r.Log != nil {
		rec.EndSeq = r.Log.Add(Event{Kind: KSaveEnd, Res: fmt.Sprint(err)})
	}
	return err
}

// Saves returns the records of all Save calls so far
func (r *RecStore) Saves() []*SaveRecord {
	r.mu.Lock()
	defer r.mu.Unlock()
	return append([]*SaveRecord(nil), r.saves...)
}

// SaveCount returns the number of Save calls
func (r *RecStore) SaveCount() int {
	r.mu.Lock()
	defer r.mu.Unlock()
	return len(r.saves)
}

// MemOutputStore is an in-memory OutputStore that records removals
type MemOutputStore struct {
	mu      sync.Mutex
	data    map[string]*bytes.Buffer
	Removed map[string]int
}

func NewMemOutputStore() *MemOutputStore {
	return &MemOutputStore{data: map[string]*bytes.Buffer{}, Removed: map[string]int{}}
}

type memWriter struct {
	s   *MemOutputStore
	key string
}

func (w *memWriter) Write(p []byte) (int, error) {
	w.s.mu.Lock()
	defer w.s.mu.Unlock()
	b := w.s.data[w.key]
	if b == nil {
		b = &bytes.Buffer{}
		w.s.data[w.key] = b
	}
	return b.Write(p)
}
func (w *memWriter) Close() error { return nil }

func (s *MemOutputStore) Writer(jobID, taskName, outputName string) (io.WriteCloser, error) {
	return &memWriter{s: s, key: jobID + "/" + taskName + "/" + outputName}, nil
}

func (s *MemOutputStore) Reader(jobID, taskName, outputName string) (io.ReadCloser, error) {
	s.mu.Lock()
	defer s.mu.Unlock()
	b := s.data[jobID+"/"+taskName+"/"+outputName]
	if b == nil {
		return nil, fmt.Errorf("no output")
	}
	return io.NopCloser(bytes.NewReader(append([]byte(nil), b.Bytes()...))), nil
}

func (s *MemOutputStore) Remove(jobID string) error {
	s.mu.Lock()
	defer s.mu.Unlock()
	s.Removed[jobID]++
	for k := range s.data {
		if len(k) > len(jobID) && k[:len(jobID)+1] == jobID+"/" {
			delete(s.data, k)
		}
	}
	return nil
}

// RemovedIDs returns the sorted ids whose logs were removed
func (s *MemOutputStore) RemovedIDs() []string {
	s.mu.Lock()
	defer s.mu.Unlock()
	var out []string
	for k := range s.Removed {
		out = append(out, k)
	}
	sort.Strings(out)
	return out
}

var _ taskctl.OutputStore = &MemOutputStore{}
var _ store.DataStore = &RecStore{}
