package core

import (
	"context"
	"fmt"
	"sort"
	"strings"
	"sync"
	"time"

	"github.com/Flowpack/prunner"
	"github.com/Flowpack/prunner/definition"
	"github.com/Flowpack/prunner/store"
	"github.com/Flowpack/prunner/taskctl"
	"github.com/gofrs/uuid"
)

// TaskSnap is a deep copy of the reported state of one task of a job
type TaskSnap struct {
	Name         string            `json:"name"`
	Status       string            `json:"status"`
	Start        *time.Time        `json:"start,omitempty"`
	End          *time.Time        `json:"end,omitempty"`
	Skipped      bool              `json:"skipped,omitempty"`
	ExitCode     int16             `json:"exitCode,omitempty"`
	Errored      bool              `json:"errored,omitempty"`
	Error        string            `json:"error,omitempty"`
	HasError     bool              `json:"hasError,omitempty"`
	Canceled     bool              `json:"canceled,omitempty"`
	DependsOn    []string          `json:"dependsOn,omitempty"`
	Script       []string          `json:"script,omitempty"`
	AllowFailure bool              `json:"allowFailure,omitempty"`
	Env          map[string]string `json:"env,omitempty"`
}

// JobSnap is a deep copy of the reported state of a job, taken under the runner's own lock (ReadJob / IterateJobs)
type JobSnap struct {
	ID         string            `json:"id"`
	Pipeline   string            `json:"pipeline"`
	Completed  bool              `json:"completed,omitempty"`
	Canceled   bool              `json:"canceled,omitempty"`
	Created    time.Time         `json:"created"`
	Start      *time.Time        `json:"start,omitempty"`
	End        *time.Time        `json:"end,omitempty"`
	User       string            `json:"user,omitempty"`
	LastError  string            `json:"lastError,omitempty"`
	HasError   bool              `json:"hasError,omitempty"`
	Variables  map[string]any    `json:"variables,omitempty"`
	StartDelay time.Duration     `json:"startDelay,omitempty"`
	Env        map[string]string `json:"env,omitempty"`
	Tasks      []TaskSnap        `json:"tasks"`
}

func (j *JobSnap) Waiting() bool  { return j.Start == nil && !j.Canceled }
func (j *JobSnap) Running() bool  { return j.Start != nil && !j.Completed && !j.Canceled }
func (j *JobSnap) Terminal() bool { return j.Completed || j.Canceled }

// Executing is the property's notion: started and not yet reported completed (a canceled running job still executes
// until its tasks have stopped and it is reported completed)
func (j *JobSnap) Executing() bool { return j.Start != nil && !j.Completed }

func (j *JobSnap) Task(name string) *TaskSnap {
	for i := range j.Tasks {
		if j.Tasks[i].Name == name {
			return &j.Tasks[i]
		}
	}
	return nil
}

func copyTime(t *time.Time) *time.Time {
	if t == nil {
		return nil
	}
	c := *t
	return &c
}

// DeepCopyAny copies JSON-like values
func DeepCopyAny(v any) any {
	switch x := v.(type) {
	case map[string]any:
		m := make(map[string]any, len(x))
		for k, vv := range x {
			m[k] = DeepCopyAny(vv)
		}
		return m
	case []any:
		s := make([]any, len(x))
		for i, vv := range x {
			s[i] = DeepCopyAny(vv)
		}
		return s
	default:
		return v
	}
}

// SnapJob builds a deep copy; must be called inside ReadJob / IterateJobs
func SnapJob(j *prunner.PipelineJob) JobSnap {
	s := JobSnap{
		ID: j.ID.String(), Pipeline: j.Pipeline, Completed: j.Completed, Canceled: j.Canceled,
		Created: j.Created, Start: copyTime(j.Start), End: copyTime(j.End), User: j.User, StartDelay: j.StartDelay,
	}
	if j.LastError != nil {
		s.HasError = true
		s.LastError = j.LastError.Error()
	}
	if j.Variables != nil {
		s.Variables = DeepCopyAny(map[string]any(j.Variables)).(map[string]any)
	}
	if j.Env != nil {
		s.Env = make(map[string]string, len(j.Env))
		for k, v := range j.Env {
			s.Env[k] = v
		}
	}
	for _, t := range j.Tasks {
		ts := TaskSnap{
			Name: t.Name, Status: t.Status, Start: copyTime(t.Start), End: copyTime(t.End), Skipped: t.Skipped,
			ExitCode: t.ExitCode, Errored: t.Errored, Canceled: t.Canceled, AllowFailure: t.AllowFailure,
			DependsOn: append([]string(nil), t.DependsOn...), Script: append([]string(nil), t.Script...),
		}
		if t.Error != nil {
			ts.HasError = true
			ts.Error = t.Error.Error()
		}
		if t.Env != nil {
			ts.Env = make(map[string]string, len(t.Env))
			for k, v := range t.Env {
				ts.Env[k] = v
			}
		}
		s.Tasks = append(s.Tasks, ts)
	}
	return s
}

type iterState struct {
	lastChange int64 // iteration count at which the status map last differed from the one of the previous iteration
	count      int64
	lastSeq    int64
	statuses   map[string]int32
	parked     bool
	sawCancel  bool
	release    chan struct{}
	parkPred   func(count int64, st map[string]int32) bool
}

// Sys wraps one PipelineRunner under test with monitored collaborators
type Sys struct {
	Log   *Log
	Gates *Gates
	R     *prunner.PipelineRunner
	Store store.DataStore
	Out   taskctl.OutputStore

	ctx    context.Context
	cancel context.CancelFunc

	mu      sync.Mutex
	runners map[string][]*MonRunner // per job id (a second entry is a second start of the job)
	iters   map[string]*iterState
	parkAll func(job string, count int64, st map[string]int32) bool
	// MakeRunner can be set to use another runner (e.g. the real TaskRunner); nil = monitored runner
	MakeRunner func(j *prunner.PipelineJob) taskctl.Runner
	callSeq    int64
	started    map[string]bool // jobs started by this runner instance (jobs loaded from a store never were)

	// seams for the harness's own tests
	testAfterSnapshot func()
	testIterBlock     func(job string, count int64)
}

// EndConstructorContext ends the context that was handed to NewPipelineRunner (an embedder that built the runner inside
// a set-up function with a deferred cancel, or with a timeout context): the context is documented to stop the periodic
// persist loop, the runner itself keeps working until Shutdown
func (s *Sys) EndConstructorContext() { s.cancel() }

// StartedJobs lists the jobs this runner instance started
func (s *Sys) StartedJobs() []string {
	s.mu.Lock()
	defer s.mu.Unlock()
	var out []string
	for id := range s.started {
		out = append(out, id)
	}
	sort.Strings(out)
	return out
}

// WasStarted reports whether the job was started by this runner instance
func (s *Sys) WasStarted(job string) bool {
	s.mu.Lock()
	defer s.mu.Unlock()
	return s.started[job]
}

var (
	registryMu sync.RWMutex
	registry   = map[string]*Sys{} // job id -> owning Sys (for the scheduler iteration hook)
	allSys     = map[*Sys]struct{}{}
	hooksOnce  sync.Once
)

func installHooks() {
	hooksOnce.Do(func() {
		taskctl.VerifSetIterationHook(func(jobID string, statuses map[string]int32) {
			registryMu.RLock()
			s := registry[jobID]
			registryMu.RUnlock()
			if s != nil {
				s.onIteration(jobID, statuses)
			}
		})
		prunner.VerifSetEventHook(func(kind string, id uuid.UUID, phase string) {
			registryMu.RLock()
			targets := make([]*Sys, 0, len(allSys))
			for s := range allSys {
				targets = append(targets, s)
			}
			registryMu.RUnlock()
			for _, s := range targets {
				s.onEvent(kind, id.String(), phase)
			}
		})
	})
}

// SetPause sets the scheduler poll pause for schedulers created afterwards (hook H1)
func SetPause(d time.Duration) { taskctl.VerifSetPause(d) }

// NewSys creates the runner under test. st and out may be nil.
func NewSys(defs *definition.PipelinesDef, st store.DataStore, out taskctl.OutputStore) (*Sys, error) {
	installHooks()
	s := &Sys{Log: NewLog(), Gates: NewGates(), Store: st, Out: out, runners: map[string][]*MonRunner{}, iters: map[string]*iterState{}}
	s.ctx, s.cancel = context.WithCancel(context.Background())
	registryMu.Lock()
	allSys[s] = struct{}{}
	registryMu.Unlock()
	if rs, ok := st.(*RecStore); ok && rs.Log == nil {
		rs.Log = s.Log
	}
	r, err := prunner.NewPipelineRunner(s.ctx, defs, s.createTaskRunner, st, out)
	if err != nil {
		s.Close()
		return nil, err
	}
	r.ShutdownPollInterval = 2 * time.Millisecond
	s.R = r
	return s, nil
}

// Close stops the persist loop and unregisters the Sys
func (s *Sys) Close() {
	s.cancel()
	registryMu.Lock()
	delete(allSys, s)
	for id, o := range registry {
		if o == s {
			delete(registry, id)
		}
	}
	registryMu.Unlock()
	// release parked loops so that goroutines can end
	s.mu.Lock()
	for _, it := range s.iters {
		it.parkPred = nil
		if it.parked {
			it.parked = false
			close(it.release)
		}
	}
	s.parkAll = nil
	s.mu.Unlock()
}

func (s *Sys) createTaskRunner(j *prunner.PipelineJob) taskctl.Runner {
	id := j.ID.String()
	registryMu.Lock()
	registry[id] = s
	registryMu.Unlock()
	s.Log.Add(Event{Kind: KNewRunner, Job: id, Pipe: j.Pipeline})
	s.mu.Lock()
	if s.started == nil {
		s.started = map[string]bool{}
	}
	s.started[id] = true
	s.mu.Unlock()
	if s.MakeRunner != nil {
		return s.MakeRunner(j)
	}
	m := newMonRunner(s.Log, s.Gates, id, j.Pipeline, j.Env)
	s.mu.Lock()
	s.runners[id] = append(s.runners[id], m)
	s.mu.Unlock()
	return m
}

func (s *Sys) onEvent(kind, id, phase string) {
	switch kind {
	case "delay-handler":
		if phase == "enter" {
			s.Log.Add(Event{Kind: KDelayEnter, Job: id})
		} else {
			s.Log.Add(Event{Kind: KDelayExit, Job: id})
		}
	case "cancel-spawned":
		if phase == "enter" {
			s.Log.Add(Event{Kind: KCancelSpawned, Job: id})
		}
	}
}

func (s *Sys) onIteration(job string, st map[string]int32) {
	seq := s.Log.NextSeq()
	afterCancel := s.Log.CancelEntered(job)
	s.mu.Lock()
	it := s.iters[job]
	if it == nil {
		it = &iterState{}
		s.iters[job] = it
	}
	if afterCancel && !it.sawCancel {
		it.sawCancel = true
		cp := make(map[string]int32, len(st))
		for k, v := range st {
			cp[k] = v
		}
		s.mu.Unlock()
		s.Log.Add(Event{Kind: KIterAfterCancel, Job: job, Data: cp})
		s.mu.Lock()
	}
	it.count++
	it.lastSeq = seq
	if !sameStatuses(it.statuses, st) {
		it.lastChange = it.count
	}
	it.statuses = st
	park := false
	if it.parkPred != nil && it.parkPred(it.count, st) {
		park = true
		it.parkPred = nil
	} else if s.parkAll != nil && s.parkAll(job, it.count, st) {
		park = true
	}
	var ch chan struct{}
	if park {
		it.parked = true
		it.release = make(chan struct{})
		ch = it.release
	}
	blk, cnt := s.testIterBlock, it.count
	s.mu.Unlock()
	if blk != nil {
		blk(job, cnt)
	}
	if ch != nil {
		<-ch
	}
}

// ParkWhen parks the scheduler loop of the job at the first iteration boundary where pred holds (one-shot)
func (s *Sys) ParkWhen(job string, pred func(count int64, st map[string]int32) bool) {
	s.mu.Lock()
	it := s.iters[job]
	if it == nil {
		it = &iterState{}
		s.iters[job] = it
	}
	it.parkPred = pred
	s.mu.Unlock()
}

// SetParkAll installs a predicate evaluated at every iteration of every job (stress parker)
func (s *Sys) SetParkAll(f func(job string, count int64, st map[string]int32) bool) {
	s.mu.Lock()
	s.parkAll = f
	s.mu.Unlock()
}

// Parked reports whether the loop of the job is currently parked, and the statuses it saw
func (s *Sys) Parked(job string) (bool, map[string]int32) {
	s.mu.Lock()
	defer s.mu.Unlock()
	it := s.iters[job]
	if it == nil {
		return false, nil
	}
	return it.parked, it.statuses
}

// ParkedJobs lists the jobs whose loop is parked
func (s *Sys) ParkedJobs() []string {
	s.mu.Lock()
	defer s.mu.Unlock()
	var out []string
	for j, it := range s.iters {
		if it.parked {
			out = append(out, j)
		}
	}
	sort.Strings(out)
	return out
}

// Unpark releases a parked loop
func (s *Sys) Unpark(job string) {
	s.mu.Lock()
	it := s.iters[job]
	if it != nil && it.parked {
		it.parked = false
		close(it.release)
	}
	s.mu.Unlock()
}

// IterCount returns the number of loop iterations of the job seen so far and the iteration at which the status map last changed
func (s *Sys) IterCount(job string) (int64, int64) {
	s.mu.Lock()
	defer s.mu.Unlock()
	it := s.iters[job]
	if it == nil {
		return 0, 0
	}
	return it.count, it.lastChange
}

func sameStatuses(a, b map[string]int32) bool {
	if len(a) != len(b) {
		return false
	}
	for k, v := range a {
		if w, ok := b[k]; !ok || w != v {
			return false
		}
	}
	return true
}

// Runners returns the monitored runners created for the job
func (s *Sys) Runners(job string) []*MonRunner {
	s.mu.Lock()
	defer s.mu.Unlock()
	return append([]*MonRunner(nil), s.runners[job]...)
}

// ---- API at the client boundary: call event before invoking, return event after the reply ----

// ErrClass maps an error of ScheduleAsync / CancelJob to a stable class name
func ErrClass(err error) string {
	if err == nil {
		return "ok"
	}
	msg := err.Error()
	switch {
	case err == prunner.ErrJobNotFound:
		return "not-found"
	case err == prunner.ErrShuttingDown:
		return "shutting-down"
	case strings.Contains(msg, "queueing disabled"):
		return "no-queue"
	case strings.Contains(msg, "queue limit reached"):
		return "queue-full"
	case strings.Contains(msg, "is not defined"):
		return "undefined"
	case strings.Contains(msg, "already completed"):
		return "already-completed"
	}
	return "error:" + msg
}

func (s *Sys) call(client int, op, pipe, job, arg string) int64 {
	s.mu.Lock()
	s.callSeq++
	id := s.callSeq
	s.mu.Unlock()
	s.Log.Add(Event{Kind: KCall, Client: client, Op: op, Pipe: pipe, Job: job, Arg: arg, CallID: id})
	return id
}

func (s *Sys) ret(client int, op, pipe, job, res string, callID int64, data any) {
	s.Log.Add(Event{Kind: KRet, Client: client, Op: op, Pipe: pipe, Job: job, Res: res, CallID: callID, Data: data})
}

// Schedule calls ScheduleAsync; returns the job id ("" on rejection) and the result class
func (s *Sys) Schedule(client int, pipeline string, vars map[string]interface{}, user string) (string, string) {
	c := s.call(client, "schedule", pipeline, "", "")
	j, err := s.R.ScheduleAsync(pipeline, prunner.ScheduleOpts{Variables: vars, User: user})
	id := ""
	if err == nil && j != nil {
		id = j.ID.String()
	}
	cls := ErrClass(err)
	s.ret(client, "schedule", pipeline, id, cls, c, nil)
	return id, cls
}

// ScheduleHTTP issues the schedule request through the HTTP handler (POST /pipelines/schedule with a valid token)
func (s *Sys) ScheduleHTTP(client int, api *API, pipeline string, vars map[string]interface{}) (string, string) {
	c := s.call(client, "schedule", pipeline, "", "http")
	code, id, msg := api.ScheduleHTTP(pipeline, vars)
	cls := "ok"
	switch {
	case code == 202:
	case code == 503:
		cls = "shutting-down"
		id = ""
	default:
		id = ""
		switch {
		case strings.Contains(msg, "queueing disabled"):
			cls = "no-queue"
		case strings.Contains(msg, "queue limit reached"):
			cls = "queue-full"
		case strings.Contains(msg, "is not defined"):
			cls = "undefined"
		default:
			cls = fmt.Sprintf("error:%d:%s", code, msg)
		}
	}
	s.ret(client, "schedule", pipeline, id, cls, c, nil)
	return id, cls
}

// Cancel calls CancelJob
func (s *Sys) Cancel(client int, job string) string {
	c := s.call(client, "cancel", "", job, "")
	err := s.R.CancelJob(uuid.FromStringOrNil(job))
	cls := ErrClass(err)
	s.ret(client, "cancel", "", job, cls, c, nil)
	return cls
}

// FireDelay calls the exported StartDelayedJob exactly like the start delay timer of the job does
func (s *Sys) FireDelay(client int, job string) {
	c := s.call(client, "fire-delay", "", job, "")
	s.R.StartDelayedJob(uuid.FromStringOrNil(job))
	s.ret(client, "fire-delay", "", job, "ok", c, nil)
}

// ReadJob returns a snapshot of one job
func (s *Sys) ReadJob(job string) (JobSnap, bool) {
	var snap JobSnap
	err := s.R.ReadJob(uuid.FromStringOrNil(job), func(j *prunner.PipelineJob) { snap = SnapJob(j) })
	return snap, err == nil
}

// ReadJobRec is ReadJob with call/return events (stress clients)
func (s *Sys) ReadJobRec(client int, job string) (JobSnap, bool) {
	c := s.call(client, "readjob", "", job, "")
	snap, ok := s.ReadJob(job)
	s.ret(client, "readjob", "", job, fmt.Sprint(ok), c, nil)
	return snap, ok
}

// View is an atomic snapshot of all jobs (one IterateJobs call), sorted by creation time and id
type View struct {
	Jobs []JobSnap
}

func (v *View) ByID(id string) *JobSnap {
	for i := range v.Jobs {
		if v.Jobs[i].ID == id {
			return &v.Jobs[i]
		}
	}
	return nil
}

// Snapshot takes an atomic snapshot through IterateJobs; if client >= 0 the call is recorded
func (s *Sys) Snapshot(client int) View {
	var c int64
	if client >= 0 {
		c = s.call(client, "snapshot", "", "", "")
	}
	var v View
	s.R.IterateJobs(func(j *prunner.PipelineJob) { v.Jobs = append(v.Jobs, SnapJob(j)) })
	sort.SliceStable(v.Jobs, func(a, b int) bool {
		if !v.Jobs[a].Created.Equal(v.Jobs[b].Created) {
			return v.Jobs[a].Created.Before(v.Jobs[b].Created)
		}
		return v.Jobs[a].ID < v.Jobs[b].ID
	})
	if client >= 0 {
		s.ret(client, "snapshot", "", "", "ok", c, SummarizeView(v))
	}
	return v
}

// ViewSummary is the part of a snapshot kept in the log for offline checkers
type ViewSummary struct {
	Running map[string][]string `json:"running"` // per pipeline: executing job ids
	Waiting map[string][]string `json:"waiting"` // per pipeline: waiting job ids in creation order
}

func SummarizeView(v View) ViewSummary {
	sum := ViewSummary{Running: map[string][]string{}, Waiting: map[string][]string{}}
	for i := range v.Jobs {
		j := &v.Jobs[i]
		if j.Executing() {
			sum.Running[j.Pipeline] = append(sum.Running[j.Pipeline], j.ID)
		} else if j.Waiting() {
			sum.Waiting[j.Pipeline] = append(sum.Waiting[j.Pipeline], j.ID)
		}
	}
	return sum
}

// ListPipelines calls ListPipelines
func (s *Sys) ListPipelines(client int) []prunner.PipelineInfo {
	var c int64
	if client >= 0 {
		c = s.call(client, "list", "", "", "")
	}
	res := s.R.ListPipelines()
	if client >= 0 {
		s.ret(client, "list", "", "", "ok", c, nil)
	}
	return res
}

// Replace calls ReplaceDefinitions
func (s *Sys) Replace(client int, defs *definition.PipelinesDef, note string) {
	c := s.call(client, "reload", "", "", note)
	s.R.ReplaceDefinitions(defs)
	s.ret(client, "reload", "", "", "ok", c, nil)
}

// Save calls SaveToStore
func (s *Sys) Save(client int) {
	c := s.call(client, "save", "", "", "")
	s.R.SaveToStore()
	s.ret(client, "save", "", "", "ok", c, nil)
}

// Shutdown calls Shutdown
func (s *Sys) Shutdown(client int, ctx context.Context, note string) error {
	c := s.call(client, "shutdown", "", "", note)
	err := s.R.Shutdown(ctx)
	res := "ok"
	if err != nil {
		res = "forced"
	}
	s.ret(client, "shutdown", "", "", res, c, nil)
	return err
}

// Note records a driver annotation
func (s *Sys) Note(format string, args ...any) {
	s.Log.Add(Event{Kind: KNote, Arg: fmt.Sprintf(format, args...)})
}

// Release releases a task gate and records it
func (s *Sys) Release(job, taskName string, out Outcome) {
	s.Log.Add(Event{Kind: KGateRelease, Job: job, Task: taskName, Res: out.Kind.String()})
	s.Gates.Release(job, taskName, out)
}
