package core

import (
	"bytes"
	"encoding/json"
	"fmt"
	"net/http"
	"net/http/httptest"
	"net/url"
	"time"

	"github.com/go-chi/jwtauth/v5"

	"github.com/Flowpack/prunner"
	"github.com/Flowpack/prunner/server"
	"github.com/Flowpack/prunner/taskctl"
)

// API drives the real http.Handler of the server package in-process
type API struct {
	H      http.Handler
	Auth   *jwtauth.JWTAuth
	Secret string
	Token  string
}

// NewAPI builds the server on top of a runner exactly like app.go does
func NewAPI(r *prunner.PipelineRunner, out taskctl.OutputStore, secret string, profiling bool) *API {
	auth := jwtauth.New("HS256", []byte(secret), nil)
	noop := func(next http.Handler) http.Handler { return next }
	srv := server.NewServer(r, out, noop, auth, profiling)
	a := &API{H: srv, Auth: auth, Secret: secret}
	claims := map[string]interface{}{"sub": "harness"}
	jwtauth.SetIssuedNow(claims)
	_, a.Token, _ = auth.Encode(claims)
	return a
}

// Do issues a request with the valid token
func (a *API) Do(method, path string, query url.Values, body any) (int, []byte) {
	var rd *bytes.Reader
	if body != nil {
		b, _ := json.Marshal(body)
		rd = bytes.NewReader(b)
	} else {
		rd = bytes.NewReader(nil)
	}
	u := path
	if query != nil {
		u += "?" + query.Encode()
	}
	req := httptest.NewRequest(method, u, rd)
	req.Header.Set("Authorization", "Bearer "+a.Token)
	rec := httptest.NewRecorder()
	a.H.ServeHTTP(rec, req)
	return rec.Code, rec.Body.Bytes()
}

// DoRaw issues a request with the valid token and the given bytes as body (which need not be valid JSON)
func (a *API) DoRaw(method, path string, body []byte) (int, []byte) {
	req := httptest.NewRequest(method, path, bytes.NewReader(body))
	req.Header.Set("Authorization", "Bearer "+a.Token)
	rec := httptest.NewRecorder()
	a.H.ServeHTTP(rec, req)
	return rec.Code, rec.Body.Bytes()
}

// APITask mirrors the JSON of a task in the API
type APITask struct {
	Name      string     `json:"name"`
	DependsOn []string   `json:"dependsOn"`
	Status    string     `json:"status"`
	Start     *time.Time `json:"start"`
	End       *time.Time `json:"end"`
	Skipped   bool       `json:"skipped"`
	ExitCode  int16      `json:"exitCode"`
	Errored   bool       `json:"errored"`
	Error     *string    `json:"error"`
}

// APIJob mirrors the JSON of a job in the API
type APIJob struct {
	ID        string         `json:"id"`
	Pipeline  string         `json:"pipeline"`
	Tasks     []APITask      `json:"tasks"`
	Completed bool           `json:"completed"`
	Canceled  bool           `json:"canceled"`
	Errored   bool           `json:"errored"`
	Created   time.Time      `json:"created"`
	Start     *time.Time     `json:"start"`
	End       *time.Time     `json:"end"`
	LastError *string        `json:"lastError"`
	Variables map[string]any `json:"variables"`
	User      string         `json:"user"`
}

// APIPipeline mirrors the JSON of a pipeline in the API
type APIPipeline struct {
	Pipeline    string `json:"pipeline"`
	Schedulable bool   `json:"schedulable"`
	Running     bool   `json:"running"`
}

// JobDetail calls GET /job/detail
func (a *API) JobDetail(id string) (*APIJob, int, error) {
	code, body := a.Do("GET", "/job/detail", url.Values{"id": {id}}, nil)
	if code != 200 {
		return nil, code, nil
	}
	var j APIJob
	if err := json.Unmarshal(body, &j); err != nil {
		return nil, code, fmt.Errorf("decode /job/detail: %w: %s", err, body)
	}
	return &j, code, nil
}

// PipelinesJobs calls GET /pipelines/jobs
func (a *API) PipelinesJobs() ([]APIPipeline, []APIJob, error) {
	code, body := a.Do("GET", "/pipelines/jobs", nil, nil)
	if code != 200 {
		return nil, nil, fmt.Errorf("GET /pipelines/jobs: %d", code)
	}
	var r struct {
		Pipelines []APIPipeline `json:"pipelines"`
		Jobs      []APIJob      `json:"jobs"`
	}
	if err := json.Unmarshal(body, &r); err != nil {
		return nil, nil, err
	}
	return r.Pipelines, r.Jobs, nil
}

// Pipelines calls GET /pipelines
func (a *API) Pipelines() ([]APIPipeline, error) {
	code, body := a.Do("GET", "/pipelines/", nil, nil)
	if code != 200 {
		return nil, fmt.Errorf("GET /pipelines/: %d", code)
	}
	var r struct {
		Pipelines []APIPipeline `json:"pipelines"`
	}
	if err := json.Unmarshal(body, &r); err != nil {
		return nil, err
	}
	return r.Pipelines, nil
}

// ScheduleHTTP calls POST /pipelines/schedule; returns status code, job id and the error text
func (a *API) ScheduleHTTP(pipeline string, vars map[string]any) (int, string, string) {
	code, body := a.Do("POST", "/pipelines/schedule", nil, map[string]any{"pipeline": pipeline, "variables": vars})
	var r struct {
		JobID string `json:"jobId"`
		Error string `json:"error"`
	}
	_ = json.Unmarshal(body, &r)
	return code, r.JobID, r.Error
}

// CancelHTTP calls POST /job/cancel
func (a *API) CancelHTTP(id string) int {
	code, _ := a.Do("POST", "/job/cancel", url.Values{"id": {id}}, nil)
	return code
}
