//go:build verif

package core

import (
	"sync"
	"testing"
	"time"

	"github.com/Flowpack/prunner/definition"
)

// The polling goroutine may be descheduled between taking the snapshot and judging it (seen on a loaded machine:
// thorough C15, cases 15781 / 23917). Loop counters read after the snapshot then vouched for a snapshot that still
// showed every task "waiting" although the loop had launched them meanwhile. The counters must be read before it.
func TestQuiesceDoesNotJudgeStaleSnapshotWithFreshCounters(t *testing.T) {
	SetPause(200 * time.Microsecond)
	defs := &definition.PipelinesDef{Pipelines: map[string]definition.PipelineDef{"p": {Concurrency: 1, Tasks: map[string]definition.TaskDef{"a": {Script: []string{"x"}}}}}}
	sys, err := NewSys(defs, nil, nil)
	if err != nil {
		t.Fatal(err)
	}
	defer sys.Close()
	hold := make(chan struct{})
	sys.Gates.SetBeforeRun(func(job, task string) { <-hold })
	firstPass := make(chan struct{})
	sys.testIterBlock = func(job string, count int64) {
		if count == 1 {
			<-firstPass // the loop stays in front of its first pass
		}
	}
	var once sync.Once
	calls := 0
	var jobID string
	sys.testAfterSnapshot = func() {
		calls++
		if calls == 2 {
			// this snapshot shows task a "waiting"; now let the loop launch it and iterate before the judgement
			once.Do(func() { close(firstPass) })
			for {
				if c, _ := sys.IterCount(jobID); c >= 5 {
					return
				}
				time.Sleep(100 * time.Microsecond)
			}
		}
	}
	id, cls := sys.Schedule(0, "p", nil, "u")
	if cls != "ok" {
		t.Fatal(cls)
	}
	jobID = id
	done := make(chan struct{})
	go func() {
		defer close(done)
		if _, err := sys.Quiesce(QuiesceOpts{}); err != nil {
			t.Error(err)
		}
	}()
	select {
	case <-done:
		t.Fatalf("quiescence declared although task a is launched and has not reached its gate (AtGate=%v)", sys.Gates.AtGate(id, "a"))
	case <-time.After(100 * time.Millisecond):
	}
	close(hold)
	<-done
	if !sys.Gates.AtGate(id, "a") {
		t.Fatal("quiescence declared before the task reached its gate")
	}
}
