package core

import (
	"errors"
	"fmt"
	"strings"
	"sync/atomic"
	"time"
)

// ErrWatchdog is returned when logical quiescence was not reached within the (generous) wall-clock watchdog.
// It never is a verdict: the case is inconclusive unless the offline oracles find a violation in the partial log.
var ErrWatchdog = errors.New("watchdog: no logical quiescence")

// ErrCancelNotDelivered is returned when a stop that was initiated for a job (hook H2: the cancel goroutine was about to be
// spawned, inside the acknowledged cancel call) has not reached the job's runner 5 s later. The goroutine is started right after the hook, so this is not a matter of scheduling latency: the
// acknowledged cancel was dropped. (A bounded restatement of "an acknowledged cancel takes effect".)
var ErrCancelNotDelivered = errors.New("an initiated stop never reached the runner of its job")

// QuiesceOpts tunes what Quiesce waits for
type QuiesceOpts struct {
	Watchdog time.Duration
	// WaitDelayHandlers: jobs whose real start delay timer is expected to fire (job ids); Quiesce waits until the
	// delay handler of each of them has returned (hook H2) if the job is still waiting and not canceled.
	WaitDelayHandlers []string
}

// Quiesce drives nothing; it waits until the system has no enabled internal step left (DESIGN.md 3.5):
//   - every spawned cancel goroutine has returned from runner.Cancel,
//   - for every started, not completed job: every task reported "running" is blocked at its gate, and the scheduler loop
//     has made two full passes after that was observed without any new runner event (or the loop is parked by the driver),
//   - (jobs whose loop has ended are waited for until they are reported completed, which happens in the same critical
//     section as the dequeue of waiting jobs).
//
// It returns the snapshot in which quiescence was observed.
func (s *Sys) Quiesce(o QuiesceOpts) (View, error) {
	if o.Watchdog == 0 {
		o.Watchdog = 30 * time.Second
	}
	deadline := time.Now().Add(o.Watchdog)
	type mark struct {
		count int64
		seq   int64
	}
	marks := map[string]mark{}
	spin := 0
	var undeliveredSince time.Time
	for {
		ok, v, why := s.quiescentOnce(o, func(job string, cnt, lastChange int64) (bool, string) {
			// two full loop passes after the stable observation. cnt / lastChange were read BEFORE the snapshot that is
			// being judged (the polling goroutine may be descheduled for several loop iterations between the snapshot and
			// this evaluation; counters read afterwards would vouch for a state the snapshot does not show)
			last := s.lastRunnerSeq(job)
			m, had := marks[job]
			if !had || last > m.seq {
				marks[job] = mark{count: cnt, seq: s.Log.NextSeq()}
				return false, "loop passes pending"
			}
			// iterations m.count+1.. began after the stable observation; the loop is at a fixpoint if two consecutive
			// iterations of them saw the same stage statuses (the pass between them launched and canceled nothing)
			if cnt >= m.count+2 && lastChange < cnt {
				return true, ""
			}
			return false, "loop passes pending"
		})
		if ok {
			// confirm: a fixpoint is observed again by an independent evaluation, with the same view and without any
			// event in between (iteration ticks only advance the sequence counter, they add no event)
			n1 := s.Log.Len()
			ok2, v2, _ := s.quiescentOnce(o, func(job string, cnt, lastChange int64) (bool, string) {
				m, had := marks[job]
				if !had || s.lastRunnerSeq(job) > m.seq {
					return false, "changed"
				}
				return cnt >= m.count+2 && lastChange < cnt, "changed"
			})
			if ok2 && s.Log.Len() == n1 && sameView(v, v2) {
				return v2, nil
			}
			confirmFailed.Add(1)
			why = fmt.Sprintf("observation not confirmed (second evaluation quiescent=%v, events %d -> %d, same view=%v)", ok2, n1, s.Log.Len(), sameView(v, v2))
		}
		if strings.HasPrefix(why, "cancel goroutine not yet delivered") {
			if undeliveredSince.IsZero() {
				undeliveredSince = time.Now()
			}
			if time.Since(undeliveredSince) > 5*time.Second && time.Since(undeliveredSince) < o.Watchdog {
				return v, fmt.Errorf("%w: %s", ErrCancelNotDelivered, why)
			}
		} else {
			undeliveredSince = time.Time{}
		}
		if time.Now().After(deadline) {
			extra := ""
			for i := range v.Jobs {
				j := &v.Jobs[i]
				if j.Start != nil && !j.Completed && s.WasStarted(j.ID) {
					cnt, lc := s.IterCount(j.ID)
					var sts []string
					for _, t := range j.Tasks {
						sts = append(sts, t.Name+"="+t.Status)
					}
					extra += fmt.Sprintf(" [job %s pipe %s iter=%d lastChange=%d mark=%+v lastRunnerSeq=%d tasks=%v canceled=%v]", j.ID[:8], j.Pipeline, cnt, lc, marks[j.ID], s.lastRunnerSeq(j.ID), sts, j.Canceled)
				}
			}
			return v, fmt.Errorf("%w: %s%s", ErrWatchdog, why, extra)
		}
		spin++
		if spin < 20 {
			time.Sleep(20 * time.Microsecond)
		} else {
			time.Sleep(100 * time.Microsecond)
		}
	}
}

// lastRunnerSeq returns the sequence number of the last runner / gate event of the job
func (s *Sys) lastRunnerSeq(job string) int64 {
	s.Log.mu.Lock()
	defer s.Log.mu.Unlock()
	for i := len(s.Log.evs) - 1; i >= 0; i-- {
		e := &s.Log.evs[i]
		if e.Job != job {
			continue
		}
		switch e.Kind {
		case KRunEnter, KRunExit, KRunRefused, KCancelEnter, KCancelExit, KGateRelease, KNewRunner:
			return e.Seq
		}
	}
	return 0
}

// ConfirmFailures counts quiescence observations that a second evaluation did not confirm (diagnostics)
func ConfirmFailures() int64 { return confirmFailed.Load() }

var confirmFailed atomic.Int64

func sameView(a, b View) bool {
	if len(a.Jobs) != len(b.Jobs) {
		return false
	}
	for i := range a.Jobs {
		x, y := &a.Jobs[i], &b.Jobs[i]
		if x.ID != y.ID || x.Completed != y.Completed || x.Canceled != y.Canceled || (x.Start == nil) != (y.Start == nil) || len(x.Tasks) != len(y.Tasks) {
			return false
		}
		for k := range x.Tasks {
			if x.Tasks[k].Name != y.Tasks[k].Name || x.Tasks[k].Status != y.Tasks[k].Status {
				return false
			}
		}
	}
	return true
}

func (s *Sys) quiescentOnce(o QuiesceOpts, loopPassed func(job string, cnt, lastChange int64) (bool, string)) (bool, View, string) {
	// 1. cancel goroutines: every cancel-spawned has a cancel-exit
	spawned := map[string]int{}
	entered := map[string]int{}
	exited := map[string]int{}
	delayExit := map[string]int{}
	s.Log.mu.Lock()
	for i := range s.Log.evs {
		e := &s.Log.evs[i]
		switch e.Kind {
		case KCancelSpawned:
			spawned[e.Job]++
		case KCancelEnter:
			entered[e.Job]++
		case KCancelExit:
			exited[e.Job]++
		case KDelayExit:
			delayExit[e.Job]++
		}
	}
	s.Log.mu.Unlock()
	stopping := map[string]bool{}
	for _, k := range s.Gates.Stopping() {
		stopping[k[0]] = true
	}
	for j, n := range spawned {
		if entered[j] < n {
			return false, View{}, "cancel goroutine not yet delivered for " + j
		}
		if exited[j] < n && !stopping[j] {
			// runner.Cancel waits for the tasks; it may only be pending while the driver holds a slow task
			return false, View{}, "cancel goroutine in flight for " + j
		}
	}
	// loop counters first, then the snapshot they are used to judge
	type ic struct{ cnt, lastChange int64 }
	pre := map[string]ic{}
	s.mu.Lock()
	for j, it := range s.iters {
		pre[j] = ic{it.count, it.lastChange}
	}
	s.mu.Unlock()
	v := s.Snapshot(-1)
	if s.testAfterSnapshot != nil {
		s.testAfterSnapshot()
	}
	for i := range v.Jobs {
		j := &v.Jobs[i]
		if j.Start == nil || j.Completed || !s.WasStarted(j.ID) {
			continue // not executing (jobs loaded from a store have no scheduler)
		}
		if parked, _ := s.Parked(j.ID); parked {
			// the driver parked this loop deliberately at an iteration boundary: only require that tasks are settled
			for _, t := range j.Tasks {
				if t.Status == "running" && !s.Gates.AtGate(j.ID, t.Name) && !s.Gates.AtStopGate(j.ID, t.Name) {
					return false, v, "task " + t.Name + " of parked job not settled"
				}
			}
			continue
		}
		anyRunning := false
		for _, t := range j.Tasks {
			if t.Status == "running" {
				anyRunning = true
				if !s.Gates.AtGate(j.ID, t.Name) && !s.Gates.AtStopGate(j.ID, t.Name) {
					return false, v, "task " + t.Name + " reported running but not at its gate"
				}
			}
		}
		_ = anyRunning
		if entered[j.ID] > 0 {
			// a stop was delivered to this job: its loop launches nothing any more and ends as soon as the tasks have
			// returned; the job then is reported completed, unless the driver holds a slow task
			held := false
			for _, t := range j.Tasks {
				if s.Gates.AtStopGate(j.ID, t.Name) {
					held = true
				} else if t.Status == "running" {
					return false, v, "task " + t.Name + " of canceled job still returning"
				}
			}
			if !held {
				return false, v, "canceled job " + j.ID + " about to complete"
			}
			continue
		}
		if ok, why := loopPassed(j.ID, pre[j.ID].cnt, pre[j.ID].lastChange); !ok {
			return false, v, why + " for " + j.ID
		}
	}
	for _, id := range o.WaitDelayHandlers {
		j := v.ByID(id)
		if j != nil && j.Waiting() && delayExit[id] == 0 {
			return false, v, "delay handler pending for " + id
		}
	}
	// re-validate: no cancel spawned meanwhile
	return true, v, ""
}

// WaitCancelsDelivered waits (bounded) until every stop that was initiated (hook H2: cancel goroutine about to be spawned)
// has reached its runner. A driver that ends its run by polling job states - not by a logical quiescence - calls this
// before it reads the event log: the job may have ended before the spawned goroutine got the CPU, and an oracle over the
// log must not take "not yet" for "never". Returns false if some stop is still undelivered after the bound.
func (s *Sys) WaitCancelsDelivered(bound time.Duration) bool {
	deadline := time.Now().Add(bound)
	for {
		spawned := map[string]int{}
		entered := map[string]int{}
		s.Log.mu.Lock()
		for i := range s.Log.evs {
			switch e := &s.Log.evs[i]; e.Kind {
			case KCancelSpawned:
				spawned[e.Job]++
			case KCancelEnter:
				entered[e.Job]++
			}
		}
		s.Log.mu.Unlock()
		all := true
		for j, n := range spawned {
			if entered[j] < n {
				all = false
				break
			}
		}
		if all {
			return true
		}
		if time.Now().After(deadline) {
			return false
		}
		time.Sleep(200 * time.Microsecond)
	}
}
