//go:build verif

package core_test

import (
	"testing"
	"time"

	"github.com/Flowpack/prunner/definition"

	"pxverif/core"
)

// a task whose goroutine reaches the runner late (starved machine) must keep the system non-quiescent
func TestQuiesceWaitsForLateRunEntry(t *testing.T) {
	core.SetPause(200 * time.Microsecond)
	defs := &definition.PipelinesDef{Pipelines: map[string]definition.PipelineDef{"p": {Concurrency: 1, Tasks: map[string]definition.TaskDef{"a": {Script: []string{"x"}}, "b": {Script: []string{"y"}, DependsOn: []string{"a"}}}}}}
	sys, err := core.NewSys(defs, nil, nil)
	if err != nil {
		t.Fatal(err)
	}
	defer sys.Close()
	sys.Gates.SetBeforeRun(func(job, task string) { time.Sleep(30 * time.Millisecond) })
	id, cls := sys.Schedule(0, "p", nil, "u")
	if cls != "ok" {
		t.Fatal(cls)
	}
	if _, err := sys.Quiesce(core.QuiesceOpts{}); err != nil {
		t.Fatal(err)
	}
	if !sys.Gates.AtGate(id, "a") {
		j, _ := sys.ReadJob(id)
		t.Fatalf("quiescence declared although task a has not reached its gate; reported status %q", j.Tasks[0].Status)
	}
}
