package core

import (
	"context"
	"errors"
	"fmt"
	"sync"
	"time"

	"github.com/taskctl/taskctl/pkg/task"
)

// OutcomeKind says how a task ends inside the monitored runner
type OutcomeKind int

const (
	OutOK       OutcomeKind = iota // all commands succeed
	OutExitFail                    // a command exits with a non-zero status
	OutErrFail                     // a non-exit-status error (e.g. template / parse error)
	OutCanceled                    // the runner context was canceled while the task was running (not chosen by a driver)
	OutErrQuiet                    // Run returns an error WITHOUT reporting a task change first (the task failed before its script ran)
)

func (k OutcomeKind) String() string {
	switch k {
	case OutOK:
		return "ok"
	case OutExitFail:
		return "exit-fail"
	case OutErrFail:
		return "err-fail"
	case OutCanceled:
		return "canceled"
	}
	return "?"
}

// Outcome is what a driver decides for a task
type Outcome struct {
	Kind OutcomeKind
	Code int16
}

type gateKey struct{ job, task string }

// Gates block every task inside the monitored runner until a driver (or an automatic policy) releases it
type Gates struct {
	okOnStop map[gateKey]bool
	mu       sync.Mutex
	waiting  map[gateKey]chan Outcome
	pending  map[gateKey]Outcome
	// slow-to-stop tasks: after the stop was delivered they stay inside Run until the driver releases them
	slow     map[gateKey]bool
	stopping map[gateKey]chan struct{}
	// BeforeRun, if set, is called when the runner is handed a task, before it decides whether to accept it (a driver can
	// let a cancel be delivered exactly between the scheduler's launch decision and the runner's entry)
	BeforeRun func(job, taskName string)
	// SlowAuto, if set, decides how long a task keeps running after it was told to stop
	SlowAuto func(job, taskName string) time.Duration
	// Auto, if set, is asked when a task reaches its gate; if it returns ok the task proceeds with that outcome after the delay
	Auto func(job, pipeline, taskName string) (out Outcome, delay time.Duration, ok bool)
}

func NewGates() *Gates {
	return &Gates{waiting: map[gateKey]chan Outcome{}, pending: map[gateKey]Outcome{}, slow: map[gateKey]bool{}, stopping: map[gateKey]chan struct{}{}}
}

// MarkSlowStop makes the task slow to stop: when it is told to stop it stays inside Run until ReleaseStop
func (g *Gates) MarkSlowStop(job, taskName string) {
	g.mu.Lock()
	g.slow[gateKey{job, taskName}] = true
	g.mu.Unlock()
}

// AtStopGate reports whether the task was told to stop and is still inside Run (slow to stop)
func (g *Gates) AtStopGate(job, taskName string) bool {
	g.mu.Lock()
	defer g.mu.Unlock()
	_, ok := g.stopping[gateKey{job, taskName}]
	return ok
}

// Stopping lists the tasks that are held at their stop gate
func (g *Gates) Stopping() [][2]string {
	g.mu.Lock()
	defer g.mu.Unlock()
	out := make([][2]string, 0, len(g.stopping))
	for k := range g.stopping {
		out = append(out, [2]string{k.job, k.task})
	}
	return out
}

// ReleaseStop lets a slow task return
func (g *Gates) ReleaseStop(job, taskName string) {
	g.mu.Lock()
	k := gateKey{job, taskName}
	delete(g.slow, k)
	if ch, ok := g.stopping[k]; ok {
		delete(g.stopping, k)
		close(ch)
	}
	g.mu.Unlock()
}

// ReleaseStopOK lets a slow task return as if it had finished its work in spite of the stop (Run returns nil)
func (g *Gates) ReleaseStopOK(job, taskName string) {
	g.mu.Lock()
	if g.okOnStop == nil {
		g.okOnStop = map[gateKey]bool{}
	}
	g.okOnStop[gateKey{job, taskName}] = true
	g.mu.Unlock()
	g.ReleaseStop(job, taskName)
}

func (g *Gates) takeOKOnStop(job, taskName string) bool {
	g.mu.Lock()
	defer g.mu.Unlock()
	k := gateKey{job, taskName}
	ok := g.okOnStop[k]
	delete(g.okOnStop, k)
	return ok
}

// waitStop is called by a task that was told to stop
func (g *Gates) waitStop(job, taskName string) {
	k := gateKey{job, taskName}
	g.mu.Lock()
	if g.slow[k] {
		ch := make(chan struct{})
		g.stopping[k] = ch
		g.mu.Unlock()
		<-ch
		return
	}
	auto := g.SlowAuto
	g.mu.Unlock()
	if auto != nil {
		if d := auto(job, taskName); d > 0 {
			time.Sleep(d)
		}
	}
}

// AtGate reports whether the task is currently blocked at its gate
func (g *Gates) AtGate(job, taskName string) bool {
	g.mu.Lock()
	defer g.mu.Unlock()
	_, ok := g.waiting[gateKey{job, taskName}]
	return ok
}

// Waiting lists all tasks blocked at their gate as (job, task) pairs
func (g *Gates) Waiting() [][2]string {
	g.mu.Lock()
	defer g.mu.Unlock()
	out := make([][2]string, 0, len(g.waiting))
	for k := range g.waiting {
		out = append(out, [2]string{k.job, k.task})
	}
	return out
}

// Release lets the task proceed with the given outcome (also if it has not reached the gate yet)
func (g *Gates) Release(job, taskName string, out Outcome) {
	g.mu.Lock()
	k := gateKey{job, taskName}
	if ch, ok := g.waiting[k]; ok {
		delete(g.waiting, k)
		g.mu.Unlock()
		ch <- out
		return
	}
	g.pending[k] = out
	g.mu.Unlock()
}

// wait blocks until released or until ctx is done (then it returns OutCanceled)
func (g *Gates) wait(ctx context.Context, job, pipeline, taskName string) Outcome {
	k := gateKey{job, taskName}
	g.mu.Lock()
	if out, ok := g.pending[k]; ok {
		delete(g.pending, k)
		g.mu.Unlock()
		return out
	}
	auto := g.Auto
	g.mu.Unlock()
	if auto != nil {
		if out, delay, ok := auto(job, pipeline, taskName); ok {
			if delay > 0 {
				tm := time.NewTimer(delay)
				select {
				case <-tm.C:
				case <-ctx.Done():
					tm.Stop()
					return Outcome{Kind: OutCanceled}
				}
			}
			if ctx.Err() != nil {
				return Outcome{Kind: OutCanceled}
			}
			return out
		}
	}
	ch := make(chan Outcome, 1)
	g.mu.Lock()
	if out, ok := g.pending[k]; ok {
		delete(g.pending, k)
		g.mu.Unlock()
		return out
	}
	g.waiting[k] = ch
	g.mu.Unlock()
	select {
	case out := <-ch:
		return out
	case <-ctx.Done():
		g.mu.Lock()
		if _, still := g.waiting[k]; still {
			delete(g.waiting, k)
			g.mu.Unlock()
			return Outcome{Kind: OutCanceled}
		}
		g.mu.Unlock()
		// a release won the race: it will deliver (buffered channel), but the context is done: behave as canceled
		<-ch
		return Outcome{Kind: OutCanceled}
	}
}

// RunInfo is what a task process would be given; recorded with every run-enter event
type RunInfo struct {
	Commands     []string          `json:"commands"`
	TaskEnv      map[string]string `json:"taskEnv,omitempty"`
	RunnerEnv    map[string]string `json:"runnerEnv,omitempty"`
	Vars         map[string]any    `json:"vars,omitempty"`
	AllowFailure bool              `json:"allowFailure,omitempty"`
}

// ExitStatusError mimics the exit status error of the shell interpreter
type ExitStatusError struct{ Code int16 }

func (e ExitStatusError) Error() string { return fmt.Sprintf("exit status %d", e.Code) }

// ErrOther is the non-exit-status error used by OutErrFail
var ErrOther = errors.New("template: failed to render (monitored runner non-exit error)")

// MonRunner is the monitored implementation of taskctl.Runner handed to NewPipelineRunner through createTaskRunner.
// It reproduces the contract of taskctl.TaskRunner that prunner depends on (see DESIGN.md 3.3).
type MonRunner struct {
	log      *Log
	gates    *Gates
	JobID    string
	Pipeline string
	Env      map[string]string

	ctx    context.Context
	cancel context.CancelFunc

	mu           sync.Mutex
	idle         *sync.Cond // signalled when running drops to 0
	running      int        // number of Run calls in flight (a WaitGroup would be misused: Add concurrent with Wait)
	canceled     bool
	onTaskChange func(t *task.Task)
}

func newMonRunner(l *Log, g *Gates, jobID, pipeline string, env map[string]string) *MonRunner {
	ctx, cancel := context.WithCancel(context.Background())
	envCopy := make(map[string]string, len(env))
	for k, v := range env {
		envCopy[k] = v
	}
	m := &MonRunner{log: l, gates: g, JobID: jobID, Pipeline: pipeline, Env: envCopy, ctx: ctx, cancel: cancel}
	m.idle = sync.NewCond(&m.mu)
	return m
}

func (m *MonRunner) SetOnTaskChange(f func(t *task.Task)) { m.onTaskChange = f }

func (m *MonRunner) notify(t *task.Task) {
	if m.onTaskChange != nil {
		m.onTaskChange(t)
	}
}

func strMap(in map[string]interface{}) map[string]string {
	out := make(map[string]string, len(in))
	for k, v := range in {
		out[k] = fmt.Sprint(v)
	}
	return out
}

// Run implements runner.Runner
func (m *MonRunner) Run(t *task.Task) error {
	jobID := m.JobID
	if t.Variables != nil {
		if v, ok := t.Variables.Get("__jobID").(string); ok && v != "" {
			jobID = v
		}
	}

	m.gates.mu.Lock()
	before := m.gates.BeforeRun
	m.gates.mu.Unlock()
	if before != nil {
		before(jobID, t.Name)
	}
	m.mu.Lock()
	if m.canceled {
		m.log.Add(Event{Kind: KRunRefused, Job: jobID, Task: t.Name, Pipe: m.Pipeline})
		m.mu.Unlock()
		return m.ctx.Err()
	}
	info := RunInfo{Commands: append([]string(nil), t.Commands...), RunnerEnv: m.Env, AllowFailure: t.AllowFailure}
	if t.Env != nil {
		info.TaskEnv = strMap(t.Env.Map())
	}
	if t.Variables != nil {
		info.Vars = t.Variables.Map()
	}
	m.log.Add(Event{Kind: KRunEnter, Job: jobID, Task: t.Name, Pipe: m.Pipeline, Data: info})
	m.running++
	m.mu.Unlock()
	defer func() {
		m.mu.Lock()
		m.running--
		if m.running == 0 {
			m.idle.Broadcast()
		}
		m.mu.Unlock()
	}()

	defer func() {
		if !t.Errored && !t.Skipped {
			t.ExitCode = 0
		}
	}()

	t.Start = time.Now()
	m.notify(t)

	out := m.gates.wait(m.ctx, jobID, m.Pipeline, t.Name)

	switch out.Kind {
	case OutOK:
		t.End = time.Now()
		m.log.Add(Event{Kind: KRunExit, Job: jobID, Task: t.Name, Pipe: m.Pipeline, Res: "ok"})
		m.notify(t)
		return nil
	case OutExitFail:
		code := out.Code
		if code == 0 {
			code = 1
		}
		t.ExitCode = code
		if t.AllowFailure {
			m.log.Add(Event{Kind: KRunExit, Job: jobID, Task: t.Name, Pipe: m.Pipeline, Res: "exit-fail-allowed"})
			m.notify(t)
			t.End = time.Now()
			m.notify(t)
			return nil
		}
		t.Errored = true
		t.Error = ExitStatusError{code}
		m.log.Add(Event{Kind: KRunExit, Job: jobID, Task: t.Name, Pipe: m.Pipeline, Res: "exit-fail"})
		m.notify(t)
		return t.Error
	case OutErrFail:
		t.Errored = true
		t.Error = ErrOther
		m.log.Add(Event{Kind: KRunExit, Job: jobID, Task: t.Name, Pipe: m.Pipeline, Res: "err-fail"})
		m.notify(t)
		return t.Error
	case OutErrQuiet:
		m.log.Add(Event{Kind: KRunExit, Job: jobID, Task: t.Name, Pipe: m.Pipeline, Res: "err-quiet"})
		return ErrOther
	default:
		// told to stop: a slow task keeps running for a while
		m.gates.waitStop(jobID, t.Name)
		if m.gates.takeOKOnStop(jobID, t.Name) {
			t.End = time.Now()
			m.log.Add(Event{Kind: KRunExit, Job: jobID, Task: t.Name, Pipe: m.Pipeline, Res: "ok-after-stop"})
			m.notify(t)
			return nil
		}
		t.Errored = true
		t.Error = context.Canceled
		m.log.Add(Event{Kind: KRunExit, Job: jobID, Task: t.Name, Pipe: m.Pipeline, Res: "canceled"})
		m.notify(t)
		return t.Error
	}
}

// Cancel implements runner.Runner: tells running tasks to stop and waits for them
func (m *MonRunner) Cancel() {
	m.mu.Lock()
	m.log.Add(Event{Kind: KCancelEnter, Job: m.JobID, Pipe: m.Pipeline})
	if !m.canceled {
		m.canceled = true
		m.cancel()
	}
	for m.running > 0 {
		m.idle.Wait()
	}
	m.mu.Unlock()
	m.log.Add(Event{Kind: KCancelExit, Job: m.JobID, Pipe: m.Pipeline})
}

// Finish implements runner.Runner
func (m *MonRunner) Finish() {
	m.log.Add(Event{Kind: KFinish, Job: m.JobID, Pipe: m.Pipeline})
}

// SetBeforeRun installs the BeforeRun hook
func (g *Gates) SetBeforeRun(f func(job, taskName string)) {
	g.mu.Lock()
	g.BeforeRun = f
	g.mu.Unlock()
}
