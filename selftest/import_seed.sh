#!/bin/bash
# usage: selftest/import_seed.sh <out-dir-of-agent> <Cxx-letter>   copy a sub-agent's deliverables to seeded/<id>, confirm them
# (verify_seed.sh) and try the quick check of the property against the change (try_wt.sh)
SRC="$1"; ID="$2"; P=${ID%%-*}
cd /verif
mkdir -p seeded/$ID
cp -r "$SRC"/. seeded/$ID/
chmod +x seeded/$ID/demo.sh
selftest/verify_seed.sh seeded/$ID
selftest/try_wt.sh seeded/$ID/patch.diff $P
