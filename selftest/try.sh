#!/bin/bash
# usage: selftest/try.sh <patch.diff> <Cxx> [<Cyy> ...]     apply a seeded change to /repo, run the quick checks, undo it
# prints one line per check: CAUGHT / MISSED / INCONCLUSIVE
P="$(readlink -f "$1")"; shift
cd /repo || exit 2
if ! git diff --quiet; then echo "/repo has uncommitted changes"; exit 2; fi
if ! git apply "$P"; then echo "PATCH-DOES-NOT-APPLY $P"; exit 2; fi
export VERIF_OUT_DIR="$(mktemp -d /tmp/selftest-out.XXXXXX)"   # evidence / replays of a patched tree never land in /verif
trap 'git -C /repo checkout -- . ; git -C /repo clean -fdq; rm -rf "$VERIF_OUT_DIR"' EXIT
for ID in "$@"; do
  OUT=$(cd /verif && VERIF_SEED=${VERIF_SEED:-1} bin/check "$ID" "${TIER:-quick}" 2>&1); RC=$?
  SIGS=$(echo "$OUT" | grep -E '^  [A-Za-z0-9:_-]+' | cut -c1-150 | head -4 | tr '\n' ';')
  case $RC in
    1) echo "CAUGHT $ID: $SIGS";;
    0) echo "MISSED $ID: $(echo "$OUT" | tail -1)";;
    *) echo "INCONCLUSIVE($RC) $ID: $(echo "$OUT" | tail -3 | tr '\n' ' ')";;
  esac
done
