#!/bin/bash
# usage: selftest/verify_seed.sh <seeded-dir>    confirm a seeded change in a scratch worktree (outside /repo and /verif):
#   patch applies, project builds, existing suite passes with it, demonstration fails with it and passes without it.
export GOFLAGS=-mod=mod GOPROXY=off GOSUMDB=off GOTOOLCHAIN=local
D="$(cd "$1" && pwd)"; N=$(basename "$D")
WT=/tmp/wt-verify-$N
git -C /repo worktree remove --force $WT 2>/dev/null
git -C /repo worktree add -q --detach $WT HEAD || exit 2
trap 'git -C /repo worktree remove --force '$WT' 2>/dev/null' EXIT
cd $WT
R=""
bash "$D/demo.sh" >/tmp/verify-$N-clean.log 2>&1 && R="$R demo_passes_without=yes" || R="$R demo_passes_without=NO"
git apply "$D/patch.diff" && R="$R applies=yes" || { echo "$N: PATCH DOES NOT APPLY"; exit 1; }
go build ./... && R="$R builds=yes" || R="$R builds=NO"
# the demo test file must not take part in the suite run
find . -name 'zz_seed_demo_test.go' -delete
go test -vet=off -count=2 ./... >/tmp/verify-$N-suite.log 2>&1 && R="$R suite_passes_with=yes" || R="$R suite_passes_with=NO"
bash "$D/demo.sh" >/tmp/verify-$N-patched.log 2>&1 && R="$R demo_fails_with=NO" || R="$R demo_fails_with=yes"
echo "$N:$R"
