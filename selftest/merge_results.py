#!/usr/bin/env python3
"""Merges the rows of partial sweeps (selftest/run_some_seeds.sh) into selftest/RESULTS.md: a change that was re-run gets its
new row, the others keep the row of the last full sweep; the third column says at which /verif commit a row was produced."""
import re, subprocess, sys, glob, os
V = os.path.dirname(os.path.dirname(os.path.abspath(__file__)))
old = {}
for l in open(V + '/selftest/RESULTS.md'):
    l = l.rstrip()
    m = re.match(r'\| (\S+) \| (C\d\d) \| (.*) \| ([0-9a-f]{7,10}) \|$', l)
    if m:
        old[m.group(1)] = (m.group(2), m.group(3), m.group(4))
        continue
    m = re.match(r'\| (\S+) \| (C\d\d) \| (.*) \|$', l)
    if m:
        old[m.group(1)] = (m.group(2), m.group(3).rstrip(), '')
head = subprocess.check_output(['git', '-C', V, 'rev-parse', '--short', 'HEAD']).decode().strip()
repo = subprocess.check_output(['git', '-C', '/repo', 'rev-parse', '--short', 'HEAD']).decode().strip()
new = {}
for f in sys.argv[1:]:
    for l in open(f):
        m = re.match(r'\| (\S+) \| (C\d\d) \| (.*) \|$', l.rstrip())
        if m and ('CAUGHT' in m.group(3) or 'MISSED' in m.group(3) or 'INCONCLUSIVE' in m.group(3) or 'PATCH-DOES-NOT-APPLY' in m.group(3)):
            new[m.group(1)] = (m.group(2), m.group(3))
names = [os.path.basename(d) for d in sorted(glob.glob(V + '/seeded/C*'))] + [os.path.basename(m)[:-5] for m in sorted(glob.glob(V + '/selftest/mutants/*.diff'))]
rows, caught, rerun, missing = [], 0, 0, []
for n in names:
    if n in new:
        p, r = new[n]; at = head; rerun += 1
    elif n in old:
        p, r, at = old[n]; at = at or 'd78e755'
    else:
        missing.append(n); continue
    if 'CAUGHT' in r:
        caught += 1
    rows.append('| %s | %s | %s | %s |' % (n, p, r, at))
out = ['# Self test: seeded changes and own mutants vs. the checks', '',
       'Quick tier, VERIF_SEED=1, /repo commit %s. Each change is applied in a scratch worktree of that commit, the quick check of its property is built against it and run' % repo,
       '(`selftest/run_all_seeds.sh` for all changes, `selftest/run_some_seeds.sh` for a selection; `selftest/merge_results.py` merges partial sweeps).',
       'The last column is the /verif commit at which the row was produced: %d of %d rows were re-run at %s (every change of rounds 13-14 and every property whose case list changed), the others are from the last full sweep.' % (rerun, len(rows), head),
       '%d of %d changes are caught; the others are listed in DESIGN.md section 10 (obsolete after a fix: C04-b, C11-a).' % (caught, len(rows)), '',
       '| change | property | result | /verif commit |', '|--------|----------|--------|---------------|'] + rows
if missing:
    out += ['', 'not run yet: ' + ' '.join(missing)]
open(V + '/selftest/RESULTS.md', 'w').write('\n'.join(out) + '\n')
print(caught, len(rows), 'rerun', rerun, 'missing', missing)
for r in rows:
    if 'CAUGHT' not in r:
        print(r[:200])
