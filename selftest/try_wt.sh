#!/bin/bash
# usage: selftest/try_wt.sh <patch.diff> <Cxx> [<Cyy> ...]   like try.sh, but on a scratch worktree of /repo's HEAD (VERIF_REPO),
# so that /repo's working tree is not touched and several changes can be tried at the same time
P="$(readlink -f "$1")"; shift
N=$(echo "$P" | md5sum | cut -c1-8)
WT=/tmp/wt-try-$N
git -C /repo worktree remove --force $WT 2>/dev/null
git -C /repo worktree add -q --detach $WT HEAD || exit 2
export VERIF_OUT_DIR="$(mktemp -d /tmp/selftest-out.XXXXXX)"
H=$(echo "$WT" | md5sum | cut -c1-8)
trap 'git -C /repo worktree remove --force $WT 2>/dev/null; rm -rf "$VERIF_OUT_DIR" /verif/.build/mod-$H /verif/.build/*-mod-$H' EXIT
if ! git -C $WT apply "$P"; then echo "PATCH-DOES-NOT-APPLY $P"; exit 2; fi
for ID in "$@"; do
  OUT=$(cd /verif && VERIF_REPO=$WT VERIF_SEED=${VERIF_SEED:-1} bin/check "$ID" "${TIER:-quick}" 2>&1); RC=$?
  SIGS=$(echo "$OUT" | grep -E '^  [A-Za-z0-9:_-]+' | cut -c1-${WIDTH:-150} | head -4 | tr '\n' ';')
  case $RC in
    1) echo "CAUGHT $ID: $SIGS";;
    0) echo "MISSED $ID: $(echo "$OUT" | tail -1)";;
    *) echo "INCONCLUSIVE($RC) $ID: $(echo "$OUT" | tail -3 | tr '\n' ' ')";;
  esac
done
