#!/bin/bash
# usage: selftest/run_some_seeds.sh <out-file> <change> [<change> ...]   like run_all_seeds.sh for a selection of changes
# (directories under seeded/ or files under selftest/mutants/); writes one table row per change to <out-file>
cd /verif
OUTF="$1"; shift
PAR=${PAR:-4}
TMP=$(mktemp -d /tmp/seedsweep.XXXXXX)
trap 'rm -rf "$TMP"' EXIT
one() {
  d="$1"; n=$(basename "$d" .diff)
  if [ -d "$d" ]; then patch="$d/patch.diff"; id=${n%%-*}; else patch="$d"; id=$(echo "$n" | cut -d- -f2); fi
  extra=""
  case $n in C01-b|C05-b) extra="C13";; C13-b) extra="C16";; C04-b) extra="C20";; esac
  r=$(selftest/try_wt.sh "$patch" $id $extra 2>&1 | cut -c1-260 | tr '\n' ' ' | tr '|' '/')
  case "$r" in *"failed to read .git/worktrees"*|*"could not lock"*) sleep $((RANDOM % 7)); r=$(selftest/try_wt.sh "$patch" $id $extra 2>&1 | cut -c1-260 | tr '\n' ' ' | tr '|' '/');; esac
  echo "| $n | $id | $r |" > "$TMP/$n.row"
  cat "$TMP/$n.row" >> "$OUTF.progress"
}
export -f one; export TMP OUTF
printf '%s\n' "$@" | xargs -P "$PAR" -I{} bash -c 'one {}'
cat "$TMP"/*.row > "$OUTF"
grep -c CAUGHT "$OUTF"; grep -v CAUGHT "$OUTF"
