#!/usr/bin/env python3
"""Regenerates /verif/MANIFEST.json from the table below (kept next to the checks so that the two stay in step)."""
import json, os, subprocess

V = os.path.dirname(os.path.dirname(os.path.abspath(__file__)))

SEQ_NOTE = ("Trusted base: the Go runtime, the harness (monitored runner mimicking taskctl.TaskRunner, event log, reference model); "
            "hooks H1/H2 (build tag verif) only shorten the poll pause / report events. Held on the executions described in the evidence file, not 'verified'.")

CHECKS = {
    "C01": dict(level="exploration", tech="runtime monitoring: sequential conformance histories vs executable admission model at logical quiescence + offline interval checker over the event log; concurrent stress histories with snapshot invariant and porcupine linearizability check of the recorded API history",
                text="Every generated history (all admission classes, unstartable jobs, slow-to-stop tasks, cancels, delay expiry) is executed on the real runner; the executing set after every operation, every task interval [run-enter, run-exit] and every reported job span are checked against the concurrency limit and the model; histories with saves whose retention rewrites the job lists (also with concurrent schedulers), reloads that change the limit, restarts, and real INT-ignoring process trees are included.", ref="4 C01"),
    "C02": dict(level="exploration", tech="runtime monitoring: per-(job,task) exactly-once counter and dependency-order checker over the runner event log + task-level simulation compared after every step; all 543 labelled 4-node DAGs in thorough",
                text="Random and hand-picked graph shapes with permuted names (so that the topological sort is the only protection against false cycles), cyclic variants and reserved-variable jobs queued among ordinary jobs; every completion order is driver-chosen through task gates; real-runner cases cover failing commands and programs the operating system refuses to start (what a script line did before ran exactly once). Dependencies named twice in depends_on are part of the generated graphs.", ref="4 C02"),
    "C03": dict(level="exploration", tech="runtime monitoring: no-idle-slot-at-logical-quiescence and all-terminal-after-drain oracles over conformance histories",
                text="Liveness restated as bounded progress at logical instants (no wall clock): no stranded job at quiescence, all jobs terminal after drain; histories biased to cancels of waiting jobs, delays, unstartable heads; runners restarted on prepared stores; bursts of 33..260 waiting jobs. Slot-freeing events (task end / failure / cancel of the running job) injected inside the accept path of a schedule request, judged by order-agnostic oracles.", ref="4 C03"),
    "C04": dict(level="exploration", tech="runtime monitoring: directed sweep over cancel instants using hook H1 to park the scheduler loop at every iteration boundary (delivery observed via runner Cancel events), monitored and REAL task runner; offline per-cancel oracle over the event log",
                text="8 cancel variants x 9 graph shapes x boundaries 0..6, each with observed (not assumed) delivery; real TaskRunner repeats with marker files; cancel-heavy conformance histories with slow-to-stop tasks add the surrounding states; real process trees: verdict canceled, nothing of the job outlives the kill timeout.", ref="4 C04"),
    "C05": dict(level="exploration", tech="runtime monitoring: one-step conformance of every schedule request against the admission decision table, snapshot invariants on waiting counts; porcupine linearizability check of recorded concurrent histories against the sequential admission model",
                text="All 84 admission classes appear in every tier; each request's result class, victim, post-state and 'no trace' are compared with the table given the observed pre-state; histories with reloads, with saves that remove several finished jobs, and runners restarted on prepared stores are included.", ref="4 C05"),
    "C06": dict(level="exploration", tech="runtime monitoring: FIFO oracle over recorded Created/Start of all jobs (sequential and concurrent histories) + waiting-list equality with the model after every step",
                text="Histories with up to ~15 waiting jobs, cancels in the middle of the queue, unstartable heads, concurrency 1-3.", ref="4 C06"),
    "C07": dict(level="exploration", tech="runtime monitoring with REAL timers: monotonic timestamp arithmetic (lower bound), logical quiescence after observed delay-handler return (hook H2) for 'no additional delay', replaced-never-runs / newest-runs oracles over the event log",
                text="Bursts of 1-8 requests with gaps around the delay, busy and idle pipelines, cancels inside the burst, 4-client stress bursts; plus logically fired delays in conformance histories (also with retention, reloads, and on runners restarted on every persisted snapshot / prepared stores); a delay that passes while a slow store is busy with a save. Directed case: burst on a delayed pipeline that was undefined (and saved) while its job ran.", ref="4 C07"),
    "C08": dict(level="exploration", tech="runtime monitoring: driver-chosen task outcomes as ground truth, task-level simulation vs tasks inside the monitored runner after every step, predicted verdict vs terminal ReadJob snapshot and /job/detail JSON",
                text="Failure/allow_failure/non-exit-error assignments x both fail-fast settings x release orders x external cancels; verdict soundness (plain success only if all tasks succeeded or failed with allow_failure) is checked on every finished job; real-runner cases: tasks that fail before their script runs, commands killed by signals, programs that cannot be started (allowed or not).", ref="4 C08"),
    "C09": dict(level="fault_enumeration", tech="fault injection with strace: SIGKILL / ENOSPC / EIO / EMFILE injected at EVERY openat/write/close/rename system call of the saving thread of a victim process (counted in a dry run), random-instant SIGKILLs, inspection from a fresh process; in-process reader-vs-writer monitor",
                text="Every system-call boundary of a multi-save run of the real JsonDataStore is a crash point and an I/O fault point; the directory is then loaded by a fresh process and must show one complete, allowed generation; a fresh saver then writes a shorter generation into the same directory, which must be read back exactly.", ref="4 C09",
                note="Trusted base: strace's injection, kernel rename atomicity. Power loss is outside the statement (no fsync in the code)."),
    "C10": dict(level="fault_enumeration", tech="runtime monitoring over save points: recording wrapper around the real JsonDataStore copies every persisted snapshot of a conformance history; a fresh runner is started on each copy and compared field by field (decoded values) with the live runner; prepared store files for states that exist only between two runner steps",
                text="Every persisted snapshot of every history (explicit saves at every position + persist loop) is a restart point; arbitrary JSON payloads incl. floats with 17 significant digits; malformed request bodies; saves that fail in the encoder leave the last good snapshot loadable. After every explicit save the store is compared with the reported state in both directions; real-store case in which a save leaves no job at all (pipelines removed, retention period) before the restart.", ref="4 C10"),
    "C11": dict(level="exploration", tech="runtime monitoring: offline oracle keyed on the Shutdown return event over the event log + recording store (last snapshot that reached the store vs reported state at return), concurrent clients and in-flight slow saves; heartbeat-clock monitor for the persist loop",
                text="States at shutdown begin from conformance prefixes x graceful/forced x racing schedule/cancel/save clients (also over HTTP: 503) x slow saves; persist loop checked with a 10 s heartbeat limit for its 3 s period; the real binary under SIGINT / SIGTERM / repeated SIGINT; the real JSON store after saves that failed while its directory was away; changes made while a graceful shutdown waits reach the store within the interval. The store is judged at the instant Shutdown returns (last save completed by then) and in the end; directed case with a save held inside a slow store and further saves waiting for their turn. Directed case: jobs waiting next to free slots (after a reload raised the concurrency) when the shutdown begins are canceled, not started.", ref="4 C11"),
    "C12": dict(level="exploration", tech="runtime monitoring: before/after oracle around every SaveToStore over generated job populations on the real JsonDataStore + FileOutputStore (API view, store file, recursive hash of the log tree)",
                text="retention_count x retention_period x loaded (shuffled file order) and live jobs in every state x removed pipelines x repeated saves; ages have >= 7 min margins, a 1 ms period makes live unfinished jobs 'too old'; jobs without log directory, runners without output store / data store, failing saves. Several SaveToStore calls at the same time on a slow store: store == API whenever one of them returns. Populations hold jobs that ended long after they were created (age and order are by creation).", ref="4 C12"),
    "C13": dict(level="exploration", tech="Go race detector (-race, implies checkptr) over measured-coverage stress histories; report blocks counted in GORACE log files and de-duplicated by frame pair",
                text="All exported operations plus job/timer/persist goroutines in flight at once, with retention so that saves delete, monitored and real task runner, the real FileOutputStore shared by concurrent jobs / removing saves / a log reader (incl. a task whose log file cannot be created), a forced shutdown against removing saves, a second runner sharing the definitions object; the run is inconclusive unless every lock-conflicting operation pair overlapped at least 20 times.", ref="4 C13",
                note="Trusted base: the Go race detector and runtime. Only races on paths the workload reaches are seen; the evidence file lists the measured overlap matrix."),
    "C14": dict(level="exploration", tech="runtime monitoring of the real http.Handler: exhaustive product of discovered routes (chi.Walk via hook H3) x methods x invalid credential classes x transports x profiling settings, with planted data markers and a before/after state monitor, plus a positive control",
                text="The finite product routes x 7 methods x ~27 invalid credential classes x 3 transports x profiling on/off x 3 secrets is enumerated completely in both tiers (thorough repeats it with fresh random token mutations); every cookie or token a rejected response carries is tried as a credential; the real binary with the profiling flag absent / false. The real binary is started in four secret-source configurations (command line / environment over an old config file, file only, generated): tokens signed with the secret that is not in force are refused on every route.", ref="4 C14",
                note="Trusted base: chi's route walk lists every registered route; the listener (bind address, TLS) is outside the handler."),
    "C15": dict(level="exploration", tech="runtime monitoring: API flags (schedulable/running) vs outcome of the next request and vs job list at every quiescent step",
                text="The schedulable flag is read immediately before every schedule request of the history and compared with what the request then returns; running flag, presence, ordering and timestamps are checked on every snapshot; malformed schedule bodies over HTTP are refused without trace and leave the listing decodable. created <= start <= end and task start <= task end are also judged on every restarted runner.", ref="4 C15"),
    "C16": dict(level="exploration", tech="runtime monitoring: the monitored runner records the task.Task actually handed to it (commands, env, variables); compared with a deep copy of the definition taken when the schedule request returned; reload operations inside conformance histories (also with the loop parked between tasks via H1, and injected inside ScheduleAsync through the job-id generator); SIGUSR1 reload sequences on the real binary",
                text="13 mutation operators applied at every point of a job's life; job list deep-equal across ReplaceDefinitions; per-job delay honoured; nothing stranded for pipelines that remain defined.", ref="4 C16"),
    "C17": dict(level="exploration", tech="runtime monitoring of LoadRecursively / Equals on generated inputs: round trip against the generator's own value, independent re-statement of the validity rules, single-constraint corruptions, reflection-driven single-field mutator for Equals",
                text="Generated YAML trees over all fields (files may be symbolic links, one file > 1 MiB), 19 corruption kinds, every field x every applicable edit operator; an unknown field kind makes the run inconclusive instead of being skipped. String lists are also edited at their entry boundaries (merge / split / empty entries). Valid sets contain pipelines that say nothing (YAML null / {}).", ref="4 C17",
                note="Trusted base: yaml.v2 for emitting the input files; reflection enumerates the fields so future fields are included."),
    "C18": dict(level="exploration", tech="runtime monitoring with REAL processes: every task command dumps its complete environment and rendered arguments; read back through the real FileOutputStore and compared with the three-level expectation",
                text="Names over every subset of the three levels (incl. prefix-related names), hostile values, concurrent jobs with per-job variables, missing-variable and reserved-variable cases. The real binary is driven through SIGUSR1 reloads and the environment a command sees is read after every reload.", ref="4 C18",
                note="Trusted base: /proc-free; the dump command is the harness binary re-executed by the real PgidExecutor. Template values use a shell-safe alphabet."),
    "C19": dict(level="exploration", tech="runtime monitoring with REAL processes: deterministic tagged byte-stream generator as task command, byte-exact comparison (length, SHA-256, first differing offset) of FileOutputStore.Reader and GET /job/logs with the recomputed streams",
                text="Sizes 0..8 MiB, binary and line-structured payloads, several commands per task, concurrent tasks and jobs, failing and canceled writers (prefix property), hostile task names, descendants that write after their command exited, saves with retention while jobs write, the log API asked with other spellings of the job id. Fault case: the log file of one task cannot be created while its siblings have written / still write. Task-name pairs related through the escaping of the file output store (second task never ran).", ref="4 C19",
                note="Trusted base: the generator is re-run in the harness to recompute the expected streams; stdout and stderr are compared separately."),
    "C20": dict(level="exploration", tech="runtime monitoring with REAL process trees: /proc scan for per-job environment markers at the instant the canceled job is first observed finished and after the kill timeout; heartbeat-clock bound",
                text="23 tree shapes x 3 cancel instants x CancelJob / forced Shutdown x other jobs alongside; four shape signatures are known findings (processes that outlive the report by at most the kill timeout), everything surviving the kill timeout is a violation for every shape; kill timeouts 0 / negative / 150 ms / 700 ms / 5.5 s / 6.5 s (nothing alive when a forced Shutdown returns). Forced shutdown over 4-5 running jobs that all ignore the interrupt (every job finished within kill timeout + calibrated allowance). Two shapes in which the interrupted leader prints a line while an interrupt-ignoring descendant holds the output.", ref="4 C20",
                note="Trusted base: /proc (environ, stat) of this container; processes that leave the process group are excluded by the statement."),
}

NOT_YET = "check not built yet (framework under construction; see DESIGN.md section 4)"


def main():
    props = [json.loads(l) for l in open(os.path.join(V, "properties.jsonl"))]
    hooks = subprocess.run(["git", "-C", "/repo", "log", "--format=%h %s"], capture_output=True, text=True).stdout.splitlines()
    hook_commits = [l.split()[0] for l in hooks if l.split(" ", 1)[1].startswith("verif hook")]
    m = {
        "version": 1,
        "setup_cmd": "bin/setup",
        "hooks": {
            "guard": "verif",
            "enable": "go build -tags verif (harness module /verif/harness replaces github.com/Flowpack/prunner with /repo; bin/check rebuilds on every run)",
            "baseline_off_cmd": "cd /repo && GOFLAGS=-mod=mod GOPROXY=off GOSUMDB=off GOTOOLCHAIN=local go test -vet=off -count=1 ./...",
            "source_commits": list(reversed(hook_commits)),
            "add_only": True,
        },
        "engines": [
            {"name": "pxcheck", "path": "harness/cmd/pxcheck", "serves_properties": sorted(CHECKS), "kind_free_text": "Go harness: monitored runner/stores injected through NewPipelineRunner, event log, reference model, offline log checkers, race detector, strace fault injection"},
        ],
        "checks": [],
        "not_applicable": [],
        "notes": "exit 0 held / 1 VIOLATION / 2 inconclusive. VERIF_SEED selects the PRNG seed; case lists have fixed length per tier. See DESIGN.md.",
    }
    for p in props:
        i = p["id"]
        c = CHECKS.get(i)
        if not c:
            m["not_applicable"].append({"property_id": i, "reason": NOT_YET})
            continue
        m["checks"].append({
            "property_id": i,
            "quick_cmd": f"bin/check {i} quick",
            "thorough_cmd": f"bin/check {i} thorough",
            "evidence_file": f"/verif/evidence/{i}.json",
            "replay_cmd_template": "cat {path}  # the file contains the witness and the exact 'bin/check <id> replay <tier> <seed> <case>' command",
            "engine": "pxcheck",
            "level_claimed": {"category": c["level"], "text": c["text"], "design_ref": "DESIGN.md section " + c["ref"]},
            "level_note": c.get("note", SEQ_NOTE),
            "technique": c["tech"],
        })
    json.dump(m, open(os.path.join(V, "MANIFEST.json"), "w"), indent=1)
    print("checks:", len(m["checks"]), "not_applicable:", len(m["not_applicable"]))


if __name__ == "__main__":
    main()
